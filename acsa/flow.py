"""Intra-procedural data-flow helpers: flow-insensitive taint closure, predicate-sensitive
definite assignment."""
from __future__ import annotations

import ast
from typing import Callable, Dict, List, Optional, Set, Tuple

from .core import unparse, walk_no_nested

# ---------------------------------------------------------------------------------------------
# taint
# ---------------------------------------------------------------------------------------------


def _target_names(t: ast.AST) -> List[str]:
    if isinstance(t, ast.Name):
        return [t.id]
    if isinstance(t, (ast.Tuple, ast.List)):
        out = []
        for e in t.elts:
            out += _target_names(e)
        return out
    if isinstance(t, ast.Starred):
        return _target_names(t.value)
    if isinstance(t, (ast.Subscript, ast.Attribute)):
        # storing into a container taints the container
        cur = t
        while isinstance(cur, (ast.Subscript, ast.Attribute)):
            cur = cur.value
        return [cur.id] if isinstance(cur, ast.Name) else []
    return []


def expr_tainted(e: ast.AST, tainted: Set[str], is_source: Callable[[ast.AST], bool], sanitizer: Callable[[ast.AST], bool] = None) -> bool:
    """Does ``e`` contain a source node or a tainted name (outside sanitised sub-expressions)?"""
    todo = [e]
    while todo:
        n = todo.pop()
        if sanitizer is not None and sanitizer(n):
            continue
        if is_source(n):
            return True
        if isinstance(n, ast.Name) and n.id in tainted:
            return True
        todo.extend(ast.iter_child_nodes(n))
    return False


def tainted_names(
    fn: ast.AST,
    is_source: Callable[[ast.AST], bool],
    sanitizer: Callable[[ast.AST], bool] = None,
    seeds: Set[str] = frozenset(),
) -> Set[str]:
    """Names that may (transitively, flow-insensitively) hold a value derived from a source."""
    tainted: Set[str] = set(seeds)
    changed = True
    while changed:
        changed = False
        for n in walk_no_nested(fn):
            pairs: List[Tuple[List[str], ast.AST]] = []
            if isinstance(n, ast.Assign):
                for t in n.targets:
                    pairs.append((_target_names(t), n.value))
            elif isinstance(n, ast.AnnAssign) and n.value is not None:
                pairs.append((_target_names(n.target), n.value))
            elif isinstance(n, ast.AugAssign):
                pairs.append((_target_names(n.target), n.value))
            elif isinstance(n, (ast.For, ast.AsyncFor)):
                pairs.append((_target_names(n.target), n.iter))
            elif isinstance(n, ast.comprehension):
                pairs.append((_target_names(n.target), n.iter))
            elif isinstance(n, ast.NamedExpr):
                pairs.append((_target_names(n.target), n.value))
            elif isinstance(n, (ast.With, ast.AsyncWith)):
                for it in n.items:
                    if it.optional_vars is not None:
                        pairs.append((_target_names(it.optional_vars), it.context_expr))
            elif isinstance(n, ast.Call) and isinstance(n.func, ast.Attribute) and n.func.attr in (
                "append", "update", "extend", "insert", "add"
            ):
                # container.append(tainted) taints the container
                root = n.func.value
                while isinstance(root, (ast.Attribute, ast.Subscript)):
                    root = root.value
                if isinstance(root, ast.Name):
                    for a in list(n.args) + [k.value for k in n.keywords]:
                        pairs.append(([root.id], a))
            for names, value in pairs:
                if not names:
                    continue
                if expr_tainted(value, tainted, is_source, sanitizer):
                    for nm in names:
                        if nm not in tainted:
                            tainted.add(nm)
                            changed = True
    return tainted


# ---------------------------------------------------------------------------------------------
# predicate-sensitive definite assignment
# ---------------------------------------------------------------------------------------------


class _DA:
    """Definite assignment over the syntax tree.  State = (definitely-assigned names, facts) where
    facts are normalised test texts known true / false on the current path; a name assigned under
    ``if T:`` counts as assigned later under the same ``T`` (same-test correlation) provided none of
    the names ``T`` reads was reassigned in between.  Membership implies truthiness of a list built
    from non-empty names: ``x in L`` true => ``any(L)`` true."""

    def __init__(self, fn: ast.FunctionDef):
        self.fn = fn
        self.problems: List[Tuple[str, ast.AST]] = []
        a = fn.args
        self.params = {x.arg for x in a.posonlyargs + a.args + a.kwonlyargs}
        if a.vararg:
            self.params.add(a.vararg.arg)
        if a.kwarg:
            self.params.add(a.kwarg.arg)
        self.locals: Set[str] = set()
        for n in walk_no_nested(fn):
            if isinstance(n, ast.Name) and isinstance(n.ctx, (ast.Store, ast.Del)):
                self.locals.add(n.id)
            elif isinstance(n, (ast.FunctionDef, ast.ClassDef)):
                self.locals.add(n.name)
            elif isinstance(n, ast.ExceptHandler) and n.name:
                self.locals.add(n.name)
            elif isinstance(n, (ast.Import, ast.ImportFrom)):
                for al in n.names:
                    self.locals.add((al.asname or al.name).split(".")[0])
        self.globals_decl: Set[str] = set()
        for n in walk_no_nested(fn):
            if isinstance(n, (ast.Global, ast.Nonlocal)):
                self.globals_decl |= set(n.names)
        self.locals -= self.globals_decl

    def run(self):
        st = (frozenset(self.params), frozenset(), frozenset())  # assigned, true-facts, (fact -> names assigned under it)
        self.block(self.fn.body, st)
        return self.problems

    # state: (assigned, facts_true, cond_assigned) ; cond_assigned = frozenset of (fact, name)
    def use(self, e: ast.AST, st):
        assigned, facts, cond = st
        if e is None:
            return
        for n in self._reads(e):
            if n.id in self.locals and n.id not in assigned:
                # conditionally assigned under a fact that holds now?
                if any((f, n.id) in cond for f in facts):
                    continue
                # assigned under T and under not T (two complementary ifs)
                under = {f for f, nm in cond if nm == n.id}
                if any(("!" + f) in under for f in under if not f.startswith("!")):
                    continue
                self.problems.append((n.id, n))

    def _reads(self, e: ast.AST):
        # names read, honouring comprehension-local targets
        out = []

        def visit(n, bound):
            if isinstance(n, (ast.ListComp, ast.SetComp, ast.GeneratorExp, ast.DictComp)):
                b = set(bound)
                for g in n.generators:
                    visit(g.iter, b)
                    for t in ast.walk(g.target):
                        if isinstance(t, ast.Name):
                            b.add(t.id)
                    for c in g.ifs:
                        visit(c, b)
                if isinstance(n, ast.DictComp):
                    visit(n.key, b)
                    visit(n.value, b)
                else:
                    visit(n.elt, b)
                return
            if isinstance(n, ast.Lambda):
                b = set(bound) | {x.arg for x in n.args.args + n.args.kwonlyargs}
                visit(n.body, b)
                return
            if isinstance(n, ast.Name):
                if isinstance(n.ctx, ast.Load) and n.id not in bound:
                    out.append(n)
                return
            for ch in ast.iter_child_nodes(n):
                visit(ch, bound)

        visit(e, set())
        return out

    def fact(self, test: ast.expr) -> Tuple[str, bool]:
        pol = True
        t = test
        while isinstance(t, ast.UnaryOp) and isinstance(t.op, ast.Not):
            pol = not pol
            t = t.operand
        if isinstance(t, ast.Compare) and len(t.ops) == 1 and isinstance(t.ops[0], (ast.NotIn, ast.NotEq, ast.IsNot)):
            pos = {ast.NotIn: ast.In, ast.NotEq: ast.Eq, ast.IsNot: ast.Is}[type(t.ops[0])]
            t = ast.Compare(left=t.left, ops=[pos()], comparators=t.comparators)
            pol = not pol
        return unparse(t), pol

    def implied(self, test: ast.expr) -> List[str]:
        """Facts implied by ``test`` being true."""
        out = []
        txt, pol = self.fact(test)
        out.append(("" if pol else "!") + txt)
        t = test
        if isinstance(t, ast.BoolOp) and isinstance(t.op, ast.And):
            for v in t.values:
                out += self.implied(v)
        if isinstance(t, ast.Compare) and len(t.ops) == 1 and isinstance(t.ops[0], ast.In):
            out.append(f"any({unparse(t.comparators[0])})")
            out.append(f"len({unparse(t.comparators[0])}) > 0")
        return out

    def kill(self, st, names: Set[str]):
        assigned, facts, cond = st
        if not names:
            return st

        def mentions(f: str) -> bool:
            try:
                tree = ast.parse(f.lstrip("!"), mode="eval")
            except SyntaxError:
                return True
            return any(isinstance(n, ast.Name) and n.id in names for n in ast.walk(tree))

        facts2 = frozenset(f for f in facts if not mentions(f))
        cond2 = frozenset((f, n) for f, n in cond if not mentions(f))
        return (assigned, facts2, cond2)

    def assign_names(self, st, names: Set[str]):
        st = self.kill(st, names)
        assigned, facts, cond = st
        # remember: assigned while these facts hold
        cond2 = set(cond)
        for f in facts:
            for n in names:
                cond2.add((f, n))
        return (assigned | names, facts, frozenset(cond2))

    def join(self, a, b):
        if a is None:
            return b
        if b is None:
            return a
        return (a[0] & b[0], a[1] & b[1], a[2] | b[2])

    def block(self, stmts, st):
        for s in stmts:
            if st is None:
                break
            st = self.stmt(s, st)
        return st

    def targets(self, t) -> Set[str]:
        return {n.id for n in ast.walk(t) if isinstance(n, ast.Name) and isinstance(n.ctx, ast.Store)}

    def stmt(self, s, st):
        if isinstance(s, ast.Assign):
            self.use(s.value, st)
            for t in s.targets:
                for sub in ast.walk(t):
                    if isinstance(sub, (ast.Subscript, ast.Attribute)):
                        self.use(sub.value, st)
                        if isinstance(sub, ast.Subscript):
                            self.use(sub.slice, st)
            names = set()
            for t in s.targets:
                names |= self.targets(t)
            return self.assign_names(st, names)
        if isinstance(s, ast.AnnAssign):
            if s.value is not None:
                self.use(s.value, st)
                return self.assign_names(st, self.targets(s.target))
            return st
        if isinstance(s, ast.AugAssign):
            self.use(s.value, st)
            if isinstance(s.target, ast.Name):
                if s.target.id in self.locals and s.target.id not in st[0]:
                    under = {f for f, nm in st[2] if nm == s.target.id}
                    both = any(("!" + f) in under for f in under if not f.startswith("!"))
                    if not both and not any((f, s.target.id) in st[2] for f in st[1]):
                        self.problems.append((s.target.id, s.target))
                return self.assign_names(st, {s.target.id})
            self.use(s.target, st)
            return st
        if isinstance(s, ast.Expr):
            self.use(s.value, st)
            return st
        if isinstance(s, ast.Return):
            self.use(s.value, st)
            return None
        if isinstance(s, ast.Raise):
            self.use(s.exc, st)
            return None
        if isinstance(s, ast.Assert):
            self.use(s.test, st)
            self.use(s.msg, st)
            assigned, facts, cond = st
            return (assigned, facts | frozenset(self.implied(s.test)), cond)
        if isinstance(s, ast.If):
            self.use(s.test, st)
            assigned, facts, cond = st
            txt, pol = self.fact(s.test)
            t_facts = facts | frozenset(self.implied(s.test))
            f_facts = facts | frozenset([("!" if pol else "") + txt])
            a = self.block(s.body, (assigned, t_facts, cond))
            b = self.block(s.orelse, (assigned, f_facts, cond))
            # facts established by the test do not survive the join, conditional assignments do
            def strip(x, extra):
                if x is None:
                    return None
                return (x[0], frozenset(f for f in x[1] if f in facts or f not in extra), x[2])
            a = strip(a, t_facts - facts)
            b = strip(b, f_facts - facts)
            return self.join(a, b)
        if isinstance(s, (ast.For, ast.AsyncFor)):
            self.use(s.iter, st)
            body_in = self.assign_names(st, self.targets(s.target))
            body_out = self.block(s.body, body_in)
            after = self.join(st, body_out) if body_out is not None else st
            # names assigned in the body are not definitely assigned after the loop
            after = (st[0] & after[0] if after else st[0], st[1] & (after[1] if after else st[1]), (after[2] if after else st[2]))
            if s.orelse:
                return self.block(s.orelse, after)
            return after
        if isinstance(s, ast.While):
            self.use(s.test, st)
            body_out = self.block(s.body, st)
            after = (st[0], st[1] & (body_out[1] if body_out else st[1]), st[2] | (body_out[2] if body_out else frozenset()))
            if s.orelse:
                return self.block(s.orelse, after)
            return after
        if isinstance(s, (ast.With, ast.AsyncWith)):
            names = set()
            for it in s.items:
                self.use(it.context_expr, st)
                if it.optional_vars is not None:
                    names |= self.targets(it.optional_vars)
            return self.block(s.body, self.assign_names(st, names))
        if isinstance(s, ast.Try):
            body = self.block(s.body, st)
            out = self.block(s.orelse, body) if (s.orelse and body is not None) else body
            for h in s.handlers:
                hs = st
                if h.name:
                    hs = self.assign_names(hs, {h.name})
                out = self.join(out, self.block(h.body, hs))
            if s.finalbody and out is not None:
                out = self.block(s.finalbody, out)
            return out
        if isinstance(s, (ast.FunctionDef, ast.AsyncFunctionDef, ast.ClassDef)):
            return self.assign_names(st, {s.name})
        if isinstance(s, (ast.Import, ast.ImportFrom)):
            return self.assign_names(st, {(al.asname or al.name).split(".")[0] for al in s.names})
        if isinstance(s, ast.Delete):
            return st
        if isinstance(s, (ast.Break, ast.Continue)):
            return None
        return st


def possibly_unbound(fn: ast.FunctionDef) -> List[Tuple[str, ast.AST]]:
    """(name, node) for every read of a local that is not definitely assigned on some path."""
    return _DA(fn).run()
