"""Path-sensitive flow of *optional results* through a small function.

Used for ``BaseCarver._get_best_combination``: the function runs one or two search stages (calls of
``_get_best_association``), each returning ``(association or None, order)``, and must return a
combination iff the last stage that ran succeeded.  How that is written -- a flag tested at the end,
nested ifs, guard clauses with early ``return None`` -- is irrelevant; what matters is, on every
path, which stage ran last, whether its result was None, and what is returned.

The analysis enumerates the paths of the function over a finite abstraction: every search call forks
into *found* / *not found*; every test is evaluated three-valued from what is known about the
variables holding search results (``v is None`` / ``v is not None``, and / or / not); a test on
anything else forks both ways, its canonical text being remembered so that the same test is decided
the same way later on the path (until something it reads is assigned).  No loop is expected in the
analysed function (a loop makes the result UNDECIDED).
"""
from __future__ import annotations

import ast
from dataclasses import dataclass, field
from typing import Dict, List, Optional, Tuple

from .core import unparse
from .exprs import cmp_canon


@dataclass
class Path:
    null: Dict[str, str] = field(default_factory=dict)  # variable -> "none" | "some"
    origin: Dict[str, int] = field(default_factory=dict)  # variable -> index of the search call it holds
    facts: Dict[str, bool] = field(default_factory=dict)  # canonical test text -> value on this path
    calls: List[Tuple[int, bool, Dict[str, bool]]] = field(default_factory=list)  # (call index, found?, facts at the call)
    trace: List[str] = field(default_factory=list)

    def clone(self) -> "Path":
        return Path(dict(self.null), dict(self.origin), dict(self.facts), list(self.calls), list(self.trace))


@dataclass
class Outcome:
    kind: str  # "value" | "none"
    path: Path
    node: Optional[ast.AST]


class Undecided(Exception):
    pass


class OptFlow:
    def __init__(self, fn: ast.FunctionDef, search_call: str):
        self.fn = fn
        self.search_call = search_call
        self.calls: List[ast.Call] = []
        self.outcomes: List[Outcome] = []
        self.n_paths = 0

    # ---- tests ---------------------------------------------------------------------------
    def _atom(self, t: ast.expr, p: Path) -> Optional[bool]:
        cc = cmp_canon(t)
        if cc and cc[2] == "None" and cc[1] in ("is", "is not") and cc[0] in p.null:
            is_none = p.null[cc[0]] == "none"
            return is_none if cc[1] == "is" else not is_none
        if isinstance(t, ast.Name) and t.id in p.null:
            return p.null[t.id] == "some" if p.null[t.id] == "some" else False
        return None

    def _eval(self, t: ast.expr, p: Path) -> List[Tuple[bool, Path]]:
        """All (value, path) pairs for evaluating the test on the path (forks on unknown atoms)."""
        if isinstance(t, ast.UnaryOp) and isinstance(t.op, ast.Not):
            return [(not v, q) for v, q in self._eval(t.operand, p)]
        if isinstance(t, ast.BoolOp):
            is_and = isinstance(t.op, ast.And)
            results: List[Tuple[bool, Path]] = []
            frontier = [(None, p)]
            for operand in t.values:
                nxt = []
                for _, q in frontier:
                    for v, q2 in self._eval(operand, q):
                        if v != is_and:  # short circuit
                            results.append((v, q2))
                        else:
                            nxt.append((v, q2))
                frontier = nxt
            results.extend((is_and, q) for _, q in frontier)
            return results
        known = self._atom(t, p)
        if known is not None:
            return [(known, p)]
        key = unparse(t)
        cc = cmp_canon(t)
        if cc:
            key = " ".join(cc)
            neg = {"<": ">=", "<=": ">", ">": "<=", ">=": "<", "==": "!=", "!=": "==", "in": "not in", "not in": "in", "is": "is not", "is not": "is"}
        if key in p.facts:
            return [(p.facts[key], p)]
        out = []
        for v in (True, False):
            q = p.clone()
            q.facts[key] = v
            q.trace.append(f"{key} is {v}")
            out.append((v, q))
        return out

    # ---- statements ----------------------------------------------------------------------
    def _kill(self, p: Path, names) -> None:
        for n in names:
            p.null.pop(n, None)
            p.origin.pop(n, None)
        for k in list(p.facts):
            try:
                tree = ast.parse(k.replace(" not in ", " in ").replace(" is not ", " is "), mode="eval")
                used = {x.id for x in ast.walk(tree) if isinstance(x, ast.Name)}
            except SyntaxError:
                used = set(names)
            if used & set(names):
                del p.facts[k]

    def _assign(self, st: ast.Assign, p: Path) -> List[Path]:
        tg = st.targets[0] if len(st.targets) == 1 else None
        v = st.value
        # search call
        call = v if isinstance(v, ast.Call) and isinstance(v.func, ast.Attribute) and v.func.attr == self.search_call else None
        if call is not None:
            if call not in self.calls:
                self.calls.append(call)
            idx = self.calls.index(call)
            names = [x.id for x in ast.walk(tg) if isinstance(x, ast.Name)] if tg is not None else []
            first = None
            if isinstance(tg, ast.Tuple) and tg.elts and isinstance(tg.elts[0], ast.Name):
                first = tg.elts[0].id
            elif isinstance(tg, ast.Name):
                raise Undecided(f"the result of {self.search_call} is kept as one object: `{unparse(st)[:60]}`")
            out = []
            for found in (True, False):
                q = p.clone()
                facts_at_call = dict(q.facts)  # what is established when the stage starts
                self._kill(q, names)
                if first:
                    q.null[first] = "some" if found else "none"
                    q.origin[first] = idx
                q.calls.append((idx, found, facts_at_call))
                q.trace.append(f"stage {idx + 1} {'finds' if found else 'finds no'} association")
                out.append(q)
            return out
        names = [x.id for t in st.targets for x in ast.walk(t) if isinstance(x, ast.Name) and isinstance(x.ctx, ast.Store)]
        # copies: a = b ; a, c = b, d
        pairs = []
        if isinstance(tg, ast.Name):
            pairs = [(tg.id, v)]
        elif isinstance(tg, ast.Tuple) and isinstance(v, ast.Tuple) and len(tg.elts) == len(v.elts):
            pairs = [(t.id, e) for t, e in zip(tg.elts, v.elts) if isinstance(t, ast.Name)]
        new_null, new_origin = {}, {}
        for name, e in pairs:
            if isinstance(e, ast.Constant) and e.value is None:
                new_null[name] = "none"
            elif isinstance(e, ast.Name) and e.id in p.null:
                new_null[name] = p.null[e.id]
                if e.id in p.origin:
                    new_origin[name] = p.origin[e.id]
        q = p.clone()
        self._kill(q, names)
        q.null.update(new_null)
        q.origin.update(new_origin)
        return [q]

    def _block(self, stmts: List[ast.stmt], paths: List[Path]) -> List[Path]:
        for st in stmts:
            if not paths:
                break
            nxt: List[Path] = []
            for p in paths:
                nxt.extend(self._stmt(st, p))
            paths = nxt
            if len(paths) > 4096:
                raise Undecided("too many paths")
        return paths

    def _stmt(self, st: ast.stmt, p: Path) -> List[Path]:
        if isinstance(st, ast.Assign):
            return self._assign(st, p)
        if isinstance(st, (ast.AugAssign, ast.AnnAssign)):
            q = p.clone()
            tgt = st.target
            self._kill(q, [x.id for x in ast.walk(tgt) if isinstance(x, ast.Name)])
            return [q]
        if isinstance(st, ast.If):
            out: List[Path] = []
            for v, q in self._eval(st.test, p):
                out.extend(self._block(st.body if v else st.orelse, [q]))
            return out
        if isinstance(st, ast.Return):
            v = st.value
            is_none = v is None or (isinstance(v, ast.Constant) and v.value is None)
            if not is_none and isinstance(v, ast.Name) and v.id in p.null:
                is_none = p.null[v.id] == "none"
            elif not is_none and isinstance(v, ast.Name):
                raise Undecided(f"`return {v.id}`: not known whether it is None")
            elif not is_none and isinstance(v, ast.IfExp):
                res = []
                for tv, q in self._eval(v.test, p):
                    res.extend(self._stmt(ast.Return(value=v.body if tv else v.orelse), q))
                return res
            self.outcomes.append(Outcome("none" if is_none else "value", p, st))
            self.n_paths += 1
            return []
        if isinstance(st, ast.Raise):
            return []
        if isinstance(st, (ast.For, ast.While, ast.Try, ast.With)):
            if any(isinstance(n, ast.Call) and isinstance(n.func, ast.Attribute) and n.func.attr == self.search_call for n in ast.walk(st)) or any(isinstance(n, ast.Return) for n in ast.walk(st)):
                raise Undecided(f"{type(st).__name__} statement around a search stage or a return")
            q = p.clone()
            self._kill(q, [x.id for x in ast.walk(st) if isinstance(x, ast.Name) and isinstance(x.ctx, ast.Store)])
            return [q]
        if isinstance(st, ast.Expr):
            # a mutating call on a tracked name does not change its None-ness
            return [p]
        if isinstance(st, (ast.Pass, ast.Assert, ast.Global, ast.Nonlocal, ast.Delete, ast.Import, ast.ImportFrom)):
            return [p]
        raise Undecided(f"statement kind {type(st).__name__}")

    def run(self) -> "OptFlow":
        if any(isinstance(n, ast.Call) and isinstance(n.func, ast.Attribute) and n.func.attr == self.search_call and not isinstance(getattr(n, "_p", None), ast.AST) for n in ast.walk(self.fn)) is False:
            raise Undecided(f"no call of {self.search_call}")
        rest = self._block(self.fn.body, [Path()])
        for p in rest:  # falls off the end: returns None
            self.outcomes.append(Outcome("none", p, None))
            self.n_paths += 1
        return self
