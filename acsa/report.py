"""Obligations, verdicts, known findings, evidence and replay files."""
from __future__ import annotations

import hashlib
import json
import os
import time
from dataclasses import dataclass, field
from typing import Dict, List, Optional

from .core import AnalysisError, Repo

VERIF = os.path.dirname(os.path.dirname(os.path.abspath(__file__)))
KNOWN_FINDINGS = os.path.join(VERIF, "KNOWN_FINDINGS.txt")

TRUSTED_BASE = [
    "CPython ast module (parsing of /repo/AutoCarver/**/*.py on every run)",
    "acsa call resolution / MRO (cross-checked against the frozen resolution table in selfcheck)",
    "acsa statement CFG + dominators; implicit exceptions inside library calls are not modelled",
    "library effect model: pandas/numpy/scipy calls do not mutate their arguments unless "
    "inplace=True; listed transfer functions for aliasing, row order and sortedness",
]
ASSUMPTIONS = [
    "closed world: user code does not monkey-patch or subclass-override AutoCarver internals",
    "feature names are non-empty strings; raw data does not contain the sentinel strings "
    "__NAN__/__OTHER__",
    "a static verdict covers the clauses named in the evidence 'explanation' only; clauses listed "
    "under 'not_decided' need execution and are not claimed",
]


@dataclass
class Obligation:
    rule: str
    construct: str  # module::qualified function::normalised expression (never a line number)
    ok: Optional[bool]  # True holds / False definite violation / None undecided
    where: str = ""  # file:line (diagnostic only, not part of the key)
    detail: str = ""

    def key(self):
        return (self.rule, self.construct)


@dataclass
class Result:
    prop: str
    obligations: List[Obligation] = field(default_factory=list)
    analysed: Dict[str, object] = field(default_factory=dict)
    error: Optional[str] = None

    @property
    def violations(self) -> List[Obligation]:
        return [o for o in self.obligations if o.ok is False]

    @property
    def undecided(self) -> List[Obligation]:
        return [o for o in self.obligations if o.ok is None]


class Ctx:
    """What a rule module receives: the parsed repo, shared engines and an obligation sink."""

    def __init__(self, repo: Repo, prop: str):
        self.repo = repo
        self.prop = prop
        self.result = Result(prop)
        self._cache: Dict[str, object] = {}

    def ob(self, rule: str, construct: str, ok: Optional[bool], where: str = "", detail: str = ""):
        self.result.obligations.append(Obligation(rule, construct, ok, where, detail))
        return ok

    def analysed(self, key: str, value) -> None:
        cur = self.result.analysed.get(key)
        if isinstance(value, int) and isinstance(cur, int):
            self.result.analysed[key] = cur + value
        elif isinstance(value, (list, set, tuple)):
            prev = set(cur or [])
            self.result.analysed[key] = sorted(prev | set(value))
        else:
            self.result.analysed[key] = value

    def shared(self, name: str, factory):
        if name not in self._cache:
            self._cache[name] = factory()
        return self._cache[name]

    @property
    def effects(self):
        from .effects import Effects

        return self.shared("effects", lambda: Effects(self.repo))


# ---------------------------------------------------------------------------------------------
# known findings
# ---------------------------------------------------------------------------------------------


@dataclass
class Known:
    prop: str
    rule: str
    construct: str
    text: str


def load_known(path: str = KNOWN_FINDINGS) -> List[Known]:
    out: List[Known] = []
    if not os.path.exists(path):
        return out
    with open(path, encoding="utf-8") as fh:
        for line in fh:
            line = line.strip()
            if not line.startswith("finding:"):
                continue  # 'fixed:' lines and comments suppress nothing
            head, _, text = line[len("finding:"):].partition(" :: ")
            fields = {}
            rest = head.strip()
            # construct= is last and may contain spaces
            pre, _, construct = rest.partition(" construct=")
            for tok in pre.split():
                if "=" in tok:
                    k, v = tok.split("=", 1)
                    fields[k] = v
            out.append(Known(fields.get("property", ""), fields.get("rule", ""), construct.strip(), text.strip()))
    return out


def digest(prop: str, ob: Obligation) -> str:
    return hashlib.sha1(f"{prop}|{ob.rule}|{ob.construct}".encode()).hexdigest()[:12]


def write_replay(prop: str, ob: Obligation) -> str:
    os.makedirs(os.path.join(VERIF, "replays"), exist_ok=True)
    path = os.path.join(VERIF, "replays", f"{prop}-{digest(prop, ob)}.json")
    with open(path, "w", encoding="utf-8") as fh:
        json.dump(
            {
                "property": prop,
                "rule": ob.rule,
                "construct": ob.construct,
                "where": ob.where,
                "detail": ob.detail,
                "replay_cmd": f"python3 -m acsa replay {path}",
            },
            fh,
            indent=1,
        )
    return path


def write_evidence(
    prop: str,
    tier: str,
    seed: int,
    result: Result,
    meta: dict,
    wall_s: float,
    n_viol: int,
    selftest: dict,
    known_printed: List[str],
) -> str:
    os.makedirs(os.path.join(VERIF, "evidence"), exist_ok=True)
    path = os.path.join(VERIF, "evidence", f"{prop}.json")
    obs = result.obligations
    distinct = {o.key() for o in obs if o.construct}
    by_rule: Dict[str, List[int]] = {}
    for o in obs:
        r = by_rule.setdefault(o.rule, [0, 0])
        r[0] += 1
        r[1] += 1 if o.ok else 0
    # sample obligations: spread over rules, rotated by the seed
    samples = []
    rules = sorted(by_rule)
    for i, rule in enumerate(rules):
        ros = [o for o in obs if o.rule == rule]
        if ros:
            o = ros[(seed + i) % len(ros)]
            samples.append(
                {
                    "rule": o.rule,
                    "construct": o.construct,
                    "where": o.where,
                    "verdict": "holds" if o.ok else ("VIOLATION" if o.ok is False else "undecided"),
                    "detail": o.detail[:300],
                }
            )
    variants = selftest.get("variants_analysed", 0)
    coverage = {
        "explanation": meta.get("explanation", ""),
        "not_decided": meta.get("not_decided", ""),
        "obligations": len(obs),
        "discharged": sum(1 for o in obs if o.ok),
        "evaluations": len(obs) + variants,
        "distinct_nontrivial": len(distinct),
        "rule": "one obligation per (rule, construct) instance found in /repo's current sources; "
        "distinct = distinct (rule, construct) keys; non-trivial = the obligation inspected at "
        "least one parsed construct of /repo (all do: obligations are only created from AST nodes)",
        "samples": samples,
        "exhaustive": True,
        "rules": {r: {"instances": v[0], "holding": v[1]} for r, v in sorted(by_rule.items())},
        "analysed": result.analysed,
        "selftest": selftest,
        "known_findings_printed": known_printed,
        "checker_cmd": f"python3 -m acsa check {prop} --tier {tier}",
        "trusted_base": TRUSTED_BASE,
    }
    ev = {
        "property_id": prop,
        "tier": tier,
        "seed": seed,
        "level": "other",
        "coverage": coverage,
        "assumptions": ASSUMPTIONS + list(meta.get("assumptions", [])),
        "wall_s": round(wall_s, 3),
        "violations": n_viol,
    }
    tmp = path + ".tmp"
    with open(tmp, "w", encoding="utf-8") as fh:
        json.dump(ev, fh, indent=1, default=str)
    os.replace(tmp, path)
    return path
