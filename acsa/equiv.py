"""Function-level equivalence to the reference tree by normal-form comparison.

The rules were validated on a reference tree (``selftest/reference_src.json``, written by
``python3 -m acsa refdigest`` together with the digest and the local-name table).  A later edit of
/repo that only *re-expresses* a function (renamed locals, a hoisted sub-expression, a loop turned
into a comprehension, a guard clause instead of a nested ``if``, an extracted private helper,
re-ordered independent statements, reworded messages, annotations, docstrings ...) must not change
any verdict.  Instead of teaching every rule every spelling, each function of the current tree that
differs from its reference version is brought to a *normal form* by a pipeline of
semantics-preserving rewrites; the reference version goes through the same pipeline; when the two
normal forms are identical the current function is **proved equivalent to the reference function**
(up to the stated assumptions) and the reference syntax tree is analysed in its place.  When they
differ, nothing is concluded: the rules analyse the current function as written.

This is a static equivalence check, not a rule: it can only turn "the function changed" into "the
function is the reference function".  It never produces a violation.

Assumptions of the rewrites (each is a documented equivalence of Python semantics under them):
  * evaluating an expression without calls to mutating methods has no side effect, and evaluating it
    twice in the same state gives the same value (so a single-assignment temporary can be replaced
    by its definition where nothing it reads is written in between, and no assert / raise lies
    between the definition and its first use);
  * the receiver of ``.update({k: v})`` with a dict display is a dict; ``for k in d.keys()`` is
    ``for k in d``;
  * ``len(L) == 0`` is ``not L`` only for an expression that is syntactically a list (display,
    comprehension, ``list(...)`` / ``sorted(...)`` call, or a name whose single definition is one);
  * message texts of assertions, docstrings and annotations carry no behaviour of interest; the
    *names* an assertion message mentions are kept.
"""
from __future__ import annotations

import ast
import copy
import json
import os
from typing import Dict, List, Optional, Set, Tuple

HERE = os.path.dirname(os.path.abspath(__file__))
REF_SRC = os.path.join(HERE, "selftest", "reference_src.json")

MUTATORS = {
    "append", "extend", "insert", "remove", "pop", "clear", "sort", "reverse", "update", "setdefault", "popitem",
    "add", "discard", "group", "group_list", "sort_by", "replace_group_leader", "fillna", "replace", "rename",
    "drop", "drop_duplicates", "dropna", "sort_values", "reset_index", "set_index",
}
# methods above that are pure on pandas / numpy objects unless inplace=True: only a problem for
# *statement* calls; as part of an expression value they are treated as reads
PANDAS_PURE = {"fillna", "replace", "rename", "drop", "drop_duplicates", "dropna", "sort_values", "reset_index", "set_index"}
LIST_MAKERS = {"list", "sorted"}


# ---------------------------------------------------------------------------------------------
# helpers
# ---------------------------------------------------------------------------------------------
def _dump(n) -> str:
    return ast.dump(n, annotate_fields=False, include_attributes=False)


def _params(fn) -> List[str]:
    a = fn.args
    out = [x.arg for x in a.posonlyargs + a.args + a.kwonlyargs]
    if a.vararg:
        out.append(a.vararg.arg)
    if a.kwarg:
        out.append(a.kwarg.arg)
    return out


def _walk_no_nested(node):
    """Nodes of a function body, not descending into nested function / class definitions."""
    stack = list(ast.iter_child_nodes(node))
    while stack:
        n = stack.pop()
        yield n
        if isinstance(n, (ast.FunctionDef, ast.AsyncFunctionDef, ast.ClassDef, ast.Lambda)):
            continue
        stack.extend(ast.iter_child_nodes(n))


def _names_loaded(e) -> Set[str]:
    return {n.id for n in ast.walk(e) if isinstance(n, ast.Name)}


def _has_nested_scope(fn) -> bool:
    return any(isinstance(n, (ast.FunctionDef, ast.AsyncFunctionDef, ast.ClassDef, ast.Lambda)) for n in _walk_no_nested(fn))


def _blocks(node):
    """(owner, field, statement list) for every statement list under node (not nested scopes)."""
    out = []
    for n in [node] + list(_walk_no_nested(node)):
        for f in ("body", "orelse", "finalbody"):
            v = getattr(n, f, None)
            if isinstance(v, list) and v and isinstance(v[0], ast.stmt):
                out.append((n, f, v))
        if isinstance(n, ast.Try):
            for h in n.handlers:
                out.append((h, "body", h.body))
    return out


def _is_jump(st) -> bool:
    return isinstance(st, (ast.Return, ast.Continue, ast.Break, ast.Raise))


def _neg(e: ast.expr) -> ast.expr:
    if isinstance(e, ast.UnaryOp) and isinstance(e.op, ast.Not):
        return e.operand
    return ast.UnaryOp(op=ast.Not(), operand=e)


# ---------------------------------------------------------------------------------------------
# pass 0: strip what carries no behaviour
# ---------------------------------------------------------------------------------------------
class _Strip(ast.NodeTransformer):
    def visit_FunctionDef(self, n):
        self.generic_visit(n)
        n.returns = None
        for a in n.args.posonlyargs + n.args.args + n.args.kwonlyargs:
            a.annotation = None
        if n.args.vararg:
            n.args.vararg.annotation = None
        if n.args.kwarg:
            n.args.kwarg.annotation = None
        n.type_comment = None
        return n

    def visit_AnnAssign(self, n):
        self.generic_visit(n)
        if n.value is None:
            return None
        return ast.copy_location(ast.Assign(targets=[n.target], value=n.value), n)

    def visit_Expr(self, n):
        self.generic_visit(n)
        c = n.value
        if isinstance(c, ast.Call) and isinstance(c.func, ast.Name) and c.func.id in ("warn", "print"):
            # the wording of a warning / a verbose print is not behaviour of interest
            for x in ast.walk(c):
                if isinstance(x, ast.Constant) and isinstance(x.value, str):
                    x.value = ""
                if isinstance(x, ast.JoinedStr):
                    x.values = [v for v in x.values if not isinstance(v, ast.Constant) and not self._harmless_piece(v, n)]
        return n

    def _harmless_piece(self, v, stmt) -> bool:
        """`{self.attr}` / `{name}` without format spec in the text of a warning, when the function
        reads the same attribute / name elsewhere (so it exists): printing it cannot raise."""
        if not (isinstance(v, ast.FormattedValue) and v.format_spec is None and v.conversion == -1):
            return False
        e = v.value
        fn = getattr(self, "_fn", None)
        if fn is None:
            return False
        inside = {id(y) for y in ast.walk(stmt)}
        if isinstance(e, ast.Attribute) and isinstance(e.value, ast.Name) and e.value.id == "self":
            return any(isinstance(y, ast.Attribute) and y.attr == e.attr and isinstance(y.value, ast.Name) and y.value.id == "self" and isinstance(y.ctx, ast.Load) and id(y) not in inside for y in ast.walk(fn))
        return False

    def visit_Assert(self, n):
        self.generic_visit(n)
        if n.msg is not None and not getattr(n.msg, "_acsa_msg", False):
            # the wording of a message is not behaviour; the expressions it evaluates are (they can
            # raise, and they tell which feature is named): literal text is dropped, the evaluated
            # pieces are kept as a set
            pieces: List[ast.expr] = []

            def collect(e):
                if isinstance(e, ast.Constant):
                    return
                if isinstance(e, ast.JoinedStr):
                    for v in e.values:
                        collect(v)
                    return
                if isinstance(e, ast.FormattedValue):
                    collect(e.value)
                    return
                if isinstance(e, ast.BinOp) and isinstance(e.op, (ast.Add, ast.Mod)):
                    collect(e.left)
                    collect(e.right)
                    return
                if isinstance(e, ast.Tuple):
                    for v in e.elts:
                        collect(v)
                    return
                if isinstance(e, ast.Call) and isinstance(e.func, ast.Name) and e.func.id in ("str", "repr") and len(e.args) == 1 and not e.keywords:
                    collect(e.args[0])
                    return
                if isinstance(e, ast.Call) and isinstance(e.func, ast.Attribute) and e.func.attr == "format" and isinstance(e.func.value, ast.Constant):
                    for v in e.args:
                        collect(v)
                    for k in e.keywords:
                        collect(k.value)
                    return
                pieces.append(e)

            collect(n.msg)
            seen, elts = set(), []
            for x in pieces:
                d = _dump(x)
                if d not in seen:
                    seen.add(d)
                    elts.append(x)
            n.msg = ast.Tuple(elts=elts, ctx=ast.Load())
            n.msg._acsa_msg = True
        return n


def _strip_block(stmts: List[ast.stmt]) -> List[ast.stmt]:
    out = []
    for st in stmts:
        if isinstance(st, ast.Expr) and isinstance(st.value, ast.Constant) and isinstance(st.value.value, str):
            continue  # docstring / bare string
        if isinstance(st, ast.Pass):
            continue
        out.append(st)
    return out or [ast.Pass()]


def strip(fn):
    st_ = _Strip()
    st_._fn = fn
    fn = st_.visit(fn)
    for owner, f, stmts in _blocks(fn):
        setattr(owner, f, _strip_block(stmts))
    return fn


# ---------------------------------------------------------------------------------------------
# pass 1: inline helpers that do not exist in the reference tree
# ---------------------------------------------------------------------------------------------
class _Subst(ast.NodeTransformer):
    def __init__(self, mapping: Dict[str, ast.expr]):
        self.mapping = mapping

    def visit_Name(self, n):
        if n.id in self.mapping and isinstance(n.ctx, ast.Load):
            return copy.deepcopy(self.mapping[n.id])
        return n


class _RenameNames(ast.NodeTransformer):
    def __init__(self, mapping: Dict[str, str]):
        self.mapping = mapping

    def visit_Name(self, n):
        if n.id in self.mapping:
            n.id = self.mapping[n.id]
        return n

    def visit_arg(self, n):
        if n.arg in self.mapping:
            n.arg = self.mapping[n.arg]
        return n


def _bind_args(helper, call: ast.Call, is_method: bool) -> Optional[Dict[str, ast.expr]]:
    a = helper.args
    star = [k for k in call.keywords if k.arg is None]
    if a.vararg or any(isinstance(x, ast.Starred) for x in call.args):
        return None
    # helper(..., **kwargs) called with (..., **kwargs): the mapping is handed over as it is
    kw_bind = None
    if a.kwarg or star:
        if not (a.kwarg and len(star) == 1 and isinstance(star[0].value, ast.Name)):
            return None
        kw_bind = (a.kwarg.arg, star[0].value)
    call = ast.Call(func=call.func, args=call.args, keywords=[k for k in call.keywords if k.arg is not None])
    pos = [x.arg for x in a.posonlyargs + a.args]
    if is_method:
        if not pos:
            return None
        pos = pos[1:]
    if len(call.args) > len(pos):
        return None
    bound: Dict[str, ast.expr] = {}
    for p, v in zip(pos, call.args):
        bound[p] = v
    allowed = set(pos) | {x.arg for x in a.kwonlyargs}
    for k in call.keywords:
        if k.arg not in allowed or k.arg in bound:
            return None
        bound[k.arg] = k.value
    # defaults
    pos_all = a.posonlyargs + a.args
    dfl = dict(zip([x.arg for x in pos_all][len(pos_all) - len(a.defaults):], a.defaults))
    for x, d in zip(a.kwonlyargs, a.kw_defaults):
        if d is not None:
            dfl[x.arg] = d
    for p in allowed:
        if p not in bound:
            if p not in dfl:
                return None
            bound[p] = dfl[p]
    if kw_bind is not None:
        bound[kw_bind[0]] = kw_bind[1]
    return bound


def _tail_returns(stmts: List[ast.stmt], make) -> Optional[List[ast.stmt]]:
    """Replaces returns in tail position by make(value); None if a return is elsewhere."""
    if not stmts:
        return make(None)
    head, last = stmts[:-1], stmts[-1]
    for st in head:
        for n in [st] + list(_walk_no_nested(st)):
            if isinstance(n, (ast.Return, ast.Yield, ast.YieldFrom)):
                return None
    if isinstance(last, ast.Return):
        return head + make(last.value)
    if isinstance(last, ast.If):
        b = _tail_returns(last.body, make)
        o = _tail_returns(last.orelse, make)
        if b is None or o is None:
            return None
        return head + [ast.If(test=last.test, body=b, orelse=o)]
    if isinstance(last, ast.With) and last.body and any(isinstance(n, ast.Return) for n in ast.walk(last)):
        # `with cm: ... return e`: the value is computed inside the block, the block is left, the
        # value is returned: the same as binding it inside and going on after the block
        b = _tail_returns(last.body, make)
        if b is None:
            return None
        return head + [ast.With(items=last.items, body=b)]
    for n in [last] + list(_walk_no_nested(last)):
        if isinstance(n, (ast.Return, ast.Yield, ast.YieldFrom)):
            return None
    return stmts + make(None)


class HelperTable:
    """New helpers (absent from the reference tree) that may be inlined: module-level functions and
    methods of the same class, also through a class-level alias (``__h = _h``)."""

    def __init__(self, module_funcs: Dict[str, ast.FunctionDef], class_funcs: Dict[str, ast.FunctionDef], aliases: Dict[str, str], cls: Optional[str]):
        self.module_funcs = module_funcs
        self.class_funcs = class_funcs
        self.aliases = aliases
        self.cls = cls
        self.used: Set[str] = set()

    def lookup(self, call: ast.Call):
        f = call.func
        if isinstance(f, ast.Name) and f.id in self.module_funcs:
            return f.id, self.module_funcs[f.id], False
        if isinstance(f, ast.Attribute) and isinstance(f.value, ast.Name) and f.value.id == "self":
            name = f.attr
            if self.cls and name.startswith(f"_{self.cls}__"):
                name = name[len(self.cls) + 1:]
            name = self.aliases.get(name, name)
            if name in self.class_funcs:
                return name, self.class_funcs[name], True
        return None


_counter = [0]


def _fresh_suffix() -> str:
    _counter[0] += 1
    return f"__h{_counter[0]}"


def _helper_body(helper, bound: Dict[str, ast.expr]):
    """Deep copy of the helper's body with parameters substituted and locals made unique."""
    h = strip(copy.deepcopy(helper))
    params = set(_params(h))
    stored = {n.id for n in ast.walk(h) if isinstance(n, ast.Name) and isinstance(n.ctx, ast.Store)}
    suffix = _fresh_suffix()
    # parameters that are re-assigned in the helper, or bound to a non-trivial expression used more
    # than once, become locals initialised with the argument
    pre: List[ast.stmt] = []
    mapping: Dict[str, ast.expr] = {}
    uses = {}
    for n in ast.walk(h):
        if isinstance(n, ast.Name) and isinstance(n.ctx, ast.Load):
            uses[n.id] = uses.get(n.id, 0) + 1
    for p, v in bound.items():
        trivial = isinstance(v, (ast.Name, ast.Constant)) or (isinstance(v, ast.Attribute) and isinstance(v.value, ast.Name))
        if p in stored or (not trivial and uses.get(p, 0) > 1):
            new = p + suffix
            pre.append(ast.Assign(targets=[ast.Name(id=new, ctx=ast.Store())], value=copy.deepcopy(v)))
            mapping[p] = ast.Name(id=new, ctx=ast.Load())
        else:
            mapping[p] = v
    ren = {s: s + suffix for s in stored if s not in params}
    for p in params:
        if p in stored:
            ren[p] = p + suffix
    body = h.body
    mod = ast.Module(body=body, type_ignores=[])
    _RenameNames(ren).visit(mod)
    _Subst({k: v for k, v in mapping.items() if k not in ren}).visit(mod)
    return pre, mod.body


def _hoist_helper_calls(fn, table: HelperTable):
    """`stmt(... helper(args) ...)`  ->  `_hc = helper(args) ; stmt(... _hc ...)` for a helper with
    several statements, when everything evaluated before the call in that statement is a plain name /
    attribute / constant (so moving the call first changes nothing)."""
    for owner, f, stmts in _blocks(fn):
        new: List[ast.stmt] = []
        for st in stmts:
            if isinstance(st, ast.For) and isinstance(st.iter, ast.Call) and table.lookup(st.iter):
                name, helper, is_m = table.lookup(st.iter)
                hb = _strip_block(strip(copy.deepcopy(helper)).body)
                if not (len(hb) == 1 and isinstance(hb[0], ast.Return)):
                    tmp = "_hc" + _fresh_suffix()
                    new.append(ast.Assign(targets=[ast.Name(id=tmp, ctx=ast.Store())], value=st.iter))
                    st.iter = ast.Name(id=tmp, ctx=ast.Load())
            if isinstance(st, (ast.Expr, ast.Assign, ast.Return, ast.AugAssign)) and not (
                isinstance(getattr(st, "value", None), ast.Call) and table.lookup(st.value)
            ):
                calls_ = [n for n in ast.walk(st) if isinstance(n, ast.Call) and table.lookup(n)]
                cand = None
                for c in calls_:
                    name, helper, is_m = table.lookup(c)
                    hb = _strip_block(strip(copy.deepcopy(helper)).body)
                    if len(hb) == 1 and isinstance(hb[0], ast.Return):
                        continue  # expression helper: substituted in place
                    # not inside a comprehension / lambda / conditional part (evaluated zero or many times)
                    inside = False
                    for n in ast.walk(st):
                        if isinstance(n, (ast.ListComp, ast.SetComp, ast.DictComp, ast.GeneratorExp, ast.Lambda, ast.IfExp, ast.BoolOp)) and any(x is c for x in ast.walk(n)):
                            inside = True
                    if inside:
                        continue
                    others = [n for n in ast.walk(st) if isinstance(n, ast.Call) and n is not c and not any(x is c for x in ast.walk(n))]
                    if others:
                        continue
                    cand = c
                    break
                if cand is not None:
                    tmp = "_hc" + _fresh_suffix()
                    new.append(ast.Assign(targets=[ast.Name(id=tmp, ctx=ast.Store())], value=cand))
                    _replace_node(st, cand, ast.Name(id=tmp, ctx=ast.Load()))
            new.append(st)
        setattr(owner, f, new)
    ast.fix_missing_locations(fn)
    return fn


def inline_helpers(fn, table: HelperTable, depth: int = 0):
    if depth > 3:
        return fn
    fn = _hoist_helper_calls(fn, table)
    changed = False
    # expression helpers: body is a single return
    class _Expr(ast.NodeTransformer):
        def visit_Call(self, n):
            self.generic_visit(n)
            hit = table.lookup(n)
            if not hit:
                return n
            name, helper, is_m = hit
            body = _strip_block(strip(copy.deepcopy(helper)).body)
            if len(body) == 1 and isinstance(body[0], ast.Return) and body[0].value is not None:
                bound = _bind_args(helper, n, is_m)
                if bound is None:
                    return n
                table.used.add(name)
                nonlocal changed
                changed = True
                return _Subst(bound).visit(copy.deepcopy(body[0].value))
            return n

    for owner, f, stmts in _blocks(fn):
        new: List[ast.stmt] = []
        for st in stmts:
            call = None
            kind = None
            if isinstance(st, ast.Expr) and isinstance(st.value, ast.Call):
                call, kind = st.value, "expr"
            elif isinstance(st, ast.Assign) and isinstance(st.value, ast.Call):
                call, kind = st.value, "assign"
            elif isinstance(st, ast.Return) and isinstance(st.value, ast.Call):
                call, kind = st.value, "return"
            hit = table.lookup(call) if call is not None else None
            if hit:
                name, helper, is_m = hit
                bound = _bind_args(helper, call, is_m)
                hb = _strip_block(strip(copy.deepcopy(helper)).body)
                single_ret = len(hb) == 1 and isinstance(hb[0], ast.Return)
                if bound is not None and not single_ret and not any(isinstance(x, (ast.Yield, ast.YieldFrom)) for x in ast.walk(helper)):
                    pre, body = _helper_body(helper, bound)
                    body = nest_guards_block(body)
                    if kind == "return":
                        make = lambda v: [ast.Return(value=v)]  # noqa: E731
                    elif kind == "assign":
                        tg = st.targets
                        make = lambda v, tg=tg: [ast.Assign(targets=copy.deepcopy(tg), value=v if v is not None else ast.Constant(value=None))]  # noqa: E731
                    else:
                        make = lambda v: ([ast.Expr(value=v)] if (v is not None and not isinstance(v, (ast.Name, ast.Constant))) else [])  # noqa: E731
                    res = _tail_returns(body, make)
                    if res is not None:
                        table.used.add(name)
                        changed = True
                        new.extend(pre + res)
                        continue
            new.append(st)
        setattr(owner, f, new or [ast.Pass()])
    fn = _Expr().visit(fn)
    ast.fix_missing_locations(fn)
    if changed:
        return inline_helpers(fn, table, depth + 1)
    return fn


# ---------------------------------------------------------------------------------------------
# pass 2: control-flow normal form
# ---------------------------------------------------------------------------------------------
def nest_guards_block(stmts: List[ast.stmt]) -> List[ast.stmt]:
    """`if c: ...jump` followed by rest  ->  `if c: ...jump else: rest` (always sound)."""
    out: List[ast.stmt] = []
    for i, st in enumerate(stmts):
        if isinstance(st, ast.If) and not st.orelse and st.body and _is_jump(st.body[-1]) and i + 1 < len(stmts):
            rest = nest_guards_block(stmts[i + 1:])
            out.append(ast.If(test=st.test, body=st.body, orelse=rest))
            return out
        out.append(st)
    return out


def _drop_tail_jumps(stmts: List[ast.stmt], tail: Optional[str]) -> List[ast.stmt]:
    """In tail position of a function (tail='return') a bare `return` / `return None` is a no-op;
    in tail position of a loop body (tail='continue') so is `continue`."""
    if not stmts or tail is None:
        return stmts
    last = stmts[-1]
    if tail == "return" and isinstance(last, ast.Return) and (last.value is None or (isinstance(last.value, ast.Constant) and last.value.value is None)):
        return stmts[:-1]
    if tail == "continue" and isinstance(last, ast.Continue):
        return stmts[:-1]
    if isinstance(last, ast.If):
        last.body = _drop_tail_jumps(last.body, tail)
        last.orelse = _drop_tail_jumps(last.orelse, tail)
        return stmts[:-1] + _norm_if(last)
    return stmts


def _neg_cost(e: ast.expr) -> int:
    if isinstance(e, ast.UnaryOp) and isinstance(e.op, ast.Not):
        return 1 + _neg_cost(e.operand)
    if isinstance(e, ast.BoolOp):
        return sum(_neg_cost(v) for v in e.values)
    if isinstance(e, ast.Compare) and len(e.ops) == 1 and isinstance(e.ops[0], (ast.NotEq, ast.NotIn, ast.IsNot)):
        return 1
    return 0


def _int_typed(e) -> bool:
    """Syntactically an integer: int constants, len(...), x.shape[k], sums / differences / products of those."""
    if isinstance(e, ast.Constant):
        return type(e.value) is int
    if isinstance(e, ast.Call) and isinstance(e.func, ast.Name) and e.func.id == "len":
        return True
    if isinstance(e, ast.Subscript) and isinstance(e.value, ast.Attribute) and e.value.attr == "shape":
        return True
    if isinstance(e, ast.BinOp) and isinstance(e.op, (ast.Add, ast.Sub, ast.Mult)):
        return _int_typed(e.left) and _int_typed(e.right)
    return False


def _push_not(e: ast.expr) -> ast.expr:
    """Negation of a test, pushed inwards (De Morgan; == / in / is flipped; ordering comparisons are
    NOT flipped: `not a < b` is not `a >= b` for NaN)."""
    if isinstance(e, ast.UnaryOp) and isinstance(e.op, ast.Not):
        return e.operand
    if isinstance(e, ast.BoolOp):
        op = ast.Or() if isinstance(e.op, ast.And) else ast.And()
        return ast.BoolOp(op=op, values=[_push_not(v) for v in e.values])
    if isinstance(e, ast.Compare) and len(e.ops) == 1:
        swap = {ast.Eq: ast.NotEq, ast.NotEq: ast.Eq, ast.In: ast.NotIn, ast.NotIn: ast.In, ast.Is: ast.IsNot, ast.IsNot: ast.Is}
        t = type(e.ops[0])
        if t in swap:
            return ast.Compare(left=e.left, ops=[swap[t]()], comparators=e.comparators)
        order_neg = {ast.Lt: ast.GtE, ast.LtE: ast.Gt, ast.Gt: ast.LtE, ast.GtE: ast.Lt}
        if t in order_neg and _int_typed(e.left) and _int_typed(e.comparators[0]):
            # integers are totally ordered: not a <= b  ==  a > b
            return ast.Compare(left=e.left, ops=[order_neg[t]()], comparators=e.comparators)
    if (isinstance(e, ast.Call) and isinstance(e.func, ast.Name) and e.func.id in ("all", "any") and len(e.args) == 1 and not e.keywords
            and isinstance(e.args[0], (ast.GeneratorExp, ast.ListComp))):
        # not all(P for ..) == any(not P for ..)
        g = e.args[0]
        inner = type(g)(elt=_push_not(g.elt), generators=g.generators)
        return ast.Call(func=ast.Name(id="any" if e.func.id == "all" else "all", ctx=ast.Load()), args=[inner], keywords=[])
    return ast.UnaryOp(op=ast.Not(), operand=e)


def _ends_with_jump(stmts: List[ast.stmt]) -> bool:
    if not stmts:
        return False
    last = stmts[-1]
    if _is_jump(last):
        return True
    if isinstance(last, ast.If) and last.orelse:
        return _ends_with_jump(last.body) and _ends_with_jump(last.orelse)
    return False


def _assigns_name(stmts: List[ast.stmt], name: str) -> bool:
    """Is the name re-bound by a plain assignment somewhere in the statements?"""
    for st in stmts:
        for n in [st] + list(_walk_no_nested(st)):
            if isinstance(n, ast.Assign):
                for t in n.targets:
                    for x in ast.walk(t):
                        if isinstance(x, ast.Name) and x.id == name and isinstance(x.ctx, ast.Store):
                            return True
    return False


def _reads_name(node, name: str) -> bool:
    nodes = node if isinstance(node, list) else [node]
    for st in nodes:
        for n in [st] + list(_walk_no_nested(st)):
            if isinstance(n, ast.Name) and n.id == name and isinstance(n.ctx, ast.Load):
                return True
    return False


def merge_param_alias(fn):
    """v = p  (p a parameter that is never assigned and never read again)  ->  v is p: the local takes
    over the parameter's name.  (An extracted helper that re-assigns its parameter leaves such a copy
    behind when it is inlined back.)"""
    params = set(_params(fn))
    for i, st in enumerate(fn.body):
        if not (isinstance(st, ast.Assign) and len(st.targets) == 1 and isinstance(st.targets[0], ast.Name) and isinstance(st.value, ast.Name)):
            continue
        v, p = st.targets[0].id, st.value.id
        if p not in params or v in params or v == p:
            continue
        names = [n for n in ast.walk(fn) if isinstance(n, ast.Name)]
        if any(n.id == p and isinstance(n.ctx, (ast.Store, ast.Del)) for n in names):
            continue
        later_p = [n for s2 in fn.body[i + 1:] for n in ast.walk(s2) if isinstance(n, ast.Name) and n.id == p]
        earlier_v = [n for s2 in fn.body[:i] for n in ast.walk(s2) if isinstance(n, ast.Name) and n.id == v]
        if later_p or earlier_v:
            continue
        if any(isinstance(n, (ast.Lambda, ast.FunctionDef)) for s2 in fn.body for n in ast.walk(s2) if n is not fn):
            continue
        for n in names:
            if n.id == v:
                n.id = p
        del fn.body[i]
        if not fn.body:
            fn.body.append(ast.Pass())
        return merge_param_alias(fn)
    return fn


def coalesce_dead_copies(fn):
    """b = a  at the top level of the function, where a is never mentioned again and b never before:
    b is a new name for the same variable (a helper parameter re-bound in the helper's loop)."""
    for i, st in enumerate(fn.body):
        if not (isinstance(st, ast.Assign) and len(st.targets) == 1 and isinstance(st.targets[0], ast.Name) and isinstance(st.value, ast.Name)):
            continue
        b, a = st.targets[0].id, st.value.id
        if a == b or a == "self" or _has_nested_scope(fn):
            continue
        before = [x for s_ in fn.body[:i] for x in ast.walk(s_) if isinstance(x, ast.Name)]
        after = [x for s_ in fn.body[i + 1:] for x in ast.walk(s_) if isinstance(x, ast.Name)]
        if any(x.id == b for x in before) or any(x.id == a for x in after) or b in _params(fn):
            continue
        for x in after:
            if x.id == b:
                x.id = a
        del fn.body[i]
        if not fn.body:
            fn.body.append(ast.Pass())
        return coalesce_dead_copies(fn)
    return fn


def fuse_chains(fn):
    """x = E1 ; x = E2(x)   ->   x = E2(E1)   when E1 is pure and x occurs once in E2 (a call chain
    split over two statements, or the reverse)."""
    for owner, f, stmts in _blocks(fn):
        i = 0
        while i + 1 < len(stmts):
            a, b = stmts[i], stmts[i + 1]
            if (isinstance(a, ast.Assign) and isinstance(b, ast.Assign) and len(a.targets) == 1 and len(b.targets) == 1
                    and isinstance(a.targets[0], ast.Name) and isinstance(b.targets[0], ast.Name) and a.targets[0].id == b.targets[0].id
                    and not _impure(a.value)):
                x = a.targets[0].id
                uses = [n for n in ast.walk(b.value) if isinstance(n, ast.Name) and n.id == x and isinstance(n.ctx, ast.Load)]
                inside_scope = any(isinstance(n, (ast.ListComp, ast.SetComp, ast.DictComp, ast.GeneratorExp, ast.Lambda)) and any(u is z for z in ast.walk(n)) for n in ast.walk(b.value) for u in uses)
                if len(uses) == 1 and not inside_scope:
                    _replace_node(b, uses[0], a.value)
                    del stmts[i]
                    continue
            i += 1
    ast.fix_missing_locations(fn)
    return fn


def drop_unused(fn):
    """`x = pure` where the local x is never read."""
    params = set(_params(fn))
    for _ in range(4):
        loaded = {n.id for n in ast.walk(fn) if isinstance(n, ast.Name) and isinstance(n.ctx, (ast.Load, ast.Del))}
        aug = {n.target.id for n in ast.walk(fn) if isinstance(n, ast.AugAssign) and isinstance(n.target, ast.Name)}
        glob: Set[str] = set()
        for n in ast.walk(fn):
            if isinstance(n, (ast.Global, ast.Nonlocal)):
                glob |= set(n.names)
        changed = False
        for owner, f, stmts in _blocks(fn):
            kept = []
            for st in stmts:
                if isinstance(st, ast.Assign) and not _impure(st.value):
                    names = [x for t in st.targets for x in ast.walk(t)]
                    if all(isinstance(x, (ast.Name, ast.Tuple, ast.expr_context)) for x in names):
                        ids = [x.id for x in names if isinstance(x, ast.Name)]
                        if ids and all(i not in loaded and i not in aug and i not in glob and i not in params for i in ids):
                            changed = True
                            continue
                kept.append(st)
            setattr(owner, f, kept or ([ast.Pass()] if f == "body" else []))
        if not changed:
            break
    return fn


def _dead_store_elim(stmts: List[ast.stmt]) -> List[ast.stmt]:
    """`x = pure` immediately overwritten (next statement mentioning x is a plain `x = ...` at the same
    level that does not read x) is dropped."""
    out = list(stmts)
    i = 0
    while i < len(out):
        st = out[i]
        if isinstance(st, ast.Assign) and len(st.targets) == 1 and isinstance(st.targets[0], ast.Name) and not _impure(st.value):
            x = st.targets[0].id
            for nxt in out[i + 1:]:
                mentions = any(isinstance(n, ast.Name) and n.id == x for n in [nxt] + list(_walk_no_nested(nxt)))
                if not mentions:
                    continue
                if isinstance(nxt, ast.Assign) and len(nxt.targets) == 1 and isinstance(nxt.targets[0], ast.Name) and nxt.targets[0].id == x and not _reads_name(nxt.value, x):
                    out.pop(i)
                    i -= 1
                break
        i += 1
    return out


def _norm_if(st: ast.If) -> List[ast.stmt]:
    body = [s for s in st.body if not isinstance(s, ast.Pass)]
    orelse = [s for s in st.orelse if not isinstance(s, ast.Pass)]
    test = st.test
    if not body and not orelse:
        return [ast.Expr(value=test)] if any(isinstance(x, ast.Call) for x in ast.walk(test)) else []
    if not body:
        body, orelse, test = orelse, [], _push_not(test)
    elif orelse:
        neg = _push_not(test)
        if (_neg_cost(neg), _masked_dump(neg)) < (_neg_cost(test), _masked_dump(test)):
            body, orelse, test = orelse, body, neg
    # if A: (if B: S)  ->  if A and B: S
    if not orelse and len(body) == 1 and isinstance(body[0], ast.If) and not body[0].orelse:
        inner = body[0]
        test = ast.BoolOp(op=ast.And(), values=[test, inner.test])
        body = inner.body
    return [ast.If(test=test, body=body, orelse=orelse)]


def _norm_block(stmts: List[ast.stmt], tail: Optional[str]) -> List[ast.stmt]:
    stmts = [s for s in stmts if not isinstance(s, ast.Pass)]
    for _ in range(8):
        before = [_dump(s) for s in stmts]
        # guards
        stmts = nest_guards_block(stmts)
        # sink a trailing `return <simple>` into a preceding if
        if len(stmts) >= 2 and isinstance(stmts[-1], ast.Return) and isinstance(stmts[-2], ast.If) and (stmts[-1].value is None or isinstance(stmts[-1].value, (ast.Name, ast.Constant))):
            ret, iff = stmts[-1], stmts[-2]
            if not _ends_with_jump(iff.body):
                iff.body = iff.body + [copy.deepcopy(ret)]
            if not _ends_with_jump(iff.orelse):
                iff.orelse = iff.orelse + [copy.deepcopy(ret)]
            stmts = stmts[:-1]
        new: List[ast.stmt] = []
        n = len(stmts)
        for i, st in enumerate(stmts):
            last = i == n - 1
            # x = e0 ; (statements that do not touch x or what e0 reads) ; if c: ...assigns x...
            #   ->   the default moves into the branches
            if isinstance(st, ast.If) and new and not _impure(st.test):
                j = len(new) - 1
                while j >= 0:
                    cand = new[j]
                    if (
                        isinstance(cand, ast.Assign) and len(cand.targets) == 1 and isinstance(cand.targets[0], ast.Name) and not _impure(cand.value)
                        and not _reads_name(st.test, cand.targets[0].id)
                        and (_assigns_name(st.body, cand.targets[0].id) or _assigns_name(st.orelse, cand.targets[0].id))
                        and not (set(_names_loaded(cand.value)) & _stored_names(st.test))
                    ):
                        x = cand.targets[0].id
                        between = new[j + 1:]
                        ok = True
                        for mid in between:
                            ef = _effects(mid)
                            if ef.jump or ef.opaque or x in ef.reads or x in ef.writes or (ef.writes & _names_loaded(cand.value)) or (ef.attr_writes and any(isinstance(z, ast.Attribute) for z in ast.walk(cand.value))):
                                ok = False
                                break
                        if ok:
                            prev = new.pop(j)
                            st = ast.If(test=st.test, body=[copy.deepcopy(prev)] + st.body, orelse=[copy.deepcopy(prev)] + st.orelse)
                            j = len(new) - 1
                            continue
                    j -= 1
            if isinstance(st, ast.Assign) and isinstance(st.value, ast.IfExp):
                v = st.value
                st = ast.If(test=v.test, body=[ast.Assign(targets=copy.deepcopy(st.targets), value=v.body)], orelse=[ast.Assign(targets=copy.deepcopy(st.targets), value=v.orelse)])
            elif isinstance(st, ast.Return) and isinstance(st.value, ast.IfExp):
                v = st.value
                st = ast.If(test=v.test, body=[ast.Return(value=v.body)], orelse=[ast.Return(value=v.orelse)])
            if isinstance(st, ast.If):
                st.body = _norm_block(st.body, tail if last else None)
                st.orelse = _norm_block(st.orelse, tail if last else None)
                new.extend(_norm_if(st))
            elif isinstance(st, (ast.For, ast.While)):
                st.body = _norm_block(st.body, "continue") or [ast.Pass()]
                st.orelse = _norm_block(st.orelse, None)
                new.append(st)
            elif isinstance(st, ast.With):
                st.body = _norm_block(st.body, None) or [ast.Pass()]
                new.append(st)
            elif isinstance(st, ast.Try):
                st.body = _norm_block(st.body, None) or [ast.Pass()]
                for h in st.handlers:
                    h.body = _norm_block(h.body, None) or [ast.Pass()]
                st.orelse = _norm_block(st.orelse, None)
                st.finalbody = _norm_block(st.finalbody, None)
                new.append(st)
            else:
                new.append(st)
        stmts = _dead_store_elim(new)
        stmts = _drop_tail_jumps(stmts, tail)
        stmts = [s for s in stmts if not isinstance(s, ast.Pass)]
        if [_dump(s) for s in stmts] == before:
            break
    return stmts


def _stored_names(e) -> Set[str]:
    return {n.id for n in ast.walk(e) if isinstance(n, ast.Name) and isinstance(n.ctx, ast.Store)}


def _arith_only(e, allowed_calls=("len",)) -> bool:
    """Names, constants, + - *, and len() of a name: evaluating it twice gives the same outcome."""
    if isinstance(e, (ast.Name, ast.Constant)):
        return True
    if isinstance(e, ast.BinOp) and isinstance(e.op, (ast.Add, ast.Sub, ast.Mult)):
        return _arith_only(e.left) and _arith_only(e.right)
    if isinstance(e, ast.Call) and isinstance(e.func, ast.Name) and e.func.id in allowed_calls and len(e.args) == 1 and not e.keywords and isinstance(e.args[0], ast.Name):
        return True
    return False


def _monotone_breaks(fn):
    """``for v in range(a, b): prefix; if not E(v) < K: break; rest``  ->  ``... continue ...``
    when E is non-decreasing in v (v, v + c, c + v, or a prefix local bound to one of these), K and c
    do not change in the loop, the prefix is arithmetic on locals, the loop has no else clause and
    neither v nor the prefix locals are read outside the loop: once the test holds it holds for every
    later v, so that leaving the loop and skipping the remaining iterations are the same."""
    loops = [n for n in _walk_no_nested(fn) if isinstance(n, ast.For)]
    for loop in loops:
        if loop.orelse or not isinstance(loop.target, ast.Name):
            continue
        it = loop.iter
        if not (isinstance(it, ast.Call) and isinstance(it.func, ast.Name) and it.func.id == "range" and not it.keywords and 1 <= len(it.args) <= 3):
            continue
        if len(it.args) == 3 and not (isinstance(it.args[2], ast.Constant) and type(it.args[2].value) is int and it.args[2].value > 0):
            continue
        v = loop.target.id
        ef = _effects(ast.Module(body=loop.body, type_ignores=[]))
        written = set(ef.writes) | {v}
        if _yield_is_barrier(fn) and any(isinstance(x, (ast.Yield, ast.YieldFrom)) for s2 in loop.body for x in ast.walk(s2)):
            continue
        for pos, st in enumerate(loop.body):
            if not (isinstance(st, ast.If) and not st.orelse and len(st.body) == 1 and isinstance(st.body[0], ast.Break)):
                continue
            prefix = loop.body[:pos]
            if not all(isinstance(p, ast.Assign) and len(p.targets) == 1 and isinstance(p.targets[0], ast.Name) and _arith_only(p.value, ()) for p in prefix):
                continue
            pre_names = [p.targets[0].id for p in prefix]
            if len(set(pre_names)) != len(pre_names) or v in pre_names:
                continue
            # the prefix locals and v are written nowhere else in the loop and read nowhere outside it
            stores = [x.id for s in loop.body for x in ast.walk(s) if isinstance(x, ast.Name) and isinstance(x.ctx, (ast.Store, ast.Del))]
            if any(stores.count(nm) != 1 for nm in pre_names) or v in stores:
                continue
            inside = {id(x) for s in loop.body for x in ast.walk(s)}
            if any(isinstance(x, ast.Name) and x.id in set(pre_names) | {v} and id(x) not in inside and x is not loop.target for x in ast.walk(fn)):
                continue
            invariant = lambda e: _arith_only(e) and not (_names_loaded(e) & written) and not ef.opaque  # noqa: E731

            def increasing(e, depth=0) -> bool:
                if isinstance(e, ast.Name):
                    if e.id == v:
                        return True
                    if e.id in pre_names and depth < 4:
                        return increasing(prefix[pre_names.index(e.id)].value, depth + 1)
                    return False
                if isinstance(e, ast.BinOp) and isinstance(e.op, ast.Add):
                    return (increasing(e.left, depth) and invariant(e.right)) or (invariant(e.left) and increasing(e.right, depth))
                return False

            t, positive = st.test, True
            while isinstance(t, ast.UnaryOp) and isinstance(t.op, ast.Not):
                t, positive = t.operand, not positive
            if not (isinstance(t, ast.Compare) and len(t.ops) == 1):
                continue
            left, op, right = t.left, t.ops[0], t.comparators[0]
            big_left = isinstance(op, (ast.Gt, ast.GtE)) if positive else isinstance(op, (ast.Lt, ast.LtE))
            big_right = isinstance(op, (ast.Lt, ast.LtE)) if positive else isinstance(op, (ast.Gt, ast.GtE))
            if (big_left and increasing(left) and invariant(right)) or (big_right and increasing(right) and invariant(left)):
                st.body = [ast.Continue()]
    ast.fix_missing_locations(fn)
    return fn


def prune_none_tests(fn):
    """`if x is None: A else: B`  ->  B  when an earlier statement that always ran (same block or an
    enclosing one, x not re-bound since) evaluates `x.<attr>`: it would have raised on None."""
    def derefs(node) -> Set[str]:
        out = set()
        for n in [node] + list(_walk_no_nested(node)):
            if isinstance(n, ast.Attribute) and isinstance(n.value, ast.Name) and isinstance(n.ctx, ast.Load) and not n.attr.startswith("__"):
                out.add(n.value.id)  # (None has dunder attributes only)
        return out

    def uncond_derefs(st) -> Set[str]:
        # dereferences that happen whenever the statement completes: not those under its own branches
        if isinstance(st, (ast.If, ast.While)):
            return derefs(st.test) if not isinstance(st.test, ast.BoolOp) else set()
        if isinstance(st, ast.For):
            return derefs(st.iter)
        if isinstance(st, (ast.With, ast.Try, ast.FunctionDef, ast.ClassDef)):
            return set()
        if any(isinstance(n, (ast.IfExp, ast.BoolOp, ast.Lambda, ast.ListComp, ast.SetComp, ast.DictComp, ast.GeneratorExp)) for n in ast.walk(st)):
            return set()
        return derefs(st)

    def stores(node) -> Set[str]:
        return {n.id for n in ast.walk(node) if isinstance(n, ast.Name) and isinstance(n.ctx, (ast.Store, ast.Del))}

    def block(stmts, known: Set[str]):
        known = set(known)
        out = []
        for st in stmts:
            if isinstance(st, ast.If):
                t, pos = st.test, True
                while isinstance(t, ast.UnaryOp) and isinstance(t.op, ast.Not):
                    t, pos = t.operand, not pos
                if (isinstance(t, ast.Compare) and len(t.ops) == 1 and isinstance(t.ops[0], (ast.Is, ast.IsNot)) and isinstance(t.left, ast.Name) and t.left.id in known
                        and isinstance(t.comparators[0], ast.Constant) and t.comparators[0].value is None):
                    is_none_branch = isinstance(t.ops[0], ast.Is) == pos
                    chosen = st.orelse if is_none_branch else st.body
                    sub = block(chosen, known)
                    out.extend(sub)
                    known -= stores(st)
                    continue
                st.body = block(st.body, known) or [ast.Pass()]
                st.orelse = block(st.orelse, known)
            elif isinstance(st, (ast.For, ast.While)):
                inner = known - stores(st)
                st.body = block(st.body, inner) or [ast.Pass()]
                st.orelse = block(st.orelse, inner)
            elif isinstance(st, ast.With):
                st.body = block(st.body, known - stores(st)) or [ast.Pass()]
            known -= stores(st)
            known |= uncond_derefs(st) - stores(st)
            out.append(st)
        return out

    fn.body = block(fn.body, set()) or [ast.Pass()]
    ast.fix_missing_locations(fn)
    return fn


def control_flow(fn):
    fn = _monotone_breaks(fn)
    fn = prune_none_tests(fn)
    fn.body = _norm_block(fn.body, "return") or [ast.Pass()]
    ast.fix_missing_locations(fn)
    return fn


# ---------------------------------------------------------------------------------------------
# pass 3: accumulation loops -> comprehensions
# ---------------------------------------------------------------------------------------------
def _loop_to_generators(loop: ast.For, acc: str):
    """[(target, iter, [ifs])...], element  for a loop whose only effect is acc.append(e) /
    acc[k] = v; None otherwise."""
    gens = []
    cur: ast.stmt = loop
    while True:
        if isinstance(cur, ast.For):
            if cur.orelse:
                return None
            gens.append([cur.target, cur.iter, []])
            body = [s for s in cur.body if not isinstance(s, ast.Pass)]
        elif isinstance(cur, ast.If):
            if cur.orelse or not gens:
                return None
            gens[-1][2].append(cur.test)
            body = [s for s in cur.body if not isinstance(s, ast.Pass)]
        else:
            break
        if len(body) != 1:
            return None
        cur = body[0]
    # cur is the accumulating statement
    elt = None
    if isinstance(cur, ast.Expr) and isinstance(cur.value, ast.Call) and isinstance(cur.value.func, ast.Attribute) and isinstance(cur.value.func.value, ast.Name) and cur.value.func.value.id == acc:
        c = cur.value
        if c.func.attr == "append" and len(c.args) == 1 and not c.keywords:
            elt = ("list", c.args[0])
        elif c.func.attr == "extend" and len(c.args) == 1 and not c.keywords and not isinstance(c.args[0], (ast.List, ast.Tuple)):
            gens.append([ast.Name(id="_e_", ctx=ast.Store()), c.args[0], []])
            elt = ("list", ast.Name(id="_e_", ctx=ast.Load()))
        elif c.func.attr == "update" and len(c.args) == 1 and isinstance(c.args[0], ast.Dict) and len(c.args[0].keys) == 1 and c.args[0].keys[0] is not None:
            elt = ("dict", c.args[0].keys[0], c.args[0].values[0])
    elif isinstance(cur, ast.AugAssign) and isinstance(cur.op, ast.Add) and isinstance(cur.target, ast.Name) and cur.target.id == acc and isinstance(cur.value, ast.List) and len(cur.value.elts) == 1:
        elt = ("list", cur.value.elts[0])
    elif isinstance(cur, ast.AugAssign) and isinstance(cur.op, ast.Add) and isinstance(cur.target, ast.Name) and cur.target.id == acc and not isinstance(cur.value, (ast.List, ast.Tuple)):
        gens.append([ast.Name(id="_e_", ctx=ast.Store()), cur.value, []])
        elt = ("list", ast.Name(id="_e_", ctx=ast.Load()))
    elif isinstance(cur, ast.Assign) and len(cur.targets) == 1 and isinstance(cur.targets[0], ast.Subscript) and isinstance(cur.targets[0].value, ast.Name) and cur.targets[0].value.id == acc:
        elt = ("dict", cur.targets[0].slice, cur.value)
    if elt is None:
        return None
    # the accumulator is not read inside the loop
    for g in gens:
        if acc in _names_loaded(g[1]) or any(acc in _names_loaded(t) for t in g[2]):
            return None
    for part in elt[1:]:
        if acc in _names_loaded(part):
            return None
    return gens, elt


def fuse_accumulators(fn):
    """t = <fresh list> ; [if c:] t.append(e) ... ; acc += t   ->   acc += <fresh list> ; [if c:] acc.append(e) ...
    when t is used for nothing else and acc is not touched in between: the elements reach acc in the
    same order."""
    for owner, f, stmts in _blocks(fn):
        for j, last in enumerate(stmts):
            t = acc = None
            if isinstance(last, ast.AugAssign) and isinstance(last.op, ast.Add) and isinstance(last.target, ast.Name) and isinstance(last.value, ast.Name):
                acc, t = last.target.id, last.value.id
            elif isinstance(last, ast.Expr) and isinstance(last.value, ast.Call) and isinstance(last.value.func, ast.Attribute) and last.value.func.attr == "extend" and isinstance(last.value.func.value, ast.Name) and len(last.value.args) == 1 and isinstance(last.value.args[0], ast.Name):
                acc, t = last.value.func.value.id, last.value.args[0].id
            if t is None or t == acc:
                continue
            # the definition of t in the same block
            i = next((k for k in range(j - 1, -1, -1) if isinstance(stmts[k], ast.Assign) and len(stmts[k].targets) == 1 and isinstance(stmts[k].targets[0], ast.Name) and stmts[k].targets[0].id == t), None)
            if i is None or not _is_list_expr(stmts[i].value, set()) or _impure(stmts[i].value):
                continue
            # t is bound once and used only between i and j, only as receiver of append / extend
            all_names = [n for n in _walk_no_nested(fn) if isinstance(n, ast.Name) and n.id == t]
            inside = [n for st in stmts[i:j + 1] for n in [st] + list(_walk_no_nested(st)) if isinstance(n, ast.Name) and n.id == t]
            if len(all_names) != len(inside):
                continue
            ok = True
            recv = 0
            for st in stmts[i + 1:j]:
                for n in [st] + list(_walk_no_nested(st)):
                    if isinstance(n, ast.Name) and n.id == acc:
                        ok = False
                    if isinstance(n, (ast.For, ast.While)):
                        ok = False
                    if isinstance(n, ast.Call) and isinstance(n.func, ast.Attribute) and isinstance(n.func.value, ast.Name) and n.func.value.id == t and n.func.attr in ("append", "extend"):
                        recv += 1
            if acc in _names_loaded(stmts[i].value):
                ok = False
            uses_between = sum(1 for st in stmts[i + 1:j] for n in [st] + list(_walk_no_nested(st)) if isinstance(n, ast.Name) and n.id == t)
            if not ok or uses_between != recv:
                continue
            for st in stmts[i + 1:j]:
                for n in [st] + list(_walk_no_nested(st)):
                    if isinstance(n, ast.Name) and n.id == t:
                        n.id = acc
            stmts[i] = ast.AugAssign(target=ast.Name(id=acc, ctx=ast.Store()), op=ast.Add(), value=stmts[i].value)
            del stmts[j]
            ast.fix_missing_locations(fn)
            return fuse_accumulators(fn)
    return fn


def _append_target(st) -> Optional[str]:
    if isinstance(st, ast.Expr) and isinstance(st.value, ast.Call) and isinstance(st.value.func, ast.Attribute) and st.value.func.attr == "append" and isinstance(st.value.func.value, ast.Name) and len(st.value.args) == 1 and not st.value.keywords:
        return st.value.func.value.id
    if isinstance(st, ast.AugAssign) and isinstance(st.op, ast.Add) and isinstance(st.target, ast.Name) and isinstance(st.value, ast.List) and len(st.value.elts) == 1:
        return st.target.id
    return None


def split_partition_loops(fn):
    """One loop that distributes the elements of S over several local lists
    (``for x in S: if c: a.append(x) else: b.append(x)``) becomes one loop per list, each keeping
    the tests that lead to its appends: the lists receive the same elements in the same order.  S,
    the tests and the elements must be free of effects and must not read the lists; S must be
    iterable twice (self, a field / item of an object, a list built here: not a bare parameter)."""
    if any(isinstance(n, ast.Try) for n in _walk_no_nested(fn)):
        return fn
    lists = _list_names(fn) - set(_params(fn))
    for owner, f, stmts in _blocks(fn):
        for i, loop in enumerate(stmts):
            if not isinstance(loop, ast.For) or loop.orelse:
                continue
            S = loop.iter
            if not ((isinstance(S, ast.Name) and (S.id == "self" or S.id in lists)) or (isinstance(S, (ast.Attribute, ast.Subscript)) and _is_place(S))):
                continue
            accs: List[str] = []
            exprs: List[ast.expr] = [S]
            ok = True

            def scan(block):
                nonlocal ok
                for st in block:
                    if isinstance(st, ast.Pass):
                        continue
                    if isinstance(st, ast.If):
                        exprs.append(st.test)
                        scan(st.body)
                        scan(st.orelse)
                        continue
                    a = _append_target(st)
                    if a is None or a not in lists:
                        ok = False
                        return
                    if a not in accs:
                        accs.append(a)
                    exprs.append(st.value.args[0] if isinstance(st, ast.Expr) else st.value.elts[0])

            scan(loop.body)
            if not ok or len(accs) < 2:
                continue
            tnames = {x.id for x in ast.walk(loop.target) if isinstance(x, ast.Name)}
            if any(_impure(e) for e in exprs) or any(set(accs) & _names_loaded(e) for e in exprs) or tnames & set(accs):
                continue
            if _yield_is_barrier(fn) and any(isinstance(y, (ast.Yield, ast.YieldFrom)) for y in ast.walk(loop)):
                continue
            inside = {id(y) for y in ast.walk(loop)}
            if any(isinstance(y, ast.Name) and y.id in tnames and id(y) not in inside for y in ast.walk(fn)):
                continue  # the loop variable is read after the loop

            def prune(block, acc):
                out = []
                for st in block:
                    if isinstance(st, ast.Pass):
                        continue
                    if isinstance(st, ast.If):
                        b, o = prune(st.body, acc), prune(st.orelse, acc)
                        if b:
                            out.append(ast.If(test=copy.deepcopy(st.test), body=b, orelse=o))
                        elif o:
                            out.append(ast.If(test=_neg(copy.deepcopy(st.test)), body=o, orelse=[]))
                    elif _append_target(st) == acc:
                        out.append(copy.deepcopy(st))
                return out

            new_loops = [ast.For(target=copy.deepcopy(loop.target), iter=copy.deepcopy(S), body=prune(loop.body, a), orelse=[]) for a in accs]
            stmts[i:i + 1] = new_loops
            ast.fix_missing_locations(fn)
            return split_partition_loops(fn)
    return fn


def loops_to_comprehensions(fn):
    fn = split_partition_loops(fn)
    changed = True
    rounds = 0
    while changed and rounds < 6:
        rounds += 1
        changed = False
        for owner, f, stmts in _blocks(fn):
            for i, st in enumerate(stmts):
                if not (isinstance(st, ast.Assign) and len(st.targets) == 1 and isinstance(st.targets[0], ast.Name)):
                    continue
                acc = st.targets[0].id
                empty_list = isinstance(st.value, ast.List) and not st.value.elts
                empty_dict = isinstance(st.value, ast.Dict) and not st.value.keys
                if not (empty_list or empty_dict):
                    continue
                # next statement mentioning acc must be the loop
                j = i + 1
                while j < len(stmts) and acc not in {n.id for n in ast.walk(stmts[j]) if isinstance(n, ast.Name)}:
                    j += 1
                if j >= len(stmts) or not isinstance(stmts[j], ast.For):
                    continue
                res = _loop_to_generators(stmts[j], acc)
                if res is None:
                    continue
                gens, elt = res
                if (elt[0] == "list") != empty_list:
                    continue
                comps = [ast.comprehension(target=copy.deepcopy(_as_store(t)), iter=it, ifs=ifs, is_async=0) for t, it, ifs in gens]
                if elt[0] == "list":
                    value: ast.expr = ast.ListComp(elt=elt[1], generators=comps)
                else:
                    value = ast.DictComp(key=elt[1], value=elt[2], generators=comps)
                new_assign = ast.Assign(targets=[ast.Name(id=acc, ctx=ast.Store())], value=value)
                new_stmts = stmts[:i] + stmts[i + 1:j] + [new_assign] + stmts[j + 1:]
                setattr(owner, f, new_stmts)
                changed = True
                break
            if changed:
                break
        if not changed:
            # for ...: acc.append(e)   ->   acc += [e for ...]   for a list built in this function: the
            # elements reach it in the same order (one normal form with a temporary list added at once)
            lists = _list_names(fn) - set(_params(fn))
            has_try = any(isinstance(n, ast.Try) for n in _walk_no_nested(fn))
            for owner, f, stmts in _blocks(fn):
                for i, st in enumerate(stmts):
                    if not isinstance(st, ast.For) or has_try:
                        continue
                    cur = st
                    while isinstance(cur, (ast.For, ast.If)) and len([s for s in cur.body if not isinstance(s, ast.Pass)]) == 1:
                        cur = [s for s in cur.body if not isinstance(s, ast.Pass)][0]
                    acc = None
                    if isinstance(cur, ast.Expr) and isinstance(cur.value, ast.Call) and isinstance(cur.value.func, ast.Attribute) and isinstance(cur.value.func.value, ast.Name) and cur.value.func.attr in ("append", "extend"):
                        acc = cur.value.func.value.id
                    elif isinstance(cur, ast.AugAssign) and isinstance(cur.target, ast.Name) and isinstance(cur.op, ast.Add):
                        acc = cur.target.id
                    if acc is None or acc not in lists:
                        continue
                    res = _loop_to_generators(st, acc)
                    if res is None or res[1][0] != "list":
                        continue
                    gens, elt = res
                    if any(_impure(x) for g in gens for x in [g[1]] + g[2]) or _impure(elt[1]):
                        continue
                    comps = [ast.comprehension(target=copy.deepcopy(_as_store(t)), iter=it, ifs=ifs, is_async=0) for t, it, ifs in gens]
                    stmts[i] = ast.AugAssign(target=ast.Name(id=acc, ctx=ast.Store()), op=ast.Add(), value=ast.ListComp(elt=elt[1], generators=comps))
                    changed = True
                    break
                if changed:
                    break
        ast.fix_missing_locations(fn)
    return fn


def _as_store(t):
    t = copy.deepcopy(t)
    for n in ast.walk(t):
        if hasattr(n, "ctx"):
            n.ctx = ast.Store()
    return t


# ---------------------------------------------------------------------------------------------
# pass 4: expression normal form
# ---------------------------------------------------------------------------------------------
# names of functions / methods defined in the repository, and those of them that are syntactically
# free of effects on their arguments, on self and on globals (set by substitute_all from BOTH the
# reference and the current tree: a function counts as pure only if it is pure in both)
_LIST_RETURNING: Set[str] = set()  # module-level repo functions annotated `-> list[...]` (in both trees)
_EAGER_GENERATORS: Set[str] = set()
_YIELD_OPAQUE = False
_PARAM_MUT: Dict[str, Tuple[List[str], Set[str]]] = {}  # module-level functions that only change some of their arguments (both trees agree)
_REPO_FUNCS: Set[str] = set()
_PURE_FUNCS: Set[str] = set()
_BUILTIN_PURE = {"len", "list", "sorted", "set", "dict", "tuple", "str", "int", "float", "any", "all", "max", "min", "sum", "range", "zip", "enumerate",
                 "isinstance", "abs", "round", "type", "repr", "bool", "frozenset", "reversed", "map", "filter", "getattr", "hasattr", "id", "iter"}


_LIB_PURE_METHODS = {"values", "get", "keys", "items", "index", "copy"}  # dict / list / pandas readers that repo classes also define (as readers)


def _fresh_locals(fn, wide: bool = False) -> Set[str]:
    """Locals every binding of which creates a new object in the function (display, comprehension,
    constructor-like call): mutating them is invisible outside."""
    params = set(_params(fn))
    defs: Dict[str, List[Optional[ast.expr]]] = {}
    for n in _walk_no_nested(fn):
        if isinstance(n, ast.Assign):
            for t in n.targets:
                if isinstance(t, ast.Name):
                    defs.setdefault(t.id, []).append(n.value if len(n.targets) == 1 else None)
                else:
                    for x in ast.walk(t):
                        if isinstance(x, ast.Name) and isinstance(x.ctx, ast.Store):
                            defs.setdefault(x.id, []).append(None)
        elif isinstance(n, ast.AnnAssign) and isinstance(n.target, ast.Name):
            defs.setdefault(n.target.id, []).append(n.value)
        elif isinstance(n, (ast.For, ast.comprehension)):
            for x in ast.walk(n.target):
                if isinstance(x, ast.Name):
                    defs.setdefault(x.id, []).append(None)
        elif isinstance(n, ast.With):
            for it in n.items:
                if it.optional_vars is not None:
                    for x in ast.walk(it.optional_vars):
                        if isinstance(x, ast.Name):
                            defs.setdefault(x.id, []).append(None)

    def fresh(e) -> bool:
        if isinstance(e, (ast.List, ast.ListComp, ast.Dict, ast.DictComp, ast.Set, ast.SetComp)):
            return True
        if isinstance(e, ast.Call) and isinstance(e.func, ast.Name) and e.func.id in ("list", "dict", "set", "sorted", "DataFrame", "Series", "GroupedList"):
            return True
        if wide:
            # also values no other name can refer to: results of operators and of library functions
            # that build their result (isna(x), unique(x), len(x))
            if isinstance(e, (ast.Compare, ast.BinOp, ast.UnaryOp, ast.Constant, ast.JoinedStr)):
                return True
            if isinstance(e, ast.Call) and isinstance(e.func, ast.Name) and e.func.id in ("isna", "notna", "isnan", "unique", "len", "any", "all", "sum", "min", "max", "zeros", "ones", "arange", "range", "tuple", "str", "int", "float", "bool", "abs", "round"):
                return True
        return False

    return {v for v, ds in defs.items() if v not in params and ds and all(d is not None and fresh(d) for d in ds)}


def _function_is_pure(fn, pure: Set[str], repo: Set[str], constructor: bool = False) -> bool:
    params = set(_params(fn))
    fresh_locals = _fresh_locals(fn)
    if constructor:
        params.discard("self")
    for n in _walk_no_nested(fn):
        if isinstance(n, (ast.Global, ast.Nonlocal, ast.Yield, ast.YieldFrom)):
            return False
        if isinstance(n, (ast.Attribute, ast.Subscript)) and isinstance(n.ctx, (ast.Store, ast.Del)):
            base = n
            while isinstance(base, (ast.Attribute, ast.Subscript)):
                base = base.value
            if constructor and isinstance(base, ast.Name) and base.id == "self":
                continue
            if isinstance(base, ast.Name) and base.id in fresh_locals:
                continue
            return False
        if isinstance(n, ast.AugAssign) and isinstance(n.target, ast.Name) and n.target.id in params:
            return False
        if isinstance(n, ast.Call):
            if any(k.arg == "inplace" for k in n.keywords):
                return False
            f = n.func
            if isinstance(f, ast.Attribute):
                if f.attr in MUTATORS and f.attr not in PANDAS_PURE:
                    if isinstance(f.value, ast.Name) and f.value.id in fresh_locals:
                        continue  # a fresh object of this function
                    if constructor and isinstance(f.value, ast.Name) and f.value.id not in params:
                        continue  # a local of the constructor
                    if constructor and isinstance(f.value, ast.Attribute) and isinstance(f.value.value, ast.Name) and f.value.value.id == "self":
                        continue
                    return False
                if f.attr in repo and f.attr not in pure and f.attr not in _LIB_PURE_METHODS and f.attr != "__init__":
                    return False
            elif isinstance(f, ast.Name):
                if f.id in ("print", "warn", "setattr", "delattr", "exec", "eval", "open", "next"):
                    return False
                if f.id in repo and f.id not in pure:
                    return False
    return True


def param_mutation_summaries(trees: List[ast.Module], pure: Set[str], repo: Set[str]) -> Dict[str, Tuple[List[str], Set[str]]]:
    """Module-level functions whose only effects are changes to (some of) their own arguments:
    name -> (parameter names in order, names of the parameters that may be changed).  A function
    with any other effect (global, attribute of something else, unknown repository call, yield) has
    no entry."""
    funcs: Dict[str, List[ast.FunctionDef]] = {}
    for t in trees:
        for n in t.body:
            if isinstance(n, ast.FunctionDef):
                funcs.setdefault(n.name, []).append(n)
    funcs = {k: v[0] for k, v in funcs.items() if len(v) == 1 and k not in pure}
    summ: Dict[str, Tuple[List[str], Set[str]]] = {}

    def analyse(fn, known) -> Optional[Set[str]]:
        params = _params(fn)
        pset = set(params)
        if fn.args.vararg or fn.args.kwarg:
            return None
        fresh_locals = _fresh_locals(fn)
        mutated: Set[str] = set()
        for n in _walk_no_nested(fn):
            if isinstance(n, (ast.Global, ast.Nonlocal, ast.Yield, ast.YieldFrom, ast.Lambda, ast.FunctionDef)):
                return None
            if isinstance(n, ast.Name) and isinstance(n.ctx, ast.Store) and n.id in pset and not isinstance(getattr(n, "_aug", None), ast.AST):
                pass
            if isinstance(n, ast.Assign):
                for t in n.targets:
                    for x in ast.walk(t):
                        if isinstance(x, ast.Name) and isinstance(x.ctx, ast.Store) and x.id in pset:
                            return None  # a re-bound parameter: later mutations may or may not reach the argument
            if isinstance(n, (ast.Attribute, ast.Subscript)) and isinstance(n.ctx, (ast.Store, ast.Del)):
                base = n
                while isinstance(base, (ast.Attribute, ast.Subscript)):
                    base = base.value
                if isinstance(base, ast.Name) and base.id in pset:
                    mutated.add(base.id)
                elif isinstance(base, ast.Name) and base.id in fresh_locals:
                    pass
                else:
                    return None
            if isinstance(n, ast.AugAssign):
                if isinstance(n.target, ast.Name):
                    if n.target.id in pset:
                        mutated.add(n.target.id)
                    # a local: `x += ..` may change the object x was bound to: fresh locals only
                    elif n.target.id not in fresh_locals and not isinstance(n.value, (ast.Constant,)):
                        return None
            if isinstance(n, ast.Call):
                if any(k.arg == "inplace" for k in n.keywords):
                    return None
                f = n.func
                if isinstance(f, ast.Attribute):
                    if f.attr in MUTATORS and f.attr not in PANDAS_PURE:
                        if isinstance(f.value, ast.Name) and f.value.id in pset:
                            mutated.add(f.value.id)
                        elif isinstance(f.value, ast.Name) and f.value.id in fresh_locals:
                            pass
                        else:
                            return None
                    elif f.attr in repo and f.attr not in pure and f.attr not in _LIB_PURE_METHODS:
                        return None
                elif isinstance(f, ast.Name):
                    if f.id in ("setattr", "delattr", "exec", "eval", "open", "next"):
                        return None
                    if f.id in repo and f.id not in pure:
                        # (least fixed point: a recursive call changes what the previous round found)
                        callee = known.get(f.id) or ((params, set()) if f.id == fn.name else None)
                        if callee is None:
                            return None
                        cparams, cmut = callee
                        bound = {}
                        for i_, a_ in enumerate(n.args):
                            if isinstance(a_, ast.Starred) or i_ >= len(cparams):
                                return None
                            bound[cparams[i_]] = a_
                        for k_ in n.keywords:
                            if k_.arg is None:
                                return None
                            bound[k_.arg] = k_.value
                        for pn in cmut:
                            a_ = bound.get(pn)
                            if a_ is None:
                                continue
                            base = a_
                            while isinstance(base, (ast.Attribute, ast.Subscript)):
                                if isinstance(base, ast.Subscript) and not isinstance(base.slice, ast.Slice) and not isinstance(a_, ast.Name):
                                    # an element / a boolean-mask selection: treated as reaching the container
                                    pass
                                base = base.value
                            if isinstance(base, ast.Name):
                                if base.id in pset:
                                    mutated.add(base.id)
                                elif base.id in fresh_locals:
                                    pass
                                else:
                                    return None
                            elif isinstance(base, (ast.List, ast.Dict, ast.Set, ast.ListComp, ast.Call, ast.Constant, ast.BinOp)):
                                pass  # a fresh object
                            else:
                                return None
        return mutated

    for _ in range(4):
        new = {}
        for name, fn in funcs.items():
            r = analyse(fn, summ)
            if r is not None:
                new[name] = (_params(fn), r)
        if {k: (v[0], frozenset(v[1])) for k, v in new.items()} == {k: (v[0], frozenset(v[1])) for k, v in summ.items()}:
            break
        summ = new
    return summ


def _mutated_args(c: ast.Call) -> Optional[Set[str]]:
    """For a call of a function with a parameter-mutation summary: the local names whose object may
    be changed by the call (None: no summary / cannot tell)."""
    if not (isinstance(c.func, ast.Name) and c.func.id in _PARAM_MUT):
        return None
    cparams, cmut = _PARAM_MUT[c.func.id]
    bound = {}
    for i_, a_ in enumerate(c.args):
        if isinstance(a_, ast.Starred) or i_ >= len(cparams):
            return None
        bound[cparams[i_]] = a_
    for k_ in c.keywords:
        if k_.arg is None:
            return None
        bound[k_.arg] = k_.value
    out: Set[str] = set()
    for pn in cmut:
        a_ = bound.get(pn)
        if a_ is None:
            continue
        base = a_
        while isinstance(base, (ast.Attribute, ast.Subscript)):
            base = base.value
        if isinstance(base, ast.Name):
            out.add(base.id)
        elif isinstance(base, (ast.List, ast.Dict, ast.Set, ast.ListComp, ast.Constant, ast.BinOp)):
            pass
        else:
            return None
    return out


def pure_function_names(trees: List[ast.Module]) -> Tuple[Set[str], Set[str]]:
    funcs: Dict[str, List[ast.FunctionDef]] = {}
    for t in trees:
        for n in ast.walk(t):
            if isinstance(n, (ast.FunctionDef, ast.AsyncFunctionDef)):
                funcs.setdefault(n.name, []).append(n)
    classes: Dict[str, List[ast.FunctionDef]] = {}
    for t in trees:
        for n in ast.walk(t):
            if isinstance(n, ast.ClassDef):
                classes.setdefault(n.name, []).extend(m for m in n.body if isinstance(m, ast.FunctionDef) and m.name == "__init__")
    repo = set(funcs) | set(classes)
    pure: Set[str] = set()
    for _ in range(6):
        new = {name for name, nodes in funcs.items() if nodes and name != "__init__" and all(_function_is_pure(x, pure | {name}, repo) for x in nodes)}  # a call of itself (or of a library method of the same name) adds nothing
        # a constructor is pure when its __init__ only builds the new object (GroupedList(...))
        new |= {c for c, inits in classes.items() if inits and all(_function_is_pure(x, pure, repo, constructor=True) for x in inits) and not any(
            isinstance(n, ast.Call) and isinstance(n.func, ast.Attribute) and n.func.attr == "__init__" and isinstance(n.func.value, ast.Call) and len(x.args.args) > 3 for x in inits for n in ast.walk(x))}
        if new == pure:
            break
        pure = new
    return repo, pure


def _impure(e) -> bool:
    """May evaluating e have a side effect?  Calls of mutating methods (other than the pandas ones
    that return a new object), of repository functions that are not known to be pure, yields."""
    for n in ast.walk(e):
        if isinstance(n, (ast.Yield, ast.YieldFrom, ast.Await, ast.NamedExpr)):
            return True
        if isinstance(n, ast.Call):
            if any(k.arg == "inplace" for k in n.keywords):
                return True
            f = n.func
            if isinstance(f, ast.Attribute):
                if f.attr in MUTATORS and f.attr not in PANDAS_PURE:
                    return True
                if f.attr in _REPO_FUNCS and f.attr not in _PURE_FUNCS and f.attr not in _LIB_PURE_METHODS:
                    return True
                if isinstance(f.value, ast.Call) and isinstance(f.value.func, ast.Name) and f.value.func.id == "super":
                    return True
            elif isinstance(f, ast.Name):
                if f.id in ("print", "warn", "next", "setattr", "delattr", "exec", "eval", "open"):
                    return True
                if f.id in _REPO_FUNCS and f.id not in _PURE_FUNCS:
                    return True
    return False


def _is_list_expr(e, list_names: Set[str]) -> bool:
    if isinstance(e, (ast.List, ast.ListComp)):
        return True
    if isinstance(e, ast.Call) and isinstance(e.func, ast.Name) and (e.func.id in LIST_MAKERS or e.func.id in _LIST_RETURNING):
        return True
    if isinstance(e, ast.Name) and e.id in list_names:
        return True
    if isinstance(e, ast.BinOp) and isinstance(e.op, ast.Add) and (_is_list_expr(e.left, list_names) or _is_list_expr(e.right, list_names)):
        return True
    # self.<attr> every assignment of which, in the whole package and in both trees, is a list (or a dict display of lists)
    if isinstance(e, ast.Attribute) and isinstance(e.value, ast.Name) and e.value.id == "self" and e.attr in _LIST_ATTRS:
        return True
    if isinstance(e, ast.Subscript) and not isinstance(e.slice, (ast.Slice, ast.Tuple)):
        v = e.value
        if isinstance(v, ast.Attribute) and isinstance(v.value, ast.Name) and v.value.id == "self" and v.attr in _DICT_OF_LIST_ATTRS:
            return True
    if isinstance(e, ast.Subscript) and isinstance(e.slice, ast.Slice) and _is_list_expr(e.value, list_names):
        return True
    return False


_LIST_ATTRS: Set[str] = set()          # attributes of the class family being normalised bound only by `self.a = <list expression>` (both trees)
_DICT_OF_LIST_ATTRS: Set[str] = set()  # ... bound only by `self.a = {k: <list expression>, ..}`, never stored into, aliased or used as a receiver
_FAMILY_ATTRS: Dict[str, Tuple[Set[str], Set[str]]] = {}   # class name -> (list attributes, dict-of-list attributes) of its inheritance family


def _set_family(cls: Optional[str]) -> None:
    _LIST_ATTRS.clear(); _DICT_OF_LIST_ATTRS.clear()
    if cls and cls in _FAMILY_ATTRS:
        _LIST_ATTRS.update(_FAMILY_ATTRS[cls][0]); _DICT_OF_LIST_ATTRS.update(_FAMILY_ATTRS[cls][1])


def list_typed_attrs(ts) -> Dict[str, Tuple[Set[str], Set[str]]]:
    """Per class (shared by its whole inheritance family: classes connected through base-class links by
    name), the attribute names that can only hold a list / a dict of lists: every binding of the name in
    a method of the family is `self.a = <list expr>` (resp. a dict display whose values are list exprs),
    `self.a += ..` keeps a list a list, no store `<other object>.a = ..` exists anywhere, and a
    dict-of-lists attribute is only read by subscript / iterated / measured (never an item store, a
    receiver of a method other than keys(), or an alias)."""
    classes: Dict[str, ast.ClassDef] = {}
    for t in ts:
        for n in ast.walk(t):
            if isinstance(n, ast.ClassDef):
                classes[n.name] = n
    fam = {c: c for c in classes}

    def find(c):
        while fam[c] != c:
            fam[c] = fam[fam[c]]
            c = fam[c]
        return c

    for c, n in classes.items():
        for bnode in n.bases:
            bn = bnode.id if isinstance(bnode, ast.Name) else (bnode.attr if isinstance(bnode, ast.Attribute) else None)
            if bn in classes:
                fam[find(c)] = find(bn)
    binds: Dict[Tuple[str, str], List[ast.expr]] = {}
    other: Set[str] = set()            # attribute names disqualified everywhere
    touched: Set[Tuple[str, str]] = set()
    for t in ts:
        for top in ast.walk(t):
            if not isinstance(top, ast.ClassDef):
                continue
            F = find(top.name)
            parents = {}
            for n in ast.walk(top):
                for c in ast.iter_child_nodes(n):
                    parents[c] = n
            for b in top.body:
                if isinstance(b, (ast.Assign, ast.AnnAssign)):
                    for x in (b.targets if isinstance(b, ast.Assign) else [b.target]):
                        if isinstance(x, ast.Name):
                            other.add(x.id)
            for n in ast.walk(top):
                if isinstance(n, (ast.Assign, ast.AnnAssign)):
                    for x in (n.targets if isinstance(n, ast.Assign) else [n.target]):
                        if isinstance(x, ast.Attribute) and isinstance(x.value, ast.Name) and x.value.id == "self" and n.value is not None and isinstance(n, ast.Assign) and len(n.targets) == 1:
                            binds.setdefault((F, x.attr), []).append(n.value)
                elif isinstance(n, ast.AugAssign) and isinstance(n.target, ast.Attribute):
                    if not isinstance(n.op, ast.Add):
                        other.add(n.target.attr)
                    touched.add((F, n.target.attr))
                if isinstance(n, ast.Attribute) and isinstance(n.ctx, ast.Load) and isinstance(n.value, ast.Name) and n.value.id == "self":
                    par = parents.get(n)
                    ok = False
                    if isinstance(par, ast.Subscript) and par.value is n and isinstance(par.ctx, ast.Load):
                        gp = parents.get(par)
                        if isinstance(gp, ast.Subscript) and gp.value is par and isinstance(gp.ctx, ast.Load) and isinstance(gp.slice, ast.Slice):
                            ok = True
                        elif isinstance(gp, ast.Call) and isinstance(gp.func, ast.Name) and gp.func.id == "len":
                            ok = True
                        elif isinstance(gp, (ast.For, ast.comprehension)) and gp.iter is par:
                            ok = True
                    elif isinstance(par, ast.Call) and isinstance(par.func, ast.Name) and par.func.id in ("list", "len", "sorted") and n in par.args:
                        ok = True
                    elif isinstance(par, ast.Attribute) and par.value is n and par.attr == "keys":
                        ok = True
                    elif isinstance(par, (ast.For, ast.comprehension)) and par.iter is n:
                        ok = True
                    elif isinstance(par, ast.Compare) and n in par.comparators and all(isinstance(o, (ast.In, ast.NotIn)) for o in par.ops):
                        ok = True
                    if not ok:
                        touched.add((F, n.attr))
        for n in ast.walk(t):
            # stores that are not the plain single-target `self.a = v` counted above
            if isinstance(n, ast.Attribute) and isinstance(n.ctx, (ast.Store, ast.Del)) and not (isinstance(n.value, ast.Name) and n.value.id == "self" and isinstance(n.ctx, ast.Store)):
                other.add(n.attr)
            elif isinstance(n, (ast.Tuple, ast.List)) and isinstance(getattr(n, "ctx", None), ast.Store):
                for y in ast.walk(n):
                    if isinstance(y, ast.Attribute):
                        other.add(y.attr)
            elif isinstance(n, ast.Assign) and len(n.targets) > 1:
                for x in n.targets:
                    if isinstance(x, ast.Attribute):
                        other.add(x.attr)
            elif isinstance(n, (ast.For, ast.comprehension, ast.withitem)):
                tg = n.target if not isinstance(n, ast.withitem) else n.optional_vars
                if tg is not None:
                    for y in ast.walk(tg):
                        if isinstance(y, ast.Attribute):
                            other.add(y.attr)
            elif isinstance(n, ast.Call) and isinstance(n.func, ast.Name) and n.func.id in ("setattr", "delattr", "vars"):
                return {}
            elif isinstance(n, ast.Attribute) and n.attr == "__dict__":
                return {}
    lists: Set[Tuple[str, str]] = set()
    saved_l, saved_d = set(_LIST_ATTRS), set(_DICT_OF_LIST_ATTRS)
    try:
        _DICT_OF_LIST_ATTRS.clear()
        for _ in range(3):
            for (F, a), vals in binds.items():
                if a in other or (F, a) in lists:
                    continue
                _LIST_ATTRS.clear(); _LIST_ATTRS.update(x for (f, x) in lists if f == F)
                if all(_is_list_expr(v, set()) for v in vals):
                    lists.add((F, a))
        dicts: Set[Tuple[str, str]] = set()
        for (F, a), vals in binds.items():
            if a in other or (F, a) in touched or (F, a) in lists:
                continue
            _LIST_ATTRS.clear(); _LIST_ATTRS.update(x for (f, x) in lists if f == F)
            if all(isinstance(v, ast.Dict) and v.values and all(k is not None for k in v.keys) and all(_is_list_expr(x, set()) for x in v.values) for v in vals):
                dicts.add((F, a))
    finally:
        _LIST_ATTRS.clear(); _LIST_ATTRS.update(saved_l)
        _DICT_OF_LIST_ATTRS.clear(); _DICT_OF_LIST_ATTRS.update(saved_d)
    return {c: ({a for (f, a) in lists if f == find(c)}, {a for (f, a) in dicts if f == find(c)}) for c in classes}


_FLIP = {ast.Gt: ast.Lt, ast.GtE: ast.LtE}


class _ExprCanon(ast.NodeTransformer):
    def __init__(self, list_names: Set[str]):
        self.list_names = list_names

    # ---- tests ------------------------------------------------------------------------
    def _test(self, e: ast.expr) -> ast.expr:
        """Normal form of an expression whose truth value only is used."""
        if isinstance(e, ast.UnaryOp) and isinstance(e.op, ast.Not):
            inner = e.operand
            if isinstance(inner, ast.UnaryOp) and isinstance(inner.op, ast.Not):
                return self._test(inner.operand)
            if isinstance(inner, ast.BoolOp):
                op = ast.Or() if isinstance(inner.op, ast.And) else ast.And()
                return self._test(ast.BoolOp(op=op, values=[ast.UnaryOp(op=ast.Not(), operand=v) for v in inner.values]))
            if isinstance(inner, ast.Compare) and len(inner.ops) == 1:
                swap = {ast.Eq: ast.NotEq, ast.NotEq: ast.Eq, ast.In: ast.NotIn, ast.NotIn: ast.In, ast.Is: ast.IsNot, ast.IsNot: ast.Is}
                t = type(inner.ops[0])
                if t in swap:
                    return self._test(ast.Compare(left=inner.left, ops=[swap[t]()], comparators=inner.comparators))
                order_neg = {ast.Lt: ast.GtE, ast.LtE: ast.Gt, ast.Gt: ast.LtE, ast.GtE: ast.Lt}
                if t in order_neg and _int_typed(inner.left) and _int_typed(inner.comparators[0]):
                    return self._test(ast.Compare(left=inner.left, ops=[order_neg[t]()], comparators=inner.comparators))
            inner2 = self._test(inner)
            if _dump(inner2) != _dump(inner):
                return self._test(ast.UnaryOp(op=ast.Not(), operand=inner2))
            return e
        if isinstance(e, ast.BinOp) and isinstance(e.op, (ast.BitOr, ast.BitAnd)) and all(
            isinstance(x, (ast.Compare, ast.BoolOp)) or (isinstance(x, ast.BinOp) and isinstance(x.op, (ast.BitOr, ast.BitAnd)))
            or (isinstance(x, ast.Call) and isinstance(x.func, ast.Name) and x.func.id in ("any", "all", "isinstance", "bool", "hasattr", "callable"))
            or (isinstance(x, ast.UnaryOp) and isinstance(x.op, ast.Not))
            for x in (e.left, e.right)):
            # (a < b) | (c == d) as the test of an if: both operands are booleans there
            return self._test(ast.BoolOp(op=ast.Or() if isinstance(e.op, ast.BitOr) else ast.And(), values=[e.left, e.right]))
        if isinstance(e, ast.BoolOp):
            vals: List[ast.expr] = []
            for v in e.values:
                v = self._test(v)
                if isinstance(v, ast.BoolOp) and type(v.op) is type(e.op):
                    vals.extend(v.values)
                else:
                    vals.append(v)
            return ast.BoolOp(op=e.op, values=vals)
        if isinstance(e, ast.Compare) and len(e.ops) == 1 and isinstance(e.ops[0], (ast.Eq, ast.NotEq)) and all(
            isinstance(x, ast.Compare) and len(x.ops) == 1 and isinstance(x.ops[0], (ast.In, ast.NotIn, ast.Is, ast.IsNot)) for x in (e.left, e.comparators[0])
        ):
            # (a in X) == (b in Y) on two booleans  ->  both or neither
            A, B = e.left, e.comparators[0]
            both = ast.BoolOp(op=ast.And(), values=[copy.deepcopy(A), copy.deepcopy(B)])
            neither = ast.BoolOp(op=ast.And(), values=[_push_not(copy.deepcopy(A)), _push_not(copy.deepcopy(B))])
            res = ast.BoolOp(op=ast.Or(), values=[both, neither])
            return self._test(res if isinstance(e.ops[0], ast.Eq) else ast.UnaryOp(op=ast.Not(), operand=res))
        if isinstance(e, ast.Compare) and len(e.ops) == 1:
            # len(L) == 0 / len(L) > 0 on a syntactic list
            l, op, r = e.left, e.ops[0], e.comparators[0]
            for a, b, flipped in ((l, r, False), (r, l, True)):
                if isinstance(a, ast.Call) and isinstance(a.func, ast.Name) and a.func.id == "len" and len(a.args) == 1 and isinstance(b, ast.Constant) and isinstance(b.value, int) and _is_list_expr(a.args[0], self.list_names):
                    o = type(op)
                    if flipped:
                        o = {ast.Lt: ast.Gt, ast.Gt: ast.Lt, ast.LtE: ast.GtE, ast.GtE: ast.LtE}.get(o, o)
                    k = b.value
                    if (o is ast.Eq and k == 0) or (o is ast.Lt and k == 1) or (o is ast.LtE and k == 0):
                        return ast.UnaryOp(op=ast.Not(), operand=a.args[0])
                    if (o is ast.Gt and k == 0) or (o is ast.NotEq and k == 0) or (o is ast.GtE and k == 1):
                        return a.args[0]
        return e

    def visit_If(self, n):
        self.generic_visit(n)
        n.test = self._test(n.test)
        return n

    def visit_While(self, n):
        self.generic_visit(n)
        n.test = self._test(n.test)
        return n

    def visit_Assert(self, n):
        self.generic_visit(n)
        n.test = self._test(n.test)
        return n

    def visit_IfExp(self, n):
        self.generic_visit(n)
        n.test = self._test(n.test)
        if isinstance(n.test, ast.UnaryOp) and isinstance(n.test.op, ast.Not):
            n.test, n.body, n.orelse = n.test.operand, n.orelse, n.body
        elif isinstance(n.test, ast.Compare) and len(n.test.ops) == 1 and isinstance(n.test.ops[0], (ast.NotEq, ast.NotIn, ast.IsNot)):
            pos = {ast.NotEq: ast.Eq, ast.NotIn: ast.In, ast.IsNot: ast.Is}[type(n.test.ops[0])]
            n.test = self.visit_Compare(ast.Compare(left=n.test.left, ops=[pos()], comparators=n.test.comparators))
            n.body, n.orelse = n.orelse, n.body
        return n

    def visit_comprehension(self, n):
        self.generic_visit(n)
        ifs: List[ast.expr] = []
        for t in n.ifs:
            t = self._test(t)
            if isinstance(t, ast.BoolOp) and isinstance(t.op, ast.And):
                ifs.extend(t.values)
            else:
                ifs.append(t)
        n.ifs = ifs
        n.iter = self._iter(n.iter)
        # for x in [y for y in L if c]  ==  for x in L if c[y := x]
        it = n.iter
        if (
            isinstance(it, ast.ListComp) and len(it.generators) == 1 and isinstance(it.elt, ast.Name)
            and isinstance(it.generators[0].target, ast.Name) and it.elt.id == it.generators[0].target.id and isinstance(n.target, ast.Name)
        ):
            inner = it.generators[0]
            ren = _RenameNames({inner.target.id: n.target.id})
            n.ifs = [ren.visit(copy.deepcopy(t)) for t in inner.ifs] + n.ifs
            n.iter = inner.iter
        return n

    def visit_For(self, n):
        self.generic_visit(n)
        n.iter = self._iter(n.iter)
        return n

    @staticmethod
    def _iter(it):
        if isinstance(it, ast.Call) and isinstance(it.func, ast.Attribute) and it.func.attr == "keys" and not it.args and not it.keywords:
            return it.func.value
        return it

    # ---- expressions --------------------------------------------------------------------
    def visit_Compare(self, n):
        self.generic_visit(n)
        if len(n.ops) == 1:
            # len(X) is a non-negative integer: len(X) != 0, len(X) >= 1, 0 < len(X) are one test
            l, r = n.left, n.comparators[0]
            for a, b, flipped in ((l, r, False), (r, l, True)):
                if isinstance(a, ast.Call) and isinstance(a.func, ast.Name) and a.func.id == "len" and len(a.args) == 1 and isinstance(b, ast.Constant) and type(b.value) is int:
                    o = type(n.ops[0])
                    if flipped:
                        o = {ast.Lt: ast.Gt, ast.Gt: ast.Lt, ast.LtE: ast.GtE, ast.GtE: ast.LtE}.get(o, o)
                    k = b.value
                    if (o is ast.Gt and k == 0) or (o is ast.NotEq and k == 0) or (o is ast.GtE and k == 1):
                        return ast.Compare(left=ast.Constant(value=0), ops=[ast.Lt()], comparators=[a])
                    if (o is ast.Eq and k == 0) or (o is ast.Lt and k == 1) or (o is ast.LtE and k == 0):
                        return ast.Compare(left=ast.Constant(value=0), ops=[ast.Eq()], comparators=[a])
            t = type(n.ops[0])
            if t in _FLIP:
                return ast.Compare(left=n.comparators[0], ops=[_FLIP[t]()], comparators=[n.left])
            if t in (ast.Eq, ast.NotEq) and _masked_dump(n.comparators[0]) < _masked_dump(n.left):
                return ast.Compare(left=n.comparators[0], ops=n.ops, comparators=[n.left])
            if t in (ast.In, ast.NotIn):
                n.comparators = [self._iter(n.comparators[0])]
        return n

    def visit_ListComp(self, n):
        self.generic_visit(n)
        # [i for i, _ in enumerate(L)]  ==  list(range(len(L)))
        if len(n.generators) == 1 and not n.generators[0].ifs and isinstance(n.elt, ast.Name):
            g = n.generators[0]
            if (isinstance(g.target, ast.Tuple) and len(g.target.elts) == 2 and all(isinstance(x, ast.Name) for x in g.target.elts) and g.target.elts[0].id == n.elt.id
                    and g.target.elts[1].id != n.elt.id and isinstance(g.iter, ast.Call) and isinstance(g.iter.func, ast.Name) and g.iter.func.id == "enumerate" and len(g.iter.args) == 1 and not g.iter.keywords):
                ln = ast.Call(func=ast.Name(id="len", ctx=ast.Load()), args=[g.iter.args[0]], keywords=[])
                rg = ast.Call(func=ast.Name(id="range", ctx=ast.Load()), args=[ln], keywords=[])
                return ast.Call(func=ast.Name(id="list", ctx=ast.Load()), args=[rg], keywords=[])
        if len(n.generators) == 1 and not n.generators[0].ifs and isinstance(n.elt, ast.Name) and isinstance(n.generators[0].target, ast.Name) and n.elt.id == n.generators[0].target.id:
            return ast.Call(func=ast.Name(id="list", ctx=ast.Load()), args=[n.generators[0].iter], keywords=[])
        return n

    def visit_DictComp(self, n):
        self.generic_visit(n)
        g = n.generators
        if len(g) == 1 and not g[0].ifs and isinstance(g[0].target, ast.Tuple) and len(g[0].target.elts) == 2 and all(isinstance(x, ast.Name) for x in g[0].target.elts):
            k, v = g[0].target.elts
            if isinstance(n.key, ast.Name) and isinstance(n.value, ast.Name) and n.key.id == k.id and n.value.id == v.id:
                return ast.Call(func=ast.Name(id="dict", ctx=ast.Load()), args=[g[0].iter], keywords=[])
            it = g[0].iter
            if (isinstance(n.key, ast.Name) and isinstance(n.value, ast.Name) and n.key.id == v.id and n.value.id == k.id
                    and isinstance(it, ast.Call) and isinstance(it.func, ast.Name) and it.func.id == "zip" and len(it.args) == 2 and not it.keywords):
                # {b: a for a, b in zip(X, Y)}  ==  dict(zip(Y, X))
                z = ast.Call(func=ast.Name(id="zip", ctx=ast.Load()), args=[it.args[1], it.args[0]], keywords=[])
                return ast.Call(func=ast.Name(id="dict", ctx=ast.Load()), args=[z], keywords=[])
        return n

    def visit_Call(self, n):
        self.generic_visit(n)
        if any(isinstance(a, ast.Starred) and isinstance(a.value, ast.Tuple) for a in n.args):
            flat = []
            for a in n.args:
                if isinstance(a, ast.Starred) and isinstance(a.value, ast.Tuple):
                    flat.extend(a.value.elts)  # f(*(a, b)) is f(a, b)
                else:
                    flat.append(a)
            n.args = flat
        if unparse_name(n.func) in ("delete", "numpy.delete") and len(n.args) == 2 and len(n.keywords) == 1 and n.keywords[0].arg == "axis":
            n.func = ast.Attribute(value=ast.Name(id="np", ctx=ast.Load()), attr="delete", ctx=ast.Load())
        # list(<generator expression>) -> list comprehension (then maybe list(iter))
        if isinstance(n.func, ast.Name) and n.func.id == "list" and len(n.args) == 1 and not n.keywords:
            a = n.args[0]
            if isinstance(a, ast.GeneratorExp):
                return self.visit_ListComp(ast.ListComp(elt=a.elt, generators=a.generators))
            if isinstance(a, ast.Call) and isinstance(a.func, ast.Attribute) and a.func.attr == "keys" and not a.args:
                n.args = [a.func.value]
            if isinstance(a, (ast.List, ast.ListComp)) or (isinstance(a, ast.Call) and isinstance(a.func, ast.Name) and a.func.id in LIST_MAKERS):
                return a  # list(<fresh list>) is a copy of a fresh list: same value
        if isinstance(n.func, ast.Name) and n.func.id in ("sorted", "set", "list", "tuple", "sum", "max", "min", "any", "all") and len(n.args) >= 1:
            a = n.args[0]
            if isinstance(a, ast.Call) and isinstance(a.func, ast.Name) and a.func.id == "list" and len(a.args) == 1 and not a.keywords and n.func.id != "list":
                n.args = [a.args[0]] + n.args[1:]  # the copy is consumed at once
        if isinstance(n.func, ast.Name) and n.func.id == "len" and len(n.args) == 1:
            a = n.args[0]
            # len(list(set(x))) == len(set(x))
            if isinstance(a, ast.Call) and isinstance(a.func, ast.Name) and a.func.id == "list" and len(a.args) == 1 and isinstance(a.args[0], ast.Call) and isinstance(a.args[0].func, ast.Name) and a.args[0].func.id in ("set", "frozenset"):
                n.args = [a.args[0]]
        return n

    def visit_Subscript(self, n):
        self.generic_visit(n)
        # X[:, arange(X.shape[1]) != i]  ==  delete(X, i, axis=1)   (column i removed)
        if isinstance(n.ctx, ast.Load) and isinstance(n.slice, ast.Tuple) and len(n.slice.elts) == 2:
            rows, cols = n.slice.elts
            if isinstance(rows, ast.Slice) and rows.lower is None and rows.upper is None and rows.step is None and isinstance(cols, ast.Compare) and len(cols.ops) == 1 and isinstance(cols.ops[0], ast.NotEq):
                for a, b in ((cols.left, cols.comparators[0]), (cols.comparators[0], cols.left)):
                    if (isinstance(a, ast.Call) and (unparse_name(a.func) in ("arange", "np.arange", "numpy.arange")) and len(a.args) == 1
                            and _dump(a.args[0]) == _dump(ast.Subscript(value=ast.Attribute(value=n.value, attr="shape", ctx=ast.Load()), slice=ast.Constant(value=1), ctx=ast.Load()))):
                        fn_ = ast.Attribute(value=ast.Name(id="np", ctx=ast.Load()), attr="delete", ctx=ast.Load())
                        return ast.Call(func=fn_, args=[n.value, b], keywords=[ast.keyword(arg="axis", value=ast.Constant(value=1))])
        # {"k": e, ...}["k"]  ->  e
        if isinstance(n.ctx, ast.Load) and isinstance(n.value, ast.Dict) and isinstance(n.slice, ast.Constant) and all(isinstance(k, ast.Constant) for k in n.value.keys) and not any(_impure(v) for v in n.value.values):
            hits = [v for k, v in zip(n.value.keys, n.value.values) if k.value == n.slice.value and type(k.value) is type(n.slice.value)]
            if len(hits) == 1:
                return hits[0]
        return n

    def visit_BinOp(self, n):
        self.generic_visit(n)
        if isinstance(n.op, ast.Add):
            # e[:] + y  ==  e + y  (the concatenation builds a new object anyway)
            for side in ("left", "right"):
                s = getattr(n, side)
                if isinstance(s, ast.Subscript) and isinstance(s.slice, ast.Slice) and s.slice.lower is None and s.slice.upper is None and s.slice.step is None:
                    setattr(n, side, s.value)
        return n

    def visit_Expr(self, n):
        self.generic_visit(n)
        c = n.value
        # d.update({k: v}) -> d[k] = v
        if isinstance(c, ast.Call) and isinstance(c.func, ast.Attribute) and c.func.attr == "update" and len(c.args) == 1 and not c.keywords and isinstance(c.args[0], ast.Dict) and len(c.args[0].keys) == 1 and c.args[0].keys[0] is not None:
            tgt = ast.Subscript(value=c.func.value, slice=c.args[0].keys[0], ctx=ast.Store())
            return ast.Assign(targets=[tgt], value=c.args[0].values[0])
        # d.pop(k, None) as a statement  ->  if k in d: d.pop(k)   (two-argument pop exists on dicts only)
        if (isinstance(c, ast.Call) and isinstance(c.func, ast.Attribute) and c.func.attr == "pop" and len(c.args) == 2 and not c.keywords
                and isinstance(c.args[1], ast.Constant) and c.args[1].value is None and _is_place(c.func.value) and isinstance(c.args[0], (ast.Name, ast.Constant))):
            test = ast.Compare(left=copy.deepcopy(c.args[0]), ops=[ast.In()], comparators=[copy.deepcopy(c.func.value)])
            c.args = [c.args[0]]
            return ast.If(test=test, body=[n], orelse=[])
        # L.extend(<comprehension>) -> L += [<comprehension>] for a local that is syntactically a list
        if (isinstance(c, ast.Call) and isinstance(c.func, ast.Attribute) and c.func.attr == "extend" and len(c.args) == 1 and not c.keywords and isinstance(c.args[0], (ast.ListComp, ast.GeneratorExp))
                and isinstance(c.func.value, ast.Name) and c.func.value.id in self.list_names):
            comp = c.args[0]
            return ast.AugAssign(target=ast.Name(id=c.func.value.id, ctx=ast.Store()), op=ast.Add(), value=ast.ListComp(elt=comp.elt, generators=comp.generators))
        # L.extend([e]) -> L.append(e)
        if isinstance(c, ast.Call) and isinstance(c.func, ast.Attribute) and c.func.attr == "extend" and len(c.args) == 1 and isinstance(c.args[0], ast.List) and len(c.args[0].elts) == 1:
            c.func.attr = "append"
            c.args = [c.args[0].elts[0]]
        return n

    def visit_AugAssign(self, n):
        self.generic_visit(n)
        # L += [e] -> L.append(e) for a local that is syntactically a list
        if isinstance(n.op, ast.Add) and isinstance(n.target, ast.Name) and n.target.id in self.list_names and isinstance(n.value, ast.List) and len(n.value.elts) == 1:
            return ast.Expr(value=ast.Call(func=ast.Attribute(value=ast.Name(id=n.target.id, ctx=ast.Load()), attr="append", ctx=ast.Load()), args=[n.value.elts[0]], keywords=[]))
        return n


def unparse_name(e) -> str:
    try:
        return ast.unparse(e)
    except Exception:
        return ""


def _dump_noctx(e) -> str:
    e = copy.deepcopy(e)
    for n in ast.walk(e):
        if hasattr(n, "ctx"):
            n.ctx = ast.Load()
    return _dump(e)


def _masked_dump(e) -> str:
    """Dump with every plain name masked: an ordering key that does not depend on local names."""
    e = copy.deepcopy(e)
    for n in ast.walk(e):
        if isinstance(n, ast.Name):
            n.id = "_"
    return _dump(e)


def _list_names(fn) -> Set[str]:
    """Locals every definition of which is syntactically a list."""
    defs: Dict[str, List[ast.expr]] = {}
    other: Set[str] = set(_params(fn))
    for n in _walk_no_nested(fn):
        if isinstance(n, ast.Assign):
            for t in n.targets:
                if isinstance(t, ast.Name):
                    defs.setdefault(t.id, []).append(n.value)
                else:
                    for x in ast.walk(t):
                        if isinstance(x, ast.Name) and isinstance(x.ctx, ast.Store):
                            other.add(x.id)
        elif isinstance(n, (ast.For, ast.comprehension)):
            for x in ast.walk(n.target):
                if isinstance(x, ast.Name):
                    other.add(x.id)
        elif isinstance(n, ast.AugAssign) and isinstance(n.target, ast.Name):
            if not (isinstance(n.op, ast.Add) and isinstance(n.value, (ast.List, ast.ListComp))):
                other.add(n.target.id)
        elif isinstance(n, (ast.With, ast.AsyncWith)):
            for it in n.items:
                if it.optional_vars is not None:
                    for x in ast.walk(it.optional_vars):
                        if isinstance(x, ast.Name):
                            other.add(x.id)
    out: Set[str] = set()
    for _ in range(3):
        for name, vals in defs.items():
            if name not in other and all(_is_list_expr(v, out) for v in vals):
                out.add(name)
    return out


def _copy_overwrite(fn):
    """for i in range(len(L)): t = L[:] ; t[i] = E(t[i]) ; ...   ->   t = L[:i] + [E(L[i])] + L[i + 1:]"""
    for n in [fn] + list(_walk_no_nested(fn)):
        if not (isinstance(n, ast.For) and isinstance(n.target, ast.Name) and isinstance(n.iter, ast.Call) and isinstance(n.iter.func, ast.Name) and n.iter.func.id == "range" and len(n.iter.args) == 1):
            continue
        a = n.iter.args[0]
        if not (isinstance(a, ast.Call) and isinstance(a.func, ast.Name) and a.func.id == "len" and len(a.args) == 1 and isinstance(a.args[0], ast.Name)):
            continue
        L, i = a.args[0].id, n.target.id
        body = n.body
        for k in range(len(body) - 1):
            s1, s2 = body[k], body[k + 1]
            if not (isinstance(s1, ast.Assign) and len(s1.targets) == 1 and isinstance(s1.targets[0], ast.Name)):
                continue
            t = s1.targets[0].id
            v = s1.value
            is_copy = (isinstance(v, ast.Subscript) and isinstance(v.value, ast.Name) and v.value.id == L and isinstance(v.slice, ast.Slice) and v.slice.lower is None and v.slice.upper is None and v.slice.step is None) or (
                isinstance(v, ast.Call) and isinstance(v.func, ast.Name) and v.func.id == "list" and len(v.args) == 1 and isinstance(v.args[0], ast.Name) and v.args[0].id == L)
            if not is_copy:
                continue
            if not (isinstance(s2, ast.Assign) and len(s2.targets) == 1 and isinstance(s2.targets[0], ast.Subscript) and isinstance(s2.targets[0].value, ast.Name) and s2.targets[0].value.id == t
                    and isinstance(s2.targets[0].slice, ast.Name) and s2.targets[0].slice.id == i):
                continue
            e = copy.deepcopy(s2.value)
            bad = False
            for x in ast.walk(e):
                if isinstance(x, ast.Name) and x.id == t:
                    x.id = L  # t[i] read before the overwrite is L[i]
            if any(isinstance(x, ast.Name) and x.id == t for x in ast.walk(e)) or bad or _impure(e):
                continue
            idx = lambda: ast.Name(id=i, ctx=ast.Load())  # noqa: E731
            left = ast.Subscript(value=ast.Name(id=L, ctx=ast.Load()), slice=ast.Slice(lower=None, upper=idx(), step=None), ctx=ast.Load())
            right = ast.Subscript(value=ast.Name(id=L, ctx=ast.Load()), slice=ast.Slice(lower=ast.BinOp(left=idx(), op=ast.Add(), right=ast.Constant(value=1)), upper=None, step=None), ctx=ast.Load())
            new_v = ast.BinOp(left=ast.BinOp(left=left, op=ast.Add(), right=ast.List(elts=[e], ctx=ast.Load())), op=ast.Add(), right=right)
            body[k:k + 2] = [ast.Assign(targets=[ast.Name(id=t, ctx=ast.Store())], value=new_v)]
            break
    return fn


def _dict_forward(fn):
    """d.update({"k": e, ...}) / d["k"] = e   ...   d["k"]   ->   e, for a local dict d and a constant
    key, when nothing between the write and the read can change d["k"] or what e reads (e is a name
    or a constant)."""
    order, chain = _stmt_positions(fn)
    stmt_of = _stmt_of(fn)
    params = set(_params(fn))
    for owner, f, stmts in _blocks(fn):
        for i, st in enumerate(stmts):
            writes: Dict[str, ast.expr] = {}
            dname = None
            if isinstance(st, ast.Expr) and isinstance(st.value, ast.Call) and isinstance(st.value.func, ast.Attribute) and st.value.func.attr == "update" and isinstance(st.value.func.value, ast.Name) and len(st.value.args) == 1 and isinstance(st.value.args[0], ast.Dict):
                dname = st.value.func.value.id
                for k, v in zip(st.value.args[0].keys, st.value.args[0].values):
                    if isinstance(k, ast.Constant) and not _impure(v):
                        writes[repr(k.value)] = v
            elif isinstance(st, ast.Assign) and len(st.targets) == 1 and isinstance(st.targets[0], ast.Subscript) and isinstance(st.targets[0].value, ast.Name) and isinstance(st.targets[0].slice, ast.Constant) and not _impure(st.value):
                dname = st.targets[0].value.id
                writes[repr(st.targets[0].slice.value)] = st.value
            if not writes or dname in params:
                continue
            # reads later in the same block (nested allowed), until d or a value's name is written
            for later in stmts[i + 1:]:
                stop = False
                for n in [later] + list(_walk_no_nested(later)):
                    if isinstance(n, ast.Subscript) and isinstance(n.ctx, ast.Load) and isinstance(n.value, ast.Name) and n.value.id == dname and isinstance(n.slice, ast.Constant) and repr(n.slice.value) in writes:
                        if not isinstance(later, (ast.For, ast.While)):
                            _replace_node(later, n, copy.deepcopy(writes[repr(n.slice.value)]))
                ef = _effects(later)
                read_names = set()
                reads_state = False
                for v in writes.values():
                    read_names |= _names_loaded(v) - _comp_bound(v)
                    reads_state = reads_state or any(isinstance(x, (ast.Attribute, ast.Subscript, ast.Call)) for x in ast.walk(v))
                if dname in ef.writes or (read_names & ef.writes) or (reads_state and (ef.opaque or ef.attr_writes)):
                    stop = True
                # d passed to something that may change it
                for n in [later] + list(_walk_no_nested(later)):
                    if isinstance(n, ast.Call) and any(isinstance(a, ast.Name) and a.id == dname for a in list(n.args) + [k.value for k in n.keywords]) and not _pure_callee(n):
                        stop = True
                if stop or isinstance(later, (ast.For, ast.While)):
                    break
    ast.fix_missing_locations(fn)
    return fn


def _enumerate_start(fn):
    """for i, x in enumerate(L, start=k)  ->  for i, x in enumerate(L)  with i replaced by i + k."""
    for n in [fn] + list(_walk_no_nested(fn)):
        if not (isinstance(n, ast.For) and isinstance(n.iter, ast.Call) and isinstance(n.iter.func, ast.Name) and n.iter.func.id == "enumerate"):
            continue
        c = n.iter
        start = None
        if len(c.args) == 2 and not c.keywords:
            start = c.args[1]
        elif len(c.args) == 1 and len(c.keywords) == 1 and c.keywords[0].arg == "start":
            start = c.keywords[0].value
        if start is None or not (isinstance(start, ast.Constant) and type(start.value) is int and start.value != 0):
            continue
        if not (isinstance(n.target, ast.Tuple) and len(n.target.elts) == 2 and isinstance(n.target.elts[0], ast.Name)):
            continue
        i = n.target.elts[0].id
        if any(isinstance(x, ast.Name) and x.id == i and isinstance(x.ctx, ast.Store) for st in n.body for x in ast.walk(st)):
            continue
        for st in n.body:
            for x in list(ast.walk(st)):
                if isinstance(x, ast.Name) and x.id == i and isinstance(x.ctx, ast.Load):
                    _replace_node(st, x, ast.BinOp(left=ast.Name(id=i, ctx=ast.Load()), op=ast.Add(), right=ast.Constant(value=start.value)))
        c.args = [c.args[0]]
        c.keywords = []
    ast.fix_missing_locations(fn)
    return fn


def _enumerate_to_range(fn):
    """for i, x in enumerate(L)  ->  for i in range(len(L))  with x replaced by L[i], when L is a
    name that the loop body neither re-binds nor changes and that the body slices unconditionally
    (``L[:]``, ``L[a:b]``: evidence that L is a sequence, for which the two spellings agree)."""
    for n in list(_walk_no_nested(fn)):
        if not (isinstance(n, ast.For) and isinstance(n.iter, ast.Call) and isinstance(n.iter.func, ast.Name) and n.iter.func.id == "enumerate"
                and len(n.iter.args) == 1 and not n.iter.keywords and isinstance(n.iter.args[0], ast.Name)):
            continue
        tg = n.target
        if not (isinstance(tg, ast.Tuple) and len(tg.elts) == 2 and all(isinstance(x, ast.Name) for x in tg.elts)):
            continue
        i, x, L = tg.elts[0].id, tg.elts[1].id, n.iter.args[0].id
        if len({i, x, L}) != 3:
            continue
        ef = _effects(ast.Module(body=n.body, type_ignores=[]))
        if ef.opaque or {i, x, L} & ef.writes or L in ef.attr_bases:
            continue
        if _yield_is_barrier(fn) and any(isinstance(y, (ast.Yield, ast.YieldFrom)) for st in n.body for y in ast.walk(st)):
            continue
        sliced = False
        for st in n.body:
            if isinstance(st, (ast.Assign, ast.Expr, ast.AugAssign)):
                if any(isinstance(y, ast.Subscript) and isinstance(y.slice, ast.Slice) and isinstance(y.value, ast.Name) and y.value.id == L and isinstance(y.ctx, ast.Load) for y in ast.walk(st)):
                    sliced = True
                    break
            else:
                break
        if not sliced:
            continue
        # x must not be read after the loop (it would be unbound / stale in the other spelling)
        inside = {id(y) for st in n.body for y in ast.walk(st)}
        if any(isinstance(y, ast.Name) and y.id == x and id(y) not in inside and y is not tg.elts[1] for y in ast.walk(fn)):
            continue
        look = ast.Subscript(value=ast.Name(id=L, ctx=ast.Load()), slice=ast.Name(id=i, ctx=ast.Load()), ctx=ast.Load())
        for st in n.body:
            for y in list(ast.walk(st)):
                if isinstance(y, ast.Name) and y.id == x and isinstance(y.ctx, ast.Load):
                    _replace_node(st, y, copy.deepcopy(look))
        n.target = ast.Name(id=i, ctx=ast.Store())
        n.iter = ast.Call(func=ast.Name(id="range", ctx=ast.Load()), args=[ast.Call(func=ast.Name(id="len", ctx=ast.Load()), args=[ast.Name(id=L, ctx=ast.Load())], keywords=[])], keywords=[])
    ast.fix_missing_locations(fn)
    return fn


def _enumerate_to_range_comp(fn):
    """[f(i, x) for i, x in enumerate(L)]  ->  [f(i, L[i]) for i in range(len(L))]  when the element
    slices L (evidence of a sequence); comprehensions have no statements that could change L."""
    for comp in list(_walk_no_nested(fn)):
        if not isinstance(comp, (ast.ListComp, ast.SetComp, ast.GeneratorExp, ast.DictComp)) or len(comp.generators) != 1:
            continue
        g = comp.generators[0]
        it, tg = g.iter, g.target
        if not (isinstance(it, ast.Call) and isinstance(it.func, ast.Name) and it.func.id == "enumerate" and len(it.args) == 1 and not it.keywords and isinstance(it.args[0], ast.Name)):
            continue
        if not (isinstance(tg, ast.Tuple) and len(tg.elts) == 2 and all(isinstance(x, ast.Name) for x in tg.elts)):
            continue
        i, x, L = tg.elts[0].id, tg.elts[1].id, it.args[0].id
        if len({i, x, L}) != 3:
            continue
        parts = ([comp.key, comp.value] if isinstance(comp, ast.DictComp) else [comp.elt]) + list(g.ifs)
        if g.ifs:
            continue  # a filtered element may never evaluate the slice
        if not any(isinstance(y, ast.Subscript) and isinstance(y.slice, ast.Slice) and isinstance(y.value, ast.Name) and y.value.id == L for p_ in parts for y in ast.walk(p_)):
            continue
        if any(_impure(p_) for p_ in parts):
            continue
        look = ast.Subscript(value=ast.Name(id=L, ctx=ast.Load()), slice=ast.Name(id=i, ctx=ast.Load()), ctx=ast.Load())
        for p_ in parts:
            for y in list(ast.walk(p_)):
                if isinstance(y, ast.Name) and y.id == x and isinstance(y.ctx, ast.Load):
                    if not _replace_node(comp, y, copy.deepcopy(look)):
                        pass
        g.target = ast.Name(id=i, ctx=ast.Store())
        g.iter = ast.Call(func=ast.Name(id="range", ctx=ast.Load()), args=[ast.Call(func=ast.Name(id="len", ctx=ast.Load()), args=[ast.Name(id=L, ctx=ast.Load())], keywords=[])], keywords=[])
    ast.fix_missing_locations(fn)
    return fn


def _items_to_keys(fn):
    """for k, v in D.items()  ->  for k in D  with v replaced by D[k]  (comprehensions, and loops whose
    body does not write D): one normal form for the two spellings."""
    for n in [fn] + list(_walk_no_nested(fn)):
        gens = []
        if isinstance(n, (ast.ListComp, ast.SetComp, ast.DictComp, ast.GeneratorExp)):
            gens = [(g, n) for g in n.generators]
        elif isinstance(n, ast.For):
            gens = [(n, n)]
        for g, scope in gens:
            it, tg = g.iter, g.target
            if not (isinstance(it, ast.Call) and isinstance(it.func, ast.Attribute) and it.func.attr == "items" and not it.args and not it.keywords and _is_place(it.func.value)):
                continue
            if not (isinstance(tg, ast.Tuple) and len(tg.elts) == 2 and all(isinstance(x, ast.Name) for x in tg.elts)):
                continue
            k, v = tg.elts[0].id, tg.elts[1].id
            D = it.func.value
            if isinstance(scope, ast.For):
                ef = _effects(ast.Module(body=scope.body, type_ignores=[]))
                base = D
                while isinstance(base, (ast.Attribute, ast.Subscript)):
                    base = base.value
                attrs = {x.attr for x in ast.walk(D) if isinstance(x, ast.Attribute)}
                if ef.opaque or base.id in ef.writes or (attrs & ef.attr_writes) or k in ef.writes or v in ef.writes:
                    continue
                region = scope.body
            else:
                region = [scope]
            # v must not be re-bound in the region (other generators)
            rebound = False
            for r in region:
                for x in ast.walk(r):
                    if isinstance(x, ast.Name) and x.id == v and isinstance(x.ctx, ast.Store) and x is not tg.elts[1]:
                        rebound = True
            if rebound:
                continue
            look = ast.Subscript(value=copy.deepcopy(D), slice=ast.Name(id=k, ctx=ast.Load()), ctx=ast.Load())
            for r in region:
                for x in list(ast.walk(r)):
                    if isinstance(x, ast.Name) and x.id == v and isinstance(x.ctx, ast.Load):
                        _replace_node(r, x, copy.deepcopy(look))
            g.target = ast.Name(id=k, ctx=ast.Store())
            g.iter = D
    ast.fix_missing_locations(fn)
    return fn


def _fresh_list_expr(e, list_names: Set[str]) -> bool:
    """A list object nobody else holds: a display, a comprehension, list()/sorted(), a concatenation, a slice copy."""
    if isinstance(e, (ast.List, ast.ListComp)):
        return True
    if isinstance(e, ast.Call) and isinstance(e.func, ast.Name) and e.func.id in LIST_MAKERS:
        return True
    if isinstance(e, ast.BinOp) and isinstance(e.op, ast.Add):
        return _is_list_expr(e.left, list_names) and _is_list_expr(e.right, list_names)
    if isinstance(e, ast.Subscript) and isinstance(e.slice, ast.Slice):
        return _is_list_expr(e.value, list_names)
    return False


def _merge_list_extension(fn):
    """x = <fresh list A> ; x += <list B>   ->   x = A + B    (adjacent statements, B does not mention x:
    the object bound to x is unshared when it is extended, so in-place extension and concatenation give
    the same list to the only holder)."""
    ln = _list_names(fn)
    for owner, f, stmts in _blocks(fn):
        k = 0
        while k + 1 < len(stmts):
            a, b = stmts[k], stmts[k + 1]
            # x.append(e) / x.extend(<list>) on the name just bound to a fresh list is x += [e] / x += <list>
            if (isinstance(a, ast.Assign) and len(a.targets) == 1 and isinstance(a.targets[0], ast.Name) and isinstance(b, ast.Expr) and isinstance(b.value, ast.Call)
                    and isinstance(b.value.func, ast.Attribute) and isinstance(b.value.func.value, ast.Name) and b.value.func.value.id == a.targets[0].id
                    and b.value.func.attr in ("append", "extend") and len(b.value.args) == 1 and not b.value.keywords and _fresh_list_expr(a.value, ln)):
                arg = b.value.args[0]
                if b.value.func.attr == "append":
                    b = ast.AugAssign(target=ast.Name(id=a.targets[0].id, ctx=ast.Store()), op=ast.Add(), value=ast.List(elts=[arg], ctx=ast.Load()))
                elif _is_list_expr(arg, ln):
                    b = ast.AugAssign(target=ast.Name(id=a.targets[0].id, ctx=ast.Store()), op=ast.Add(), value=arg)
            if (isinstance(a, ast.Assign) and len(a.targets) == 1 and isinstance(a.targets[0], ast.Name)
                    and isinstance(b, ast.AugAssign) and isinstance(b.op, ast.Add) and isinstance(b.target, ast.Name) and b.target.id == a.targets[0].id
                    and _fresh_list_expr(a.value, ln) and _is_list_expr(b.value, ln) and a.targets[0].id not in _names_loaded(b.value)
                    and a.targets[0].id not in _names_loaded(a.value)):
                empty = isinstance(a.value, ast.List) and not a.value.elts
                stmts[k] = ast.Assign(targets=[a.targets[0]], value=(b.value if empty and _fresh_list_expr(b.value, ln) else ast.BinOp(left=a.value, op=ast.Add(), right=b.value)))
                del stmts[k + 1]
                continue
            k += 1
    ast.fix_missing_locations(fn)
    return fn


_SERIES_NA = ("isna", "isnull", "notna", "notnull")


def _series_any(fn):
    """After `assert isinstance(y, Series)` on a name the function never rebinds, the truth value of
    any(y.isna()) is that of y.isna().any() (iteration over a Series yields its elements; a DataFrame
    would yield column names, hence the type evidence)."""
    stored = {n.id for n in _walk_no_nested(fn) if isinstance(n, ast.Name) and isinstance(n.ctx, (ast.Store, ast.Del))}

    class T(ast.NodeTransformer):
        def __init__(self, names):
            self.names = names

        def visit_Call(self, n):
            self.generic_visit(n)
            if isinstance(n.func, ast.Name) and n.func.id in ("any", "all") and len(n.args) == 1 and not n.keywords:
                a = n.args[0]
                if isinstance(a, ast.Call) and isinstance(a.func, ast.Attribute) and a.func.attr in _SERIES_NA and not a.args and not a.keywords and isinstance(a.func.value, ast.Name) and a.func.value.id in self.names:
                    return ast.Call(func=ast.Attribute(value=a, attr=n.func.id, ctx=ast.Load()), args=[], keywords=[])
            return n

    def tests_of(st):
        if isinstance(st, (ast.If, ast.While, ast.Assert)):
            return [("test", st.test)]
        return []

    def walk(stmts, names):
        names = set(names)
        for st in stmts:
            if names:
                # only expressions whose truth value alone is used (bool vs numpy.bool_ is then immaterial)
                for x in [st] + list(_walk_no_nested(st)):
                    if isinstance(x, (ast.If, ast.While, ast.Assert, ast.IfExp)):
                        x.test = T(names).visit(x.test)
            for f in ("body", "orelse", "finalbody"):
                sub = getattr(st, f, None)
                if isinstance(sub, list) and sub and isinstance(sub[0], ast.stmt) and not isinstance(st, (ast.FunctionDef, ast.ClassDef)):
                    walk(sub, names)
            if isinstance(st, ast.Assert):
                t = st.test
                if isinstance(t, ast.Call) and isinstance(t.func, ast.Name) and t.func.id == "isinstance" and len(t.args) == 2 and isinstance(t.args[0], ast.Name) and unparse_name(t.args[1]) in ("Series", "pd.Series", "pandas.Series") and t.args[0].id not in stored:
                    names.add(t.args[0].id)

    walk(fn.body, set())
    ast.fix_missing_locations(fn)
    return fn


def expressions(fn):
    fn = _merge_list_extension(fn)
    fn = _series_any(fn)
    fn = _copy_overwrite(fn)
    fn = _items_to_keys(fn)
    fn = _enumerate_start(fn)
    fn = _enumerate_to_range(fn)
    fn = _enumerate_to_range_comp(fn)
    fn = _dict_forward(fn)
    fn = _ExprCanon(_list_names(fn)).visit(fn)
    # P = P
    for owner, f, stmts in _blocks(fn):
        kept = []
        for st in stmts:
            if isinstance(st, ast.Assign) and len(st.targets) == 1 and _is_place(st.value) and _dump_noctx(st.targets[0]) == _dump_noctx(st.value):
                continue
            kept.append(st)
        setattr(owner, f, kept)
    # a, b = e1, e2  ->  a = e1 ; b = e2   (when independent)   and   a, b, c = (None,) * 3
    for owner, f, stmts in _blocks(fn):
        new: List[ast.stmt] = []
        for st in stmts:
            if isinstance(st, ast.Assign) and len(st.targets) == 1 and isinstance(st.targets[0], ast.Tuple) and not any(isinstance(t, ast.Starred) for t in st.targets[0].elts):
                tgts = st.targets[0].elts
                names = [x.id for t in tgts for x in ast.walk(t) if isinstance(x, ast.Name)]
                only_names = all(isinstance(x, (ast.Name, ast.Tuple)) for t in tgts for x in ast.walk(t) if not isinstance(x, ast.expr_context))
                v = st.value
                vals = None
                if isinstance(v, ast.Tuple) and len(v.elts) == len(tgts):
                    vals = v.elts
                elif isinstance(v, ast.BinOp) and isinstance(v.op, ast.Mult) and isinstance(v.left, ast.Tuple) and len(v.left.elts) == 1 and isinstance(v.left.elts[0], ast.Constant) and isinstance(v.right, ast.Constant) and v.right.value == len(tgts):
                    vals = [copy.deepcopy(v.left.elts[0]) for _ in tgts]
                # t1 = e1 ; t2 = e2 ... in this order: a later value must not read an earlier target
                seq_ok = vals is not None and all(isinstance(t, ast.Name) for t in tgts) and len(set(names)) == len(names) and not any(
                    tgts[i].id in _names_loaded(vals[j]) for i in range(len(tgts)) for j in range(i + 1, len(tgts)))
                if only_names and vals is not None and (seq_ok or not any(set(names) & _names_loaded(x) for x in vals)) and not any(_impure(x) for x in vals):
                    for t, x in zip(tgts, vals):
                        new.append(ast.Assign(targets=[t], value=x))
                    continue
            new.append(st)
        setattr(owner, f, new)
    ast.fix_missing_locations(fn)
    return fn


# ---------------------------------------------------------------------------------------------
# pass 5: single-assignment temporaries are replaced by their definition
# ---------------------------------------------------------------------------------------------
def _stmt_positions(fn):
    """Pre-order index of every statement, its block, and the chain of enclosing statements."""
    order: Dict[int, int] = {}
    chain: Dict[int, List[ast.stmt]] = {}
    counter = [0]

    def rec(stmts, parents):
        for st in stmts:
            order[id(st)] = counter[0]
            chain[id(st)] = parents
            counter[0] += 1
            for f in ("body", "orelse", "finalbody"):
                v = getattr(st, f, None)
                if isinstance(v, list) and v and isinstance(v[0], ast.stmt) and not isinstance(st, (ast.FunctionDef, ast.AsyncFunctionDef, ast.ClassDef)):
                    rec(v, parents + [st])
            if isinstance(st, ast.Try):
                for h in st.handlers:
                    rec(h.body, parents + [st])

    rec(fn.body, [])
    return order, chain


def _stmt_of(fn):
    """Map id(expression node) -> enclosing statement."""
    out: Dict[int, ast.stmt] = {}

    def rec(stmts):
        for st in stmts:
            if isinstance(st, (ast.FunctionDef, ast.AsyncFunctionDef, ast.ClassDef)):
                continue
            for fname, val in ast.iter_fields(st):
                if fname in ("body", "orelse", "finalbody", "handlers"):
                    continue
                vals = val if isinstance(val, list) else [val]
                for v in vals:
                    if isinstance(v, ast.AST):
                        for n in ast.walk(v):
                            out[id(n)] = st
            for f in ("body", "orelse", "finalbody"):
                v = getattr(st, f, None)
                if isinstance(v, list) and v and isinstance(v[0], ast.stmt):
                    rec(v)
            if isinstance(st, ast.Try):
                for h in st.handlers:
                    rec(h.body)

    rec(fn.body)
    return out


def _write_effects(st) -> Tuple[Set[str], Set[str], bool]:
    """(names stored / mutated, attribute names stored / mutated, calls something that may write
    fitted state) for the statement's own expressions and nested statements."""
    names: Set[str] = set()
    attrs: Set[str] = set()
    opaque = False
    comp_targets = {id(x) for c in [st] + list(_walk_no_nested(st)) if isinstance(c, ast.comprehension) for x in ast.walk(c.target)}
    for n in [st] + list(_walk_no_nested(st)):
        if isinstance(n, ast.Name) and isinstance(n.ctx, (ast.Store, ast.Del)):
            if id(n) not in comp_targets:
                names.add(n.id)
        elif isinstance(n, (ast.Attribute, ast.Subscript)) and isinstance(n.ctx, (ast.Store, ast.Del)):
            base = n
            while isinstance(base, (ast.Attribute, ast.Subscript)):
                if isinstance(base, ast.Attribute):
                    attrs.add(base.attr)
                base = base.value
            if isinstance(base, ast.Name):
                names.add(base.id)
        elif isinstance(n, ast.AugAssign):
            pass
        elif isinstance(n, ast.Call):
            if isinstance(n.func, ast.Attribute) and n.func.attr in MUTATORS:
                base = n.func.value
                while isinstance(base, (ast.Attribute, ast.Subscript, ast.Call)):
                    if isinstance(base, ast.Attribute):
                        attrs.add(base.attr)
                    base = base.func if isinstance(base, ast.Call) else base.value
                if isinstance(base, ast.Name):
                    names.add(base.id)
            if isinstance(n.func, ast.Attribute) and isinstance(n.func.value, ast.Name) and n.func.value.id == "self" and not (n.func.attr in _PURE_FUNCS or n.func.attr in _LIB_PURE_METHODS):
                opaque = True
            if isinstance(n.func, ast.Attribute) and isinstance(n.func.value, ast.Call) and isinstance(n.func.value.func, ast.Name) and n.func.value.func.id == "super":
                opaque = True
            if isinstance(n.func, ast.Name) and n.func.id in _REPO_FUNCS and n.func.id not in _PURE_FUNCS:
                ma = _mutated_args(n)
                if ma is None:
                    opaque = True
                else:
                    names |= ma  # the function only changes these arguments
            if any(k.arg == "inplace" for k in n.keywords):
                opaque = True
        elif isinstance(n, (ast.Yield, ast.YieldFrom)) and _YIELD_OPAQUE:
            opaque = True  # the consumer of the generator runs here
    return names, attrs, opaque


def inline_temporaries(fn, only=None):
    global _YIELD_OPAQUE
    _YIELD_OPAQUE = _yield_is_barrier(fn)
    if _has_nested_scope(fn):
        nested_free = set()
        for n in _walk_no_nested(fn):
            if isinstance(n, (ast.Lambda, ast.FunctionDef, ast.AsyncFunctionDef)):
                nested_free |= {x.id for x in ast.walk(n) if isinstance(x, ast.Name)}
    else:
        nested_free = set()
    for _round in range(12):
        params = set(_params(fn))
        fresh_locals = _fresh_locals(fn, wide=True)
        stores: Dict[str, List[ast.Name]] = {}
        loads: Dict[str, List[ast.Name]] = {}
        for n in _walk_no_nested(fn):
            if isinstance(n, ast.Name):
                (stores if isinstance(n.ctx, (ast.Store, ast.Del)) else loads).setdefault(n.id, []).append(n)
        order, chain = _stmt_positions(fn)
        stmt_of = _stmt_of(fn)
        all_stmts = {}
        for owner, f, stmts in _blocks(fn):
            for st in stmts:
                all_stmts[id(st)] = (owner, f, st)
        done = False
        for owner, f, stmts in _blocks(fn):
            for idx, st in enumerate(stmts):
                if not (isinstance(st, ast.Assign) and len(st.targets) == 1 and isinstance(st.targets[0], ast.Name)):
                    continue
                v = st.targets[0].id
                if v in params or v in nested_free or len(stores.get(v, [])) != 1:
                    continue
                if only is not None and not only(v):
                    continue
                rhs = st.value
                if isinstance(rhs, (ast.Lambda,)):
                    continue
                uses = loads.get(v, [])
                if not uses:
                    continue
                if _impure(rhs):
                    # an effectful call bound to a name that is used exactly once, in the very next
                    # statement, where it is the only effectful thing: `t = f(x) ; return g(t)`
                    nxt = stmts[idx + 1] if idx + 1 < len(stmts) else None
                    if not (len(uses) == 1 and nxt is not None and stmt_of.get(id(uses[0])) is nxt and isinstance(nxt, (ast.Assign, ast.Return, ast.Expr))):
                        continue
                    probe = copy.deepcopy(nxt)
                    if _impure(probe) or any(isinstance(x, (ast.ListComp, ast.DictComp, ast.SetComp, ast.GeneratorExp, ast.Lambda, ast.IfExp, ast.BoolOp)) for x in ast.walk(nxt)):
                        continue
                    _replace_node(fn, uses[0], copy.deepcopy(rhs))
                    stmts.pop(idx)
                    done = True
                    break
                # the variable itself is never mutated / used as a store base
                mutated = False
                rebinding = False
                for n in _walk_no_nested(fn):
                    if isinstance(n, ast.Call) and isinstance(n.func, ast.Attribute) and isinstance(n.func.value, ast.Name) and n.func.value.id == v and n.func.attr in MUTATORS and n.func.attr not in PANDAS_PURE:
                        mutated = True
                    if (isinstance(n, ast.Call) and isinstance(n.func, ast.Attribute) and isinstance(n.func.value, ast.Name) and n.func.value.id == v
                            and n.func.attr in _REPO_FUNCS and n.func.attr not in _PURE_FUNCS and n.func.attr not in _LIB_PURE_METHODS):
                        mutated = True  # a method of a repository class that may change its receiver (fit, group ...)
                    if isinstance(n, (ast.Subscript, ast.Attribute)) and isinstance(n.ctx, (ast.Store, ast.Del)):
                        base = n
                        while isinstance(base, (ast.Attribute, ast.Subscript)):
                            base = base.value
                        if isinstance(base, ast.Name) and base.id == v:
                            mutated = True
                    if isinstance(n, ast.AugAssign) and isinstance(n.target, ast.Name) and n.target.id == v:
                        mutated = True
                        rebinding = True
                    if isinstance(n, ast.Call) and any(k.arg == "inplace" for k in n.keywords) and isinstance(n.func, ast.Attribute) and isinstance(n.func.value, ast.Name) and n.func.value.id == v:
                        mutated = True
                # a temporary that merely names an existing place (x = d[k] ; x.append(v) ; d[k] = x) may
                # be replaced by the place even though it is mutated: the same object is mutated
                is_place = _is_place(rhs) and not rebinding
                if mutated and not is_place:
                    continue
                fresh = isinstance(rhs, (ast.List, ast.ListComp, ast.Dict, ast.DictComp, ast.Set, ast.SetComp, ast.Call, ast.BinOp))
                if len(uses) > 1 and fresh:
                    # several uses of one fresh object: only if every use is a plain read (never an
                    # argument of a call that could keep or change it)
                    ok = True
                    par = {}
                    for n in _walk_no_nested(fn):
                        for ch in ast.iter_child_nodes(n):
                            par[id(ch)] = n
                    for u in uses:
                        p = par.get(id(u))
                        if isinstance(p, ast.Call) and u in p.args and not _pure_callee(p):
                            ok = False
                        if isinstance(p, ast.keyword):
                            pc = par.get(id(p))
                            if not (isinstance(pc, ast.Call) and _pure_callee(pc)):
                                ok = False
                        if isinstance(p, (ast.Return, ast.Assign)) and getattr(p, "value", None) is u:
                            ok = False  # escapes under another name
                        if isinstance(p, (ast.List, ast.Tuple, ast.Dict, ast.Set)) and not getattr(p, "_acsa_msg", False):
                            ok = False
                    if not ok:
                        continue
                # every use is after the definition, inside the block of the definition (or nested)
                d_pos = order[id(st)]
                use_stmts = []
                ok = True
                for u in uses:
                    us = stmt_of.get(id(u))
                    if us is None or order.get(id(us), -1) <= d_pos:
                        ok = False
                        break
                    top = us
                    anc = chain[id(us)]
                    if st in stmts and not (us in stmts or any(a in stmts for a in anc)):
                        ok = False
                        break
                    # a use inside a loop that does not contain the definition re-evaluates the
                    # expression at every iteration: fine for a pure expression whose inputs are not
                    # written in the loop (checked below through the range of statements)
                    use_stmts.append(us)
                if not ok:
                    continue
                first = min(order[id(u)] for u in use_stmts)
                last = max(order[id(u)] for u in use_stmts)
                # the range of statements to look at: between definition and last use; when a use
                # sits in a loop, the whole loop
                lo, hi = d_pos + 1, last
                for us in use_stmts:
                    for a in chain[id(us)]:
                        if isinstance(a, (ast.For, ast.While)) and order[id(a)] > d_pos:
                            sub_last = max(order[id(x)] for x in [a] + [s for s in ast.walk(a) if isinstance(s, ast.stmt) and id(s) in order])
                            hi = max(hi, sub_last)
                reads = _names_loaded(rhs) - _comp_bound(rhs)
                read_attrs = {n.attr for n in ast.walk(rhs) if isinstance(n, ast.Attribute)}
                reads_state = bool(read_attrs) or any(isinstance(n, ast.Subscript) for n in ast.walk(rhs))
                # a call reads the state of its arguments (len(L), list(d)): that of an object built in
                # this function can only be changed by a statement that mentions it, anything else
                # (a parameter, an alias of a field) by any call the model does not know
                call_reads = {x.id for c_ in ast.walk(rhs) if isinstance(c_, ast.Call) for a_ in list(c_.args) + [k_.value for k_ in c_.keywords] for x in ast.walk(a_) if isinstance(x, ast.Name)} - _comp_bound(rhs)
                if call_reads - fresh_locals:
                    reads_state = True
                bad = False
                for sid, (o2, f2, s2) in all_stmts.items():
                    p2 = order.get(sid)
                    if p2 is None or p2 < lo or p2 > hi:
                        continue
                    is_use_stmt = any(s2 is us for us in use_stmts)
                    in_later_loop = any(isinstance(a_, (ast.For, ast.While)) and order[id(a_)] > d_pos for a_ in chain[id(s2)])
                    if is_use_stmt and p2 == last and not isinstance(s2, (ast.For, ast.While)) and sum(1 for us in use_stmts if us is s2) == 1 and not in_later_loop:
                        continue  # operands are evaluated before the statement takes effect (not so on the next iteration of a loop entered after the definition)
                    if isinstance(s2, (ast.Assert, ast.Raise)) and p2 < first:
                        bad = True
                        break
                    wn, wa, opaque = _write_effects(s2) if not isinstance(s2, (ast.If, ast.For, ast.While, ast.With, ast.Try)) else _header_effects(s2)
                    if wn & reads:
                        bad = True
                        break
                    if wa & read_attrs:
                        bad = True
                        break
                    if opaque and not reads_state and call_reads and call_reads & {x.id for x in ast.walk(s2) if isinstance(x, ast.Name)} and not (is_use_stmt and p2 == last):
                        bad = True
                        break
                    if opaque and reads_state and (not is_use_stmt or in_later_loop):
                        bad = True  # (a use inside a loop runs again after the statement's own call)
                        break
                    if opaque and reads_state and is_use_stmt and p2 != last:
                        bad = True
                        break
                if bad:
                    continue
                # substitute
                for u in uses:
                    _replace_node(fn, u, copy.deepcopy(rhs))
                stmts.pop(idx)
                if not stmts:
                    stmts.append(ast.Pass())
                done = True
                break
            if done:
                break
        if not done:
            break
        ast.fix_missing_locations(fn)
    return fn


def _comp_bound(e) -> Set[str]:
    out: Set[str] = set()
    for c in ast.walk(e):
        if isinstance(c, ast.comprehension):
            out |= {x.id for x in ast.walk(c.target) if isinstance(x, ast.Name)}
    return out


def split_variables(fn):
    """A name bound several times (plain assignments, `for` targets, a parameter that is re-assigned)
    whose live ranges are disjoint -- every use is reached by exactly one binding -- is split into one
    name per binding.  Pure renaming."""
    order, chain = _stmt_positions(fn)
    stmt_of = _stmt_of(fn)
    block_of: Dict[int, List[ast.stmt]] = {}
    for owner, f, stmts in _blocks(fn):
        for st in stmts:
            block_of[id(st)] = stmts
    params = set(_params(fn))
    stores: Dict[str, List[ast.Name]] = {}
    loads: Dict[str, List[ast.Name]] = {}
    comp_t = {id(x) for c in _walk_no_nested(fn) if isinstance(c, ast.comprehension) for x in ast.walk(c.target)}
    for_targets: Dict[int, ast.For] = {}
    for n in _walk_no_nested(fn):
        if isinstance(n, ast.For):
            for x in ast.walk(n.target):
                if isinstance(x, ast.Name):
                    for_targets[id(x)] = n
    nested_names: Set[str] = set()
    for n in _walk_no_nested(fn):
        if isinstance(n, (ast.Lambda, ast.FunctionDef, ast.AsyncFunctionDef)):
            nested_names |= {x.id for x in ast.walk(n) if isinstance(x, ast.Name)}
    # names bound by a comprehension are local to it: occurrences inside are not occurrences of the
    # function-level variable (except in the first iterable, evaluated outside)
    comp_local: Set[int] = set()
    for c in _walk_no_nested(fn):
        if isinstance(c, (ast.ListComp, ast.DictComp, ast.SetComp, ast.GeneratorExp)):
            bound = set()
            for g in c.generators:
                bound |= {x.id for x in ast.walk(g.target) if isinstance(x, ast.Name)}
            first_iter_ids = {id(x) for x in ast.walk(c.generators[0].iter)}
            for x in ast.walk(c):
                if isinstance(x, ast.Name) and x.id in bound and id(x) not in first_iter_ids:
                    comp_local.add(id(x))
    for n in _walk_no_nested(fn):
        if isinstance(n, ast.Name) and id(n) not in comp_t and id(n) not in comp_local:
            (stores if isinstance(n.ctx, (ast.Store, ast.Del)) else loads).setdefault(n.id, []).append(n)
    for v, sts in stores.items():
        n_defs = len(sts) + (1 if v in params else 0)
        if n_defs < 2 or v in nested_names or v == "self":
            continue
        # (position, scope block, node to rename or None for the parameter, loop or None)
        defs: List[Tuple[int, List[ast.stmt], Optional[ast.Name], Optional[ast.For], Optional[ast.stmt]]] = []
        ok = True
        if v in params:
            defs.append((-1, fn.body, None, None, None))
        for s in sts:
            if id(s) in for_targets:
                loop = for_targets[id(s)]
                defs.append((order[id(loop)], loop.body, s, loop, loop))
                continue
            st = stmt_of.get(id(s))
            plain = isinstance(st, ast.Assign) and len(st.targets) == 1 and st.targets[0] is s
            in_tuple = (isinstance(st, ast.Assign) and len(st.targets) == 1 and isinstance(st.targets[0], ast.Tuple)
                        and any(e is s for e in st.targets[0].elts) and all(isinstance(e, ast.Name) for e in st.targets[0].elts))
            if not (plain or in_tuple):
                ok = False
                break
            defs.append((order[id(st)], block_of[id(st)], s, None, st))
        if not ok:
            continue
        defs.sort(key=lambda d: d[0])
        if len({d[0] for d in defs}) != len(defs):
            continue
        # union-find over the bindings: two bindings that may reach a common use stay one variable
        parent = list(range(len(defs)))

        def find(i):
            while parent[i] != i:
                parent[i] = parent[parent[i]]
                i = parent[i]
            return i

        def union(i, j):
            parent[find(i)] = find(j)

        assign: Dict[int, int] = {}
        for u in loads.get(v, []):
            us = stmt_of.get(id(u))
            if us is None:
                ok = False
                break
            upos = order[id(us)]
            anc = [us] + chain[id(us)]
            in_header = lambda d: d[3] is not None and us is d[3]  # noqa: E731  (the for's own iterable)
            best = None
            for k, d in enumerate(defs):
                if d[0] > upos or (d[0] == upos and d[3] is None) or in_header(d):
                    continue
                if d[3] is not None:
                    if any(a in d[1] for a in anc):
                        best = k
                elif any(a in d[1] for a in anc) and d[0] < upos:
                    best = k
            if best is None:
                ok = False
                break
            d = defs[best]
            d_loops = [a for a in (chain[id(d[4])] if d[4] is not None else []) if isinstance(a, (ast.For, ast.While))] + ([d[3]] if d[3] is not None else [])
            for k, d2 in enumerate(defs):
                if k == best:
                    continue
                p2 = d2[0]
                if d[0] < p2 < upos:
                    union(k, best)  # a conditional / loop-local redefinition in between may or may not have run
                if p2 >= upos and d2[4] is not None:
                    loops2 = [a for a in chain[id(d2[4])] if isinstance(a, (ast.For, ast.While))] + ([d2[3]] if d2[3] is not None else [])
                    for L in loops2:
                        if L in anc and L not in d_loops:
                            # ... unless an unconditional later binding in the loop's own block
                            # overwrites it before the back edge (and no `continue` can skip that)
                            killed = any(
                                d3[0] > p2 and d3[3] is None and isinstance(d3[4], ast.Assign) and any(d3[4] is s_ for s_ in L.body)
                                and len(d3[4].targets) == 1 and isinstance(d3[4].targets[0], ast.Name)
                                for d3 in defs) and not any(isinstance(x_, ast.Continue) for x_ in ast.walk(L))
                            if not killed:
                                union(k, best)  # reaches the use through the loop's back edge
            assign[id(u)] = best
        if not ok:
            continue
        classes = sorted({find(k) for k in range(len(defs))})
        if len(classes) < 2:
            continue
        # the class of the first binding (the parameter, if any) keeps the name
        keep = find(0)
        label = {c: (None if c == keep else f"{v}__s{n}") for n, c in enumerate(classes)}
        for k, d in enumerate(defs):
            nm = label[find(k)]
            if nm is not None and d[2] is not None:
                d[2].id = nm
        for u in loads.get(v, []):
            nm = label[find(assign[id(u)])]
            if nm is not None:
                u.id = nm
    return fn


def _is_place(e) -> bool:
    """Name / attribute / subscript chain without calls: evaluating it yields an existing object."""
    while isinstance(e, (ast.Attribute, ast.Subscript)):
        if isinstance(e, ast.Subscript) and any(isinstance(x, ast.Call) for x in ast.walk(e.slice)):
            return False
        if isinstance(e, ast.Subscript) and isinstance(e.slice, ast.Slice):
            return False
        e = e.value
    return isinstance(e, ast.Name)


def _pure_callee(c: ast.Call) -> bool:
    """A call that neither changes nor keeps its arguments (as far as the model knows)."""
    f = c.func
    if any(k.arg == "inplace" for k in c.keywords):
        return False
    if isinstance(f, ast.Name):
        if f.id in _BUILTIN_PURE or f.id in ("unique", "isna", "notna", "isnan", "isfinite", "isclose", "crosstab", "kruskal", "chi2_contingency", "array", "select", "digitize", "in1d", "quantile", "argmin", "argmax"):
            return True
        return f.id in _PURE_FUNCS and not f.id[:1].isupper()
    if isinstance(f, ast.Attribute):
        if f.attr in ("update", "extend") and not (isinstance(f.value, ast.Name) and f.value.id == "self") and f.attr not in _REPO_FUNCS - {"update"}:
            return True  # dict.update / list.extend copy the entries of their argument: it is only read
        if f.attr in MUTATORS and f.attr not in PANDAS_PURE:
            return False
        if f.attr in _REPO_FUNCS and f.attr not in _LIB_PURE_METHODS:
            return f.attr in _PURE_FUNCS
        return True  # a pandas / numpy method
    return False


def _header_effects(st):
    """Effects of a compound statement's own header (test / iter / items), not of its blocks."""
    names: Set[str] = set()
    attrs: Set[str] = set()
    opaque = False
    parts = []
    if isinstance(st, (ast.If, ast.While)):
        parts = [st.test]
    elif isinstance(st, ast.For):
        parts = [st.iter]
        for n in ast.walk(st.target):
            if isinstance(n, ast.Name):
                names.add(n.id)
    elif isinstance(st, ast.With):
        parts = [i.context_expr for i in st.items]
        for i in st.items:
            if i.optional_vars is not None:
                for n in ast.walk(i.optional_vars):
                    if isinstance(n, ast.Name):
                        names.add(n.id)
    for p in parts:
        w = _write_effects(ast.Expr(value=p))
        names |= w[0]
        attrs |= w[1]
        opaque = opaque or w[2]
    return names, attrs, opaque


def _replace_node(root, old, new):
    for n in ast.walk(root):
        for fname, val in ast.iter_fields(n):
            if val is old:
                setattr(n, fname, new)
                return True
            if isinstance(val, list):
                for i, x in enumerate(val):
                    if x is old:
                        val[i] = new
                        return True
    return False


# ---------------------------------------------------------------------------------------------
# pass 6: canonical names and canonical order of independent statements
# ---------------------------------------------------------------------------------------------
class _Eff:
    __slots__ = ("reads", "writes", "attr_reads", "attr_writes", "opaque", "jump", "local_only", "bare_reads", "attr_bases", "total")


def _effects(st) -> _Eff:
    e = _Eff()
    e.reads, e.writes, e.attr_reads, e.attr_writes = set(), set(), set(), set()
    e.opaque = False
    e.jump = False
    e.bare_reads, e.attr_bases = set(), set()
    is_base = {id(n.value) for n in [st] + list(_walk_no_nested(st)) if isinstance(n, (ast.Attribute, ast.Subscript))}
    comp_t = {id(x) for c in [st] + list(_walk_no_nested(st)) if isinstance(c, ast.comprehension) for x in ast.walk(c.target)}
    bound = set()
    for c in [st] + list(_walk_no_nested(st)):
        if isinstance(c, ast.comprehension):
            bound |= {x.id for x in ast.walk(c.target) if isinstance(x, ast.Name)}
    for n in [st] + list(_walk_no_nested(st)):
        if isinstance(n, (ast.Return, ast.Raise, ast.Assert, ast.Continue, ast.Break, ast.Yield, ast.YieldFrom, ast.Global, ast.Nonlocal, ast.Import, ast.ImportFrom, ast.FunctionDef, ast.ClassDef, ast.Lambda, ast.With, ast.Try)):
            e.jump = "assert" if (isinstance(n, ast.Assert) and n is st and not e.jump) else True
        if isinstance(n, ast.Name) and id(n) not in comp_t and n.id not in bound:
            if isinstance(n.ctx, ast.Load):
                e.reads.add(n.id)
                if id(n) not in is_base:
                    e.bare_reads.add(n.id)
            else:
                e.writes.add(n.id)
        elif isinstance(n, ast.Attribute):
            if isinstance(n.ctx, ast.Load):
                e.attr_reads.add(n.attr)
            else:
                e.attr_writes.add(n.attr)
        if isinstance(n, (ast.Attribute, ast.Subscript)) and isinstance(n.ctx, (ast.Store, ast.Del)):
            base = n.value
            through_attr = isinstance(n, ast.Attribute)
            while isinstance(base, (ast.Attribute, ast.Subscript, ast.Call)):
                if isinstance(base, ast.Attribute):
                    e.attr_writes.add(base.attr)
                    through_attr = True
                base = base.func if isinstance(base, ast.Call) else base.value
            if isinstance(base, ast.Name):
                if through_attr:
                    e.attr_bases.add(base.id)  # an attribute of the object is written, not the name
                else:
                    e.writes.add(base.id)
        if isinstance(n, ast.AugAssign) and isinstance(n.target, ast.Name):
            e.reads.add(n.target.id)
        if isinstance(n, ast.Call):
            f = n.func
            if any(k.arg == "inplace" for k in n.keywords):
                e.opaque = True
            if isinstance(f, ast.Attribute):
                if f.attr in MUTATORS and f.attr not in PANDAS_PURE:
                    base = f.value
                    through_attr = False
                    while isinstance(base, (ast.Attribute, ast.Subscript, ast.Call)):
                        if isinstance(base, ast.Attribute):
                            e.attr_writes.add(base.attr)
                            through_attr = True
                        base = base.func if isinstance(base, ast.Call) else base.value
                    if isinstance(base, ast.Name):
                        if through_attr:
                            e.attr_bases.add(base.id)
                        else:
                            e.writes.add(base.id)
                    if f.attr in _REPO_FUNCS and not (isinstance(f.value, ast.Name) and f.value.id != "self"):
                        e.opaque = True
                elif f.attr in _REPO_FUNCS and f.attr not in _PURE_FUNCS and f.attr not in _LIB_PURE_METHODS:
                    e.opaque = True
                elif isinstance(f.value, ast.Call) and isinstance(f.value.func, ast.Name) and f.value.func.id == "super":
                    e.opaque = True
            elif isinstance(f, ast.Name):
                if f.id in ("print", "warn", "next", "setattr", "delattr", "exec", "eval", "open"):
                    e.opaque = True
                elif f.id in _REPO_FUNCS and f.id not in _PURE_FUNCS:
                    e.opaque = True
                elif f.id not in _BUILTIN_PURE and f.id not in _REPO_FUNCS and not f.id[:1].isupper():
                    pass  # an imported library function: assumed not to change its arguments
            else:
                e.opaque = True
    e.local_only = not e.attr_reads and not e.attr_writes and not any(isinstance(n, (ast.Call, ast.Subscript)) for n in [st] + list(_walk_no_nested(st)))
    # a statement that cannot raise: names / constants / displays of them stored into names or self.<attr>
    def _total_value(v):
        if isinstance(v, (ast.Name, ast.Constant)):
            return True
        if isinstance(v, (ast.List, ast.Tuple)):
            return all(_total_value(x) for x in v.elts)
        if isinstance(v, ast.Dict):
            return all(k is not None and _total_value(k) and _total_value(x) for k, x in zip(v.keys, v.values))
        return False

    e.total = isinstance(st, ast.Assign) and _total_value(st.value) and all(
        isinstance(t, ast.Name) or (isinstance(t, ast.Attribute) and isinstance(t.value, ast.Name) and t.value.id == "self") for t in st.targets)
    return e


def _commute(a: _Eff, b: _Eff) -> bool:
    if (a.jump == "assert" and (b.local_only or b.total) and not b.jump and not b.opaque) or (b.jump == "assert" and (a.local_only or a.total) and not a.jump and not a.opaque):
        # an assertion and an assignment that cannot raise (names / constants / displays only)
        x, y = (a, b) if a.jump == "assert" else (b, a)
        return not (y.writes & x.reads) and not (y.attr_writes & x.attr_reads)
    if a.jump or b.jump:
        return False
    if a.opaque and b.opaque:
        return False
    if a.opaque or b.opaque:
        o, x = (a, b) if a.opaque else (b, a)
        if not x.local_only:
            return False
        return not (x.writes & (o.reads | o.writes)) and not (o.writes & (x.reads | x.writes))
    if a.writes & (b.reads | b.writes) or b.writes & a.reads:
        return False
    if a.attr_writes & (b.attr_reads | b.attr_writes) or b.attr_writes & a.attr_reads:
        return False
    if a.attr_bases & (b.bare_reads | b.writes) or b.attr_bases & (a.bare_reads | a.writes):
        return False
    return True


def sort_independent(fn, masked_key):
    for owner, f, stmts in _blocks(fn):
        n = len(stmts)
        if n < 2:
            continue
        effs = [_effects(st) for st in stmts]
        keys = [masked_key(st) for st in stmts]
        for _ in range(n):
            swapped = False
            for i in range(n - 1):
                if keys[i + 1] < keys[i] and _commute(effs[i], effs[i + 1]):
                    stmts[i], stmts[i + 1] = stmts[i + 1], stmts[i]
                    effs[i], effs[i + 1] = effs[i + 1], effs[i]
                    keys[i], keys[i + 1] = keys[i + 1], keys[i]
                    swapped = True
            if not swapped:
                break
    return fn


def canonical_names(fn):
    params = set(_params(fn))
    glob: Set[str] = set()
    for n in ast.walk(fn):
        if isinstance(n, (ast.Global, ast.Nonlocal)):
            glob |= set(n.names)
    local_names = {n.id for n in ast.walk(fn) if isinstance(n, ast.Name) and isinstance(n.ctx, (ast.Store, ast.Del))} - params - glob
    for n in ast.walk(fn):
        if isinstance(n, (ast.Lambda, ast.FunctionDef, ast.AsyncFunctionDef)) and n is not fn:
            local_names |= set(_params(n))

    class _M(ast.NodeTransformer):
        def visit_Name(self, n):
            if n.id in local_names and n.id != "_THIS_":
                return ast.Name(id="_", ctx=n.ctx)
            return n

        def visit_arg(self, n):
            if n.arg in local_names:
                n.arg = "_"
            return n

    top_masked = None

    def masked_key(st):
        nonlocal top_masked
        k = _dump(_M().visit(copy.deepcopy(st)))
        if isinstance(st, ast.Assign) and len(st.targets) == 1 and isinstance(st.targets[0], ast.Name) and st.targets[0].id in local_names:
            # identical-looking definitions (a = {} ; b = {}) are told apart by how the name is used
            nm = st.targets[0].id
            if top_masked is None:
                top_masked = []
                for n in _walk_no_nested(fn):
                    if isinstance(n, (ast.Expr, ast.Assign, ast.AugAssign, ast.Return)):
                        top_masked.append(({x.id for x in ast.walk(n) if isinstance(x, ast.Name)}, n))
            sig = []
            for names, n in top_masked:
                if nm in names and n is not st:
                    c = copy.deepcopy(n)
                    for x in ast.walk(c):
                        if isinstance(x, ast.Name) and x.id == nm:
                            x.id = "_THIS_"
                    sig.append(_dump(_M().visit(c)))
            k = k + "|" + "|".join(sorted(sig))
        return k

    sort_independent(fn, masked_key)
    mapping: Dict[str, str] = {}

    class _R(ast.NodeVisitor):
        def visit_Name(self, n):
            if n.id in local_names and n.id not in mapping:
                mapping[n.id] = f"_v{len(mapping)}"

        def visit_arg(self, n):
            if n.arg in local_names and n.arg not in mapping:
                mapping[n.arg] = f"_v{len(mapping)}"

    # comprehension variables live in their own scope: named by nesting depth
    comp_types = (ast.ListComp, ast.SetComp, ast.DictComp, ast.GeneratorExp)

    def rename_comps(node, depth):
        for ch in ast.iter_child_nodes(node):
            if isinstance(ch, comp_types):
                tnames: List[str] = []
                for g in ch.generators:
                    for x in ast.walk(g.target):
                        if isinstance(x, ast.Name) and x.id not in tnames:
                            tnames.append(x.id)
                cmap = {nm: f"_c{depth}_{k}" for k, nm in enumerate(tnames)}
                first_iter = ch.generators[0].iter
                ch.generators[0].iter = ast.Constant(value=None)
                _RenameNames(cmap).visit(ch)
                ch.generators[0].iter = first_iter
                rename_comps(ch, depth + 1)
            elif isinstance(ch, ast.Lambda) and not ch.args.defaults and not ch.args.kw_defaults:
                # the parameters of a lambda live in the lambda: named by nesting depth and position
                lmap = {a.arg: f"_l{depth}_{k}" for k, a in enumerate(ch.args.posonlyargs + ch.args.args + ch.args.kwonlyargs)}
                _RenameNames(lmap).visit(ch)
                local_names.difference_update(set())
                rename_comps(ch, depth + 1)
            elif not isinstance(ch, (ast.FunctionDef, ast.AsyncFunctionDef, ast.ClassDef)):
                rename_comps(ch, depth)

    rename_comps(fn, 0)
    local_names = {n for n in local_names}
    # source order traversal (ast.walk is breadth-first: use a recursive visitor)
    for st in fn.body:
        _R().visit(st)
    _RenameNames(mapping).visit(fn)
    # symmetric comparisons between two locals: ordered by canonical name
    for n in ast.walk(fn):
        if isinstance(n, ast.Compare) and len(n.ops) == 1 and isinstance(n.ops[0], (ast.Eq, ast.NotEq)) and _masked_dump(n.left) == _masked_dump(n.comparators[0]) and _dump(n.comparators[0]) < _dump(n.left):
            n.left, n.comparators = n.comparators[0], [n.left]
    return fn


# ---------------------------------------------------------------------------------------------
# the pipeline
# ---------------------------------------------------------------------------------------------
def inline_local_closures(fn):
    """def g(a): return <expr over a and the enclosing locals>   (a local one-expression function that
    is only called, never passed around)  ->  its calls are replaced by the expression, when nothing
    the expression reads is re-assigned after the definition."""
    for i, st in enumerate(list(fn.body)):
        if not isinstance(st, ast.FunctionDef) or st.decorator_list:
            continue
        body = _strip_block(strip(copy.deepcopy(st)).body)
        if not (len(body) == 1 and isinstance(body[0], ast.Return) and body[0].value is not None):
            continue
        g = st.name
        refs = [n for n in ast.walk(fn) if isinstance(n, ast.Name) and n.id == g]
        calls_ = [n for n in ast.walk(fn) if isinstance(n, ast.Call) and isinstance(n.func, ast.Name) and n.func.id == g]
        if not calls_ or len(refs) != len(calls_):
            continue  # passed as a value somewhere
        params = set(_params(st))
        free = {n.id for n in ast.walk(body[0].value) if isinstance(n, ast.Name)} - params
        later_stores = {n.id for s2 in fn.body[i + 1:] for n in ast.walk(s2) if isinstance(n, ast.Name) and isinstance(n.ctx, ast.Store)}
        if free & later_stores:
            continue
        ok = True
        for c in calls_:
            bound = _bind_args(st, c, False)
            if bound is None:
                ok = False
                break
        if not ok:
            continue
        for c in calls_:
            bound = _bind_args(st, c, False)
            _replace_node(fn, c, _Subst(bound).visit(copy.deepcopy(body[0].value)))
        fn.body.remove(st)
        ast.fix_missing_locations(fn)
        return inline_local_closures(fn)
    return fn


def canon(fn, table: Optional[HelperTable] = None):
    fn = copy.deepcopy(fn)
    fn.decorator_list = list(fn.decorator_list)
    fn = strip(fn)
    fn = inline_local_closures(fn)
    if table is not None:
        fn = inline_helpers(fn, table)
        fn = strip(fn)
    prev = None
    for _ in range(6):
        fn = control_flow(fn)
        fn = loops_to_comprehensions(fn)
        fn = fuse_accumulators(fn)
        fn = expressions(fn)
        fn = drop_unused(fn)
        fn = fuse_chains(fn)
        fn = merge_param_alias(fn)
        fn = coalesce_dead_copies(fn)
        fn = split_variables(fn)
        fn = inline_temporaries(fn)
        for owner, f, stmts in _blocks(fn):
            setattr(owner, f, _strip_block(stmts) if f == "body" else [s for s in stmts if not isinstance(s, ast.Pass)])
        cur = _dump(fn)
        if cur == prev:
            break
        prev = cur
    fn = canonical_names(fn)
    for n in ast.walk(fn):
        if isinstance(n, ast.Assert) and isinstance(n.msg, ast.Tuple):
            n.msg.elts.sort(key=_dump)
    ast.fix_missing_locations(fn)
    return fn


def canon_key(fn, table: Optional[HelperTable] = None) -> str:
    c = canon(fn, table)
    c.name = "_"
    return _dump(c)


# ---------------------------------------------------------------------------------------------
# module level: substitute proved-equivalent functions by their reference version
# ---------------------------------------------------------------------------------------------
def _function_table(tree: ast.Module):
    """qualname -> (node, container list, class name or None)"""
    out = {}
    for n in tree.body:
        if isinstance(n, (ast.FunctionDef, ast.AsyncFunctionDef)):
            out[n.name] = (n, tree.body, None)
        elif isinstance(n, ast.ClassDef):
            for m in n.body:
                if isinstance(m, (ast.FunctionDef, ast.AsyncFunctionDef)):
                    out[f"{n.name}.{m.name}"] = (m, n.body, n.name)
    return out


def _class_aliases(tree: ast.Module) -> Dict[str, Dict[str, str]]:
    out: Dict[str, Dict[str, str]] = {}
    for n in tree.body:
        if isinstance(n, ast.ClassDef):
            al = {}
            for m in n.body:
                if isinstance(m, ast.Assign) and len(m.targets) == 1 and isinstance(m.targets[0], ast.Name) and isinstance(m.value, ast.Name):
                    al[m.targets[0].id] = m.value.id
            out[n.name] = al
    return out


def _global_bindings(tree: ast.Module) -> Dict[str, str]:
    """What every module-level name is bound to (imports, assignments, defs), as text."""
    out: Dict[str, str] = {}

    def handle(stmts):
        for st in stmts:
            if isinstance(st, ast.ImportFrom):
                for a in st.names:
                    out[a.asname or a.name] = f"from {'.' * st.level}{st.module or ''} import {a.name}"
            elif isinstance(st, ast.Import):
                for a in st.names:
                    out[a.asname or a.name.split('.')[0]] = f"import {a.name}"
            elif isinstance(st, ast.Assign):
                for t in st.targets:
                    if isinstance(t, ast.Name):
                        out[t.id] = "= " + _dump(st.value)
            elif isinstance(st, (ast.FunctionDef, ast.AsyncFunctionDef, ast.ClassDef)):
                out[st.name] = "def"
            elif isinstance(st, (ast.If, ast.Try)):
                handle(st.body)
                handle(getattr(st, "orelse", []))
                for h in getattr(st, "handlers", []):
                    handle(h.body)

    handle(tree.body)
    return out


def load_reference_sources() -> Dict[str, str]:
    try:
        with open(REF_SRC, encoding="utf-8") as fh:
            return json.load(fh)
    except OSError:
        return {}


_REF_CACHE: Dict[str, Tuple[ast.Module, Dict[str, str]]] = {}


def substitute_equivalents(rel: str, tree: ast.Module, ref_sources: Dict[str, str], stats: Dict[str, list], extra_methods: Optional[Dict[str, ast.FunctionDef]] = None, used_out: Optional[Set[str]] = None) -> None:
    src = ref_sources.get(rel)
    if src is None:
        return
    if rel not in _REF_CACHE:
        rt = ast.parse(src)
        _REF_CACHE[rel] = (rt, _global_bindings(rt))
    ref_tree, ref_globals = _REF_CACHE[rel]
    ref_funcs = _function_table(ref_tree)
    new_funcs = _function_table(tree)
    new_globals = _global_bindings(tree)
    aliases = _class_aliases(tree)
    # helpers: functions of the current tree that the reference tree does not have
    new_module_helpers = {q: v[0] for q, v in new_funcs.items() if "." not in q and q not in ref_funcs}
    new_class_helpers: Dict[str, Dict[str, ast.FunctionDef]] = {}
    for q, v in new_funcs.items():
        if "." in q and q not in ref_funcs:
            c, m = q.split(".", 1)
            new_class_helpers.setdefault(c, {})[m] = v[0]
    # methods missing from a class may live in a base class of the same module: offer them too
    used_helpers: Set[str] = set()
    substituted: List[str] = []
    changed: List[str] = []
    for q, (node, container, cls) in list(new_funcs.items()):
        if q not in ref_funcs:
            continue
        ref_node = ref_funcs[q][0]
        if _dump(node) == _dump(ref_node):
            continue
        changed.append(q)
        try:
            helpers_for_class = dict(new_class_helpers.get(cls, {})) if cls else {}
            if cls:
                # helpers defined on other classes of the module (a base class) are reachable via self
                for c2, hs in new_class_helpers.items():
                    for m, h in hs.items():
                        helpers_for_class.setdefault(m, h)
                for m, h in (extra_methods or {}).items():
                    helpers_for_class.setdefault(m, h)
            table = HelperTable(new_module_helpers, helpers_for_class, aliases.get(cls, {}) if cls else {}, cls)
            _set_family(cls)
            k_new = canon_key(node, table)
            k_ref = canon_key(ref_node, None)
        except RecursionError:
            continue
        finally:
            _set_family(None)
        if k_new != k_ref:
            if table.used:
                # not equivalent, but it calls helpers the reference tree does not have: the rules
                # are given the function with those helpers inlined back (a semantics-preserving
                # rewrite of the CURRENT code), so that a clause moved into a helper is still seen
                try:
                    t2 = HelperTable(new_module_helpers, helpers_for_class, aliases.get(cls, {}) if cls else {}, cls)
                    inl = inline_helpers(copy.deepcopy(node), t2)
                    inl = inline_temporaries(inl, only=lambda v: "__h" in v)
                    ast.fix_missing_locations(inl)
                    for x in ast.walk(inl):
                        if not hasattr(x, "lineno") or getattr(x, "lineno", None) is None:
                            pass
                    ast.increment_lineno(inl, 0)
                    idx = container.index(node)
                    for x in ast.walk(inl):
                        if isinstance(x, (ast.stmt, ast.expr)) and getattr(x, "lineno", 0) in (0, 1) and x is not inl:
                            x.lineno = node.lineno
                            x.end_lineno = node.lineno
                    container[idx] = inl
                    stats.setdefault("helpers_inlined_for_rules", []).append(f"{rel}::{q}")
                except Exception as exc:  # never let the convenience break the analysis
                    stats.setdefault("errors", []).append(f"{rel}::{q}: helper inlining for rules failed: {exc!r}")
            continue
        # the free names of the (common) normal form must mean the same thing in both modules
        free = {n.id for n in ast.walk(canon(ref_node, None)) if isinstance(n, ast.Name)}
        if any(new_globals.get(nm) != ref_globals.get(nm) for nm in free if (nm in new_globals or nm in ref_globals) and new_globals.get(nm) != "def" and ref_globals.get(nm) != "def"):
            continue
        repl = copy.deepcopy(ref_node)
        ast.increment_lineno(repl, node.lineno - ref_node.lineno)
        idx = container.index(node)
        container[idx] = repl
        substituted.append(q)
        used_helpers |= {(cls or "") + ":" + h for h in table.used}
        if used_out is not None:
            used_out |= set(table.used)
    # helpers that were inlined into proved-equivalent functions and are used nowhere else vanish
    if used_helpers:
        remaining_text = None
        for key in sorted(used_helpers):
            cls, h = key.split(":", 1)
            cands = []
            if h in new_module_helpers:
                cands.append((new_module_helpers[h], tree.body))
            for c2, hs in new_class_helpers.items():
                if h in hs:
                    cbody = next(n.body for n in tree.body if isinstance(n, ast.ClassDef) and n.name == c2)
                    cands.append((hs[h], cbody))
            for hn, cont in cands:
                if hn not in cont:
                    continue
                cont.remove(hn)
                still = False
                for n in ast.walk(tree):
                    if isinstance(n, ast.Name) and n.id == h and isinstance(n.ctx, ast.Load):
                        still = True
                    if isinstance(n, ast.Attribute) and n.attr in (h,) and isinstance(n.ctx, ast.Load):
                        still = True
                if still:
                    cont.append(hn)
                else:
                    # class-level private alias of the helper
                    for m in list(cont):
                        if isinstance(m, ast.Assign) and isinstance(m.value, ast.Name) and m.value.id == h:
                            al = m.targets[0].id if isinstance(m.targets[0], ast.Name) else None
                            used_alias = any(isinstance(n, ast.Attribute) and al and n.attr.endswith(al) for n in ast.walk(tree))
                            if not used_alias:
                                cont.remove(m)
    stats.setdefault("changed", []).extend(f"{rel}::{q}" for q in changed)
    stats.setdefault("proved_equivalent", []).extend(f"{rel}::{q}" for q in substituted)


def eager_generators(trees: List[ast.Module]) -> Set[str]:
    """Module-level generator functions every use of which consumes the generator on the spot
    (``list(g(..))``, or the iterable of a list / set / dict comprehension whose element and
    conditions have no effect): nothing else runs between two of their ``yield``s, so a value read
    before a yield is still the same after it.  For any other generator a ``yield`` is a point where
    arbitrary code of the consumer runs."""
    gens: Set[str] = set()
    for t in trees:
        for n in t.body:
            if isinstance(n, ast.FunctionDef) and any(isinstance(x, (ast.Yield, ast.YieldFrom)) for x in _walk_no_nested(n)):
                gens.add(n.name)
    ok = set(gens)
    for t in trees:
        parent = {}
        for n in ast.walk(t):
            for ch in ast.iter_child_nodes(n):
                parent[id(ch)] = n
        for n in ast.walk(t):
            if not (isinstance(n, ast.Name) and n.id in gens and isinstance(n.ctx, ast.Load)):
                continue
            call = parent.get(id(n))
            if not (isinstance(call, ast.Call) and call.func is n):
                ok.discard(n.id)
                continue
            user = parent.get(id(call))
            if isinstance(user, ast.Call) and isinstance(user.func, ast.Name) and user.func.id in ("list", "tuple", "sorted", "set") and user.args[:1] == [call]:
                continue
            if isinstance(user, ast.comprehension) and user.iter is call:
                comp = parent.get(id(user))
                if isinstance(comp, (ast.ListComp, ast.SetComp, ast.DictComp)) and comp.generators[0] is user:
                    parts = ([comp.key, comp.value] if isinstance(comp, ast.DictComp) else [comp.elt]) + [c for g in comp.generators for c in g.ifs] + [g.iter for g in comp.generators[1:]]
                    if not any(_impure(x) or any(isinstance(y, ast.Call) for y in ast.walk(x)) for x in parts):
                        continue
            ok.discard(n.id)
    return ok


def _yield_is_barrier(fn) -> bool:
    return fn.name not in _EAGER_GENERATORS


def substitute_all(trees: Dict[str, ast.Module], sources: Dict[str, str], ref_sources: Dict[str, str], stats: Dict[str, list]) -> None:
    """All modules at once: new private methods can be called from another module (a helper added
    to a base class)."""
    global _REPO_FUNCS, _PURE_FUNCS, _LIST_RETURNING, _EAGER_GENERATORS, _PARAM_MUT
    ref_trees = []
    for rel, src in ref_sources.items():
        if rel not in _REF_CACHE:
            rt = ast.parse(src)
            _REF_CACHE[rel] = (rt, _global_bindings(rt))
        ref_trees.append(_REF_CACHE[rel][0])
    repo_a, pure_a = pure_function_names(ref_trees)
    repo_b, pure_b = pure_function_names(list(trees.values()))
    def list_returning(ts):
        out, allf = set(), set()
        for t in ts:
            for n in t.body:
                if isinstance(n, ast.FunctionDef):
                    allf.add(n.name)
                    if n.returns is not None and ast.unparse(n.returns).replace("List", "list").startswith("list"):
                        out.add(n.name)
        return out, allf

    la, fa = list_returning(ref_trees)
    lb, fb = list_returning(list(trees.values()))
    _LIST_RETURNING = {f for f in la | lb if (f not in fa or f in la) and (f not in fb or f in lb)}
    _set_family(None)
    fa_attrs = list_typed_attrs(ref_trees)
    fb_attrs = list_typed_attrs(list(trees.values()))
    _FAMILY_ATTRS.clear()
    for c in fa_attrs:
        if c in fb_attrs:
            _FAMILY_ATTRS[c] = (fa_attrs[c][0] & fb_attrs[c][0], fa_attrs[c][1] & fb_attrs[c][1])
    _REPO_FUNCS = repo_a | repo_b
    _EAGER_GENERATORS = eager_generators(list(trees.values())) & eager_generators(ref_trees)
    _PURE_FUNCS = {f for f in (pure_a | pure_b) if (f not in repo_a or f in pure_a) and (f not in repo_b or f in pure_b)}
    pm_a = param_mutation_summaries(ref_trees, pure_a, repo_a)
    pm_b = param_mutation_summaries(list(trees.values()), pure_b, repo_b)
    _PARAM_MUT = {f: (pm_a[f][0], pm_a[f][1] | pm_b[f][1]) for f in pm_a if f in pm_b and pm_a[f][0] == pm_b[f][0] and f not in _PURE_FUNCS}
    new_methods: Dict[str, ast.FunctionDef] = {}
    owners: Dict[str, Tuple[str, List[ast.stmt]]] = {}
    dup: Set[str] = set()
    for rel, tree in trees.items():
        src = ref_sources.get(rel)
        if src is None or src == sources.get(rel):
            continue
        if rel not in _REF_CACHE:
            rt = ast.parse(src)
            _REF_CACHE[rel] = (rt, _global_bindings(rt))
        ref_funcs = _function_table(_REF_CACHE[rel][0])
        for q, (node, cont, cls) in _function_table(tree).items():
            if cls and q not in ref_funcs:
                m = q.split(".", 1)[1]
                if m in new_methods:
                    dup.add(m)
                new_methods[m] = node
                owners[m] = (rel, cont)
    for m in dup:
        new_methods.pop(m, None)
    used: Set[str] = set()
    for rel, tree in trees.items():
        if ref_sources.get(rel) is None or ref_sources.get(rel) == sources.get(rel):
            continue
        substitute_equivalents(rel, tree, ref_sources, stats, extra_methods=new_methods, used_out=used)
    # a helper inlined everywhere it was called disappears from its class
    for m in sorted(used):
        if m not in owners:
            continue
        rel, cont = owners[m]
        node = new_methods.get(m)
        if node is None or node not in cont:
            continue
        cont.remove(node)
        still = any(isinstance(n, ast.Attribute) and n.attr == m and isinstance(n.ctx, ast.Load) for t in trees.values() for n in ast.walk(t))
        if still:
            cont.append(node)
