"""Command line:  python3 -m acsa check <id> [--tier quick|thorough] | replay <path> | selfcheck | all"""
from __future__ import annotations

import argparse
import json
import os
import sys
import time
import traceback

from .core import AnalysisError, Repo
from .report import (
    Ctx,
    Result,
    load_known,
    write_evidence,
    write_replay,
)
from . import rules as rules_pkg


def run_rules(prop: str, repo: Repo) -> Result:
    """Runs every rule of one property on a parsed tree; never raises."""
    mod = rules_pkg.get(prop)
    ctx = Ctx(repo, prop)
    try:
        mod.check(ctx)
        floors = getattr(mod, "FLOORS", {})
        counts = {}
        for o in ctx.result.obligations:
            counts[o.rule] = counts.get(o.rule, 0) + 1
        low = [f"{r}: {counts.get(r, 0)} < {n}" for r, n in floors.items() if counts.get(r, 0) < n]
        if low:
            raise AnalysisError("rule instance count below the confirmed floor (vacuous rule?): " + "; ".join(low))
        und = ctx.result.undecided
        if und:
            raise AnalysisError(
                "undecided obligation(s): " + "; ".join(f"{o.rule} @ {o.construct} ({o.detail})" for o in und[:5])
            )
    except AnalysisError as exc:
        ctx.result.error = str(exc)
    except RecursionError as exc:  # pragma: no cover
        ctx.result.error = f"recursion limit: {exc}"
    except Exception as exc:  # any traceback is an analysis error, never a verdict
        ctx.result.error = f"internal error: {exc!r}\n{traceback.format_exc()}"
    eff = ctx._cache.get("effects")
    if eff is not None:
        ctx.result.analysed["effects_engine"] = {
            "call_sites_evaluated": eff.total_calls,
            "call_resolution": dict(eff.stats),
            "call_graph_edges": sum(len(v) for v in eff.edges.values()),
            "summaries": len(eff._memo),
            "unmodelled_library_methods_on_tracked_values": sorted(eff.unmodelled),
        }
    try:
        import json as _json

        with open(os.path.join(os.path.dirname(os.path.dirname(os.path.abspath(__file__))), "properties.jsonl"), encoding="utf-8") as fh:
            anchors = next((_json.loads(l)["anchors"]["files"] for l in fh if l.strip() and _json.loads(l)["id"] == prop), [])
        ctx.result.analysed["anchored_modules"] = anchors
        ctx.result.analysed["functions_in_anchored_modules"] = sum(
            1 for f in repo.all_functions() if f.module.relpath in anchors)
        ctx.result.analysed["modules_parsed"] = len(repo.modules)
        ctx.result.analysed["functions_parsed"] = sum(1 for _ in repo.all_functions())
        ctx.result.analysed["locals_alpha_renamed"] = repo.alpha_renamed
        eq = getattr(repo, "equiv_stats", {}) or {}
        ctx.result.analysed["functions_differing_from_reference_tree"] = sorted(eq.get("changed", []))
        ctx.result.analysed["functions_proved_equivalent_to_reference"] = sorted(eq.get("proved_equivalent", []))
        if eq.get("errors"):
            ctx.result.analysed["equivalence_pass_errors"] = eq["errors"]
    except Exception:  # pragma: no cover
        pass
    return ctx.result


def cmd_check(prop: str, tier: str) -> int:
    t0 = time.time()
    seed = int(os.environ.get("VERIF_SEED", "0") or 0)
    tier = os.environ.get("VERIF_TIER", tier) or tier
    if tier not in ("quick", "thorough"):
        tier = "quick"
    mod = rules_pkg.get(prop)
    try:
        repo = Repo()
    except AnalysisError as exc:
        print(f"ANALYSIS-ERROR property={prop} {exc}")
        return 2
    result = run_rules(prop, repo)
    print(
        f"[acsa] property={prop} tier={tier} modules={len(repo.modules)} "
        f"functions={sum(1 for _ in repo.all_functions())} obligations={len(result.obligations)}"
    )
    eq = getattr(repo, "equiv_stats", {}) or {}
    if eq.get("changed"):
        print(f"  equivalence pass: {len(eq['changed'])} function(s) differ from the reference tree, {len(eq.get('proved_equivalent', []))} proved equivalent and analysed as their reference version")
    by_rule = {}
    for o in result.obligations:
        by_rule.setdefault(o.rule, []).append(o)
    for rule in sorted(by_rule):
        obs = by_rule[rule]
        print(f"  {rule}: {sum(1 for o in obs if o.ok)}/{len(obs)} hold")
    known_keys = {(k.rule, k.construct) for k in load_known() if k.prop == prop}
    definite = [o for o in result.violations if (o.rule, o.construct) not in known_keys]
    if result.error and not definite:
        print(f"ANALYSIS-ERROR property={prop} {result.error}")
        return 2
    if result.error:
        # a definite violation was found before / besides the part that could not be decided: it
        # stands on its own
        print(f"  note: part of the analysis was not decided ({result.error.splitlines()[0][:200]})")

    # known findings
    known = [k for k in load_known() if k.prop == prop]
    printed = []
    fresh = []
    for o in result.violations:
        hit = next((k for k in known if k.rule == o.rule and k.construct == o.construct), None)
        if hit is not None:
            line = f"KNOWN-FINDING: property={prop} {hit.text} [{o.rule} @ {o.construct}]"
            print(line)
            printed.append(line)
        else:
            fresh.append(o)

    # self-test (positive controls in quick, full corpus in thorough)
    from .selftest import run_selftest

    st = run_selftest(prop, tier, seed, repo)
    print(
        f"  selftest[{tier}]: variants={st['variants_analysed']} mutants_detected={st['mutants_detected']}/"
        f"{st['mutants_applicable']} benign_silent={st['benign_silent']}/{st['benign_applicable']} "
        f"seeded_detected={st['seeded_changes_detected']}/{st['seeded_changes_applicable']} "
        f"refactorings_silent={st['refactorings_silent']}/{st['refactorings_applicable']} "
        f"skipped={st['skipped']} pristine_tree={st['pristine_tree']}"
    )
    for msg in st["problems"]:
        print(f"  SELFTEST-PROBLEM {msg}")

    rc = 0
    for o in fresh:
        path = write_replay(prop, o)
        print(f"  violation: {o.rule} @ {o.construct} [{o.where}] {o.detail}")
        print(f"VIOLATION property={prop} replay={path}")
        rc = 1
    if rc == 0 and st["problems"] and st["pristine_tree"]:
        # the checker itself is broken on the tree it was validated for: not a verdict
        print(f"ANALYSIS-ERROR property={prop} self-test failed on the reference tree")
        rc = 2
    meta = {
        "explanation": getattr(mod, "EXPLANATION", ""),
        "not_decided": getattr(mod, "NOT_DECIDED", ""),
        "assumptions": getattr(mod, "ASSUMPTIONS", []),
    }
    if not os.environ.get("ACSA_NO_EVIDENCE"):  # development runs against a deliberately broken tree
        write_evidence(prop, tier, seed, result, meta, time.time() - t0, len(fresh), st, printed)
    print(f"[acsa] property={prop} {'HOLDS' if rc == 0 else ('VIOLATED' if rc == 1 else 'UNDECIDED')} wall={time.time() - t0:.2f}s")
    return rc


def cmd_replay(path: str) -> int:
    with open(path, encoding="utf-8") as fh:
        rep = json.load(fh)
    prop = rep["property"]
    try:
        repo = Repo()
    except AnalysisError as exc:
        print(f"ANALYSIS-ERROR property={prop} {exc}")
        return 2
    result = run_rules(prop, repo)
    if result.error:
        print(f"ANALYSIS-ERROR property={prop} {result.error}")
        return 2
    for o in result.violations:
        if o.rule == rep["rule"] and o.construct == rep["construct"]:
            print(f"  still violated: {o.rule} @ {o.construct} [{o.where}] {o.detail}")
            print(f"VIOLATION property={prop} replay={path}")
            return 1
    print(f"[acsa] replay: {rep['rule']} @ {rep['construct']} no longer violated")
    return 0


def cmd_selfcheck() -> int:
    """setup_cmd: byte-compile the engine and run the layer fixtures."""
    import compileall

    ok = compileall.compile_dir(os.path.dirname(__file__), quiet=1)
    from .selftest import fixtures

    problems = fixtures.run_all()
    for p in problems:
        print(f"FIXTURE-FAILED {p}")
    print(f"[acsa] selfcheck: compiled={bool(ok)} fixture_problems={len(problems)}")
    return 0 if ok and not problems else 2


def main(argv=None) -> int:
    ap = argparse.ArgumentParser(prog="acsa")
    sub = ap.add_subparsers(dest="cmd", required=True)
    c = sub.add_parser("check")
    c.add_argument("prop")
    c.add_argument("--tier", default="quick")
    r = sub.add_parser("replay")
    r.add_argument("path")
    sub.add_parser("selfcheck")
    sub.add_parser("refdigest")
    a = sub.add_parser("all")
    a.add_argument("--tier", default="quick")
    ns = ap.parse_args(argv)
    try:
        if ns.cmd == "check":
            return cmd_check(ns.prop, ns.tier)
        if ns.cmd == "replay":
            return cmd_replay(ns.path)
        if ns.cmd == "selfcheck":
            return cmd_selfcheck()
        if ns.cmd == "refdigest":
            from .selftest import REF, tree_digest

            repo = Repo(alpha=False)
            with open(REF, "w", encoding="utf-8") as fh:
                fh.write(tree_digest(repo) + "\n")
            from .alpha import REF_LOCALS, reference_table

            with open(REF_LOCALS, "w", encoding="utf-8") as fh:
                json.dump(reference_table({rel: m.tree for rel, m in repo.by_relpath.items()}), fh, indent=0, sort_keys=True)
            from .equiv import REF_SRC

            with open(REF_SRC, "w", encoding="utf-8") as fh:
                json.dump({rel: m.source for rel, m in repo.by_relpath.items()}, fh, indent=0, sort_keys=True)
            print("[acsa] reference digest, reference local-name table and reference sources written")
            return 0
        if ns.cmd == "all":
            worst = 0
            for prop in rules_pkg.all_props():
                worst = max(worst, cmd_check(prop, ns.tier))
            return worst
    except Exception as exc:  # last resort: a traceback must never look like a violation
        print(f"ANALYSIS-ERROR {exc!r}\n{traceback.format_exc()}")
        return 2
    return 2


if __name__ == "__main__":
    sys.exit(main())
