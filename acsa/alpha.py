"""Alpha-normalisation of local variable names against the reference tree.

The rules name local variables of the analysed functions (``values_to_group``, ``best_association``
...).  Renaming a local is a behaviour-preserving edit, so before any rule runs every function is
normalised: each local is identified by the *shape of its first binding* (kind of binding statement +
its right-hand side with every local masked) and, when the reference tree (the tree the rules were
written against, ``reference_locals.json``) has a local with the same shape at the same rank, it is
renamed in the syntax tree to the reference name.  Parameters, attributes and globals are never
touched (they are API).  A local whose binding statement was edited simply keeps its name.
"""
from __future__ import annotations

import ast
import copy
import json
import os
from typing import Dict, List, Tuple

HERE = os.path.dirname(os.path.abspath(__file__))
REF_LOCALS = os.path.join(HERE, "selftest", "reference_locals.json")


def _params(fn) -> set:
    a = fn.args
    out = {x.arg for x in a.posonlyargs + a.args + a.kwonlyargs}
    if a.vararg:
        out.add(a.vararg.arg)
    if a.kwarg:
        out.add(a.kwarg.arg)
    return out


def _parents(fn) -> Dict[int, ast.AST]:
    par = {}
    for n in ast.walk(fn):
        for ch in ast.iter_child_nodes(n):
            par[id(ch)] = n
    return par


class _Mask(ast.NodeTransformer):
    def __init__(self, names):
        self.names = names

    def visit_Name(self, n):
        if n.id in self.names:
            return ast.copy_location(ast.Name(id="_L_", ctx=n.ctx), n)
        return n


def _masked(e, names) -> str:
    if e is None:
        return ""
    return ast.unparse(_Mask(names).visit(copy.deepcopy(e)))


def bindings(fn) -> List[Tuple[str, str]]:
    """[(local name, signature of its first binding)] in source order."""
    params = _params(fn)
    declared = set()
    nested_params = set()
    for n in ast.walk(fn):
        if isinstance(n, (ast.Global, ast.Nonlocal)):
            declared |= set(n.names)
        if isinstance(n, (ast.FunctionDef, ast.AsyncFunctionDef, ast.Lambda)) and n is not fn:
            nested_params |= _params(n)
    stores = [n for n in ast.walk(fn) if isinstance(n, ast.Name) and isinstance(n.ctx, ast.Store)]
    stores.sort(key=lambda n: (n.lineno, n.col_offset))
    local_names = {n.id for n in stores} - params - declared - nested_params
    par = _parents(fn)
    out, seen = [], set()
    for s in stores:
        if s.id in seen or s.id not in local_names:
            continue
        seen.add(s.id)
        # climb to the binding construct
        cur, path = s, []
        while True:
            p = par.get(id(cur))
            if p is None:
                break
            if isinstance(p, (ast.Tuple, ast.List)) and cur in p.elts:
                path.append(str(p.elts.index(cur)))
            if isinstance(p, ast.Assign):
                sig = "assign:" + _masked(p.value, local_names)
                break
            if isinstance(p, ast.AnnAssign):
                sig = "assign:" + _masked(p.value, local_names)
                break
            if isinstance(p, ast.AugAssign):
                sig = "aug:" + type(p.op).__name__ + _masked(p.value, local_names)
                break
            if isinstance(p, (ast.For, ast.AsyncFor)):
                sig = "for:" + _masked(p.iter, local_names)
                break
            if isinstance(p, ast.comprehension):
                sig = "comp:" + _masked(p.iter, local_names)
                break
            if isinstance(p, ast.withitem):
                sig = "with:" + _masked(p.context_expr, local_names)
                break
            if isinstance(p, ast.NamedExpr):
                sig = "walrus:" + _masked(p.value, local_names)
                break
            cur = p
        else:  # pragma: no cover
            sig = "?"
        if p is None:
            sig = "?"
        out.append((s.id, sig + "@" + ".".join(path)))
    return out


def function_table(tree: ast.Module) -> Dict[str, ast.AST]:
    out = {}
    for n in tree.body:
        if isinstance(n, (ast.FunctionDef, ast.AsyncFunctionDef)):
            out[n.name] = n
        elif isinstance(n, ast.ClassDef):
            for m in n.body:
                if isinstance(m, (ast.FunctionDef, ast.AsyncFunctionDef)):
                    out[f"{n.name}.{m.name}"] = m
    return out


def reference_table(modules: Dict[str, ast.Module]) -> Dict[str, List[List[str]]]:
    ref = {}
    for rel, tree in modules.items():
        for q, fn in function_table(tree).items():
            ref[f"{rel}::{q}"] = [list(b) for b in bindings(fn)]
    return ref


def load_reference() -> Dict[str, List[List[str]]]:
    try:
        with open(REF_LOCALS, encoding="utf-8") as fh:
            return json.load(fh)
    except OSError:
        return {}


class _Rename(ast.NodeTransformer):
    def __init__(self, mapping):
        self.mapping = mapping

    def visit_Name(self, n):
        if n.id in self.mapping:
            n.id = self.mapping[n.id]
        return n


def normalise_module(rel: str, tree: ast.Module, ref: Dict[str, List[List[str]]]) -> int:
    """Renames locals in place; returns the number of renamed variables."""
    count = 0
    for q, fn in function_table(tree).items():
        r = ref.get(f"{rel}::{q}")
        if not r:
            continue
        cur = bindings(fn)
        if [c[0] for c in cur] == [x[0] for x in r]:
            continue
        # pair by signature, in order
        by_sig: Dict[str, List[str]] = {}
        for name, sig in r:
            by_sig.setdefault(sig, []).append(name)
        used: Dict[str, int] = {}
        mapping = {}
        for name, sig in cur:
            i = used.get(sig, 0)
            cands = by_sig.get(sig, [])
            if i < len(cands):
                used[sig] = i + 1
                if cands[i] != name:
                    mapping[name] = cands[i]
        if not mapping:
            continue
        all_names = {n.id for n in ast.walk(fn) if isinstance(n, ast.Name)} | _params(fn)
        staying = all_names - set(mapping)
        safe = {}
        for old, new in mapping.items():
            if new in staying:
                continue  # would merge two distinct variables
            safe[old] = new
        if len(set(safe.values())) != len(safe):
            continue
        if safe:
            _Rename(safe).visit(fn)
            count += len(safe)
    return count
