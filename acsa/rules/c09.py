"""C09 -- base discretization honours min_freq and keeps its granularity."""
from __future__ import annotations

from ..selftest import B, M
from .common import F_DISC, F_QUAL, F_QUAN
from . import quant
from .truthiness import check_or_default, check_truthiness

EXPLANATION = (
    "Decides the comparison table behind the statement (comparison normaliser, one reason per entry): "
    "R-thresholds (categorical value -> default group iff frequency < min_freq and not the missing "
    "value; ordinal merging continues while any bucket holds < min_freq of all rows and more than one "
    "bucket is left, least frequent first; over-represented iff count >= len_df / q with guard and "
    "mask agreeing; rare quantile bucket iff frequency <= min_freq / 2, merged with that same "
    "threshold; q = round(1 / min_freq); remaining mass cut in round(share * q) quantiles; degenerate "
    "feature iff max frequency < min_freq); R-boundaries-sorted-unique-inf (qualities: the list given "
    "to GroupedList is sorted, de-duplicated and ends with numpy.inf); R-order-statistic (quantiles "
    "use method='lower': boundaries are observed values; inner cut points only); R-nan-separate "
    "(missing values are excluded from every merge statistic and appended as their own modality); "
    "R-value-truthiness (no any()/all() over data values in the discretizer modules: a rare category "
    "named '' or 0 must still be grouped); R-order-only (boundaries are taken from the raw values "
    "themselves: no cast, arithmetic or rounding between the column and the order statistics)."
)
NOT_DECIDED = "the >= min_freq / <= 2.5*min_freq bucket sizes on data (numerical, needs execution)"
FLOORS = {"R-forward-sentinels": 8, "R-thresholds": 11, "R-boundaries-sorted-unique-inf": 4, "R-order-statistic": 4, "R-nan-separate": 5, "R-value-truthiness": 10, "R-order-only": 4}


def check(ctx):
    quant.check_forward_sentinels(ctx, "R-forward-sentinels")  # a custom str_nan reaches every inner discretizer: missing values stay apart
    quant.check_thresholds(ctx, "R-thresholds")
    quant.check_boundaries(ctx, "R-boundaries-sorted-unique-inf")
    quant.check_order_statistic(ctx, "R-order-statistic")
    quant.check_nan_separate(ctx, "R-nan-separate")
    quant.check_order_only(ctx, "R-order-only")
    fns = [f for f in ctx.repo.all_functions() if f.module.relpath in (F_QUAL, F_QUAN, F_DISC)]
    check_truthiness(ctx, "R-value-truthiness", fns)
    check_or_default(ctx, "R-value-truthiness", [f for f in ctx.repo.all_functions() if "/selectors/" not in f.module.relpath])


MUTANTS = [
    M("D4-reverted: boundaries sorted but not de-duplicated", [(F_QUAN, "    return list(\n        unique(\n            np_find_quantiles(", "    return list(\n        sorted(\n            np_find_quantiles(")], "R-boundaries-sorted-unique-inf", "unique", quick=True),
    M("boundaries neither sorted nor unique", [(F_QUAN, "    return list(\n        unique(\n            np_find_quantiles(", "    return list(\n        list(\n            np_find_quantiles(")], "R-boundaries-sorted-unique-inf", "sorted"),
    M("D18-reverted: any(values_to_group)", [(F_QUAL, "            if len(values_to_group) > 0:\n                # adding default value", "            if any(values_to_group):\n                # adding default value")], "R-value-truthiness", "CategoricalDiscretizer.fit", quick=True),
    M("categorical threshold non-strict", [(F_QUAL, "                if freq < self.min_freq and val != self.str_nan", "                if freq <= self.min_freq and val != self.str_nan")], "R-thresholds", "categorical value"),
    M("missing values sent to the default group", [(F_QUAL, "                if freq < self.min_freq and val != self.str_nan", "                if freq < self.min_freq")], "R-thresholds", "categorical value"),
    M("ordinal merge stops one bucket early", [(F_QUAL, "    while any(stats[0, :] / len_df < min_freq) & (stats.shape[1] > 1):", "    while any(stats[0, :] / len_df < min_freq) & (stats.shape[1] > 2):")], "R-thresholds", "ordinal buckets"),
    M("ordinal merge threshold non-strict", [(F_QUAL, "    while any(stats[0, :] / len_df < min_freq) & (stats.shape[1] > 1):", "    while any(stats[0, :] / len_df <= min_freq) & (stats.shape[1] > 1):")], "R-thresholds", "ordinal buckets"),
    M("ordinal shares relative to non-missing rows", [(F_QUAL, "    len_df = len(df_feature)\n", "    len_df = len(df_feature.dropna())\n")], "R-thresholds", "shares are relative"),
    M("over-representation strict in the guard only", [(F_QUAN, "    if any(frequencies >= len_df / q):", "    if any(frequencies > len_df / q):")], "R-thresholds", "over-represented"),
    M("rare bucket threshold strict", [(F_DISC, "        has_rare = list(frequencies[frequencies <= q_min_freq].index)", "        has_rare = list(frequencies[frequencies < q_min_freq].index)")], "R-thresholds", "quantile buckets"),
    M("rare buckets merged with min_freq instead of min_freq/2", [(F_DISC, "                min_freq=q_min_freq,\n", "                min_freq=self.min_freq,\n")], "R-thresholds", "quantile buckets"),
    M("q truncated instead of rounded", [(F_QUAN, "        self.q = round(1 / min_freq)  # number of quantiles", "        self.q = int(1 / min_freq)  # number of quantiles")], "R-thresholds", "number of quantiles"),
    M("interpolated quantiles", [(F_QUAN, "                method=\"lower\",\n", "                method=\"linear\",\n")], "R-order-statistic", "order statistics"),
    M("outer cut points kept", [(F_QUAN, "                linspace(0, 1, new_q + 1)[1:-1],", "                linspace(0, 1, new_q + 1)[1:],")], "R-order-statistic", "inner cut"),
    M("missing values counted in the ordinal merge", [(F_QUAL, "            df_feature[not_nans]\n            .value_counts(dropna=False, normalize=False)", "            df_feature\n            .value_counts(dropna=False, normalize=False)")], "R-nan-separate", "excluded"),
    M("quantitative NaN not appended", [(F_QUAN, "    if any(X[feature].isna()):\n        order.append(str_nan)\n", "")], "R-nan-separate", "fit_feature"),
    M("quantiles computed on a float cast of the column", [(F_QUAN, "    quantiles = find_quantiles(X[feature].values, q=q)", "    quantiles = find_quantiles(X[feature].astype(float).values, q=q)")], "R-order-only", "fit_feature"),
    M("bucket shares over non-missing rows only", [(F_DISC, "    values = x.value_counts(dropna=dropna, normalize=normalize)", "    values = x[x != '__NAN__'].value_counts(dropna=dropna, normalize=normalize)")], "R-thresholds", "share of ALL rows"),
    M("degenerate test non-strict", [(F_DISC, "            if max_frequencies[feature] < self.min_freq:\n                warn(\n                    f\" - [QualitativeDiscretizer]", "            if max_frequencies[feature] <= self.min_freq:\n                warn(\n                    f\" - [QualitativeDiscretizer]")], "R-thresholds", "dropped iff"),
]
BENIGN = [
    B("boundaries through sorted(set())", [(F_QUAN, "    return list(\n        unique(\n            np_find_quantiles(", "    return list(\n        sorted(set(\n            np_find_quantiles("), (F_QUAN, "                quantiles=[],  # initiating list of quantiles\n            )\n        )\n    )", "                quantiles=[],  # initiating list of quantiles\n            )\n        ))\n    )")]),
    B("categorical threshold operands swapped", [(F_QUAL, "                if freq < self.min_freq and val != self.str_nan", "                if self.str_nan != val and self.min_freq > freq")]),
    B("emptiness test as truthiness of the list", [(F_QUAL, "            if len(values_to_group) > 0:\n                # adding default value", "            if values_to_group:\n                # adding default value")]),
    B("quantile method higher", [(F_QUAN, "                method=\"lower\",\n", "                method=\"higher\",\n")]),
]
