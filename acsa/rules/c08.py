"""C08 -- fit ends in a coherent fitted object or a clean AssertionError."""
from __future__ import annotations

import ast
from typing import Dict, List, Optional, Set, Tuple

from ..core import AnalysisError, ClassInfo, FunctionInfo, call_name, kwarg, unparse, walk_no_nested
from ..exprs import canon_unparse, cmp_canon
from ..flow import possibly_unbound
from ..selftest import B, M
from .common import (
    F_BASE, F_BC, F_BIN, F_CONT, F_DISC, F_GL, F_MULTI, F_QUAL, F_QUAN, F_SER, F_TYPE,
    calls, cfg_of, concrete_classes, construct, discretizer_classes, loc, path_str, short,
)
from .grouped import _flatten_conditions, check_append_absent
from . import c10, carver, quant

EXPLANATION = (
    "Decides: R-remove-complete (effect analysis: for every concrete class, the _remove_feature chain "
    "resolved through its MRO removes / marks the feature in every per-feature attribute that the "
    "class or an ancestor initialises -- the frozen table plus every attribute whose initial value is "
    "derived from a feature list; removals requested outside _remove_feature dispatch to the most "
    "derived override); R-pool-args (a computed multiprocessing chunk size is clamped to >= 1); R-select-nonempty "
    "(numpy.select never sees an empty condition list); R-apply-reduce (DataFrame.apply(unique) keeps one array per column: "
    "result_type='reduce', otherwise pandas IndexingError on single / homogeneous columns: D29); R-chi2-rows (the zero-filled aggregate table must be restricted to its non-empty rows, or the call guarded, before "
    "scipy's chi2_contingency sees it: known finding D30 at the raw association of _carve_feature); R-index-kept (the transformed "
    "frame keeps the caller's index: every later stage of fit aligns on it); R-forward-sentinels (inner discretizers get the "
    "outer str_nan / str_default: otherwise isfinite meets a foreign sentinel string); R-aggregate-fill "
    "(aggregates reindexed on the modalities state their fill value: no NaN / float in place of a list); "
    "R-no-iter-mutation (no loop iterates a self list that its body "
    "mutates); R-boundaries-sorted-unique-inf (unique leaders); R-definite-assignment "
    "(predicate-sensitive, same-test correlation: no read of a possibly unbound local in the "
    "discretizer / carver modules, i.e. no UnboundLocalError path); R-nullable-dev (every value derived "
    "from the optional X_dev / y_dev is dereferenced only under an `is not None` guard, followed "
    "through the calls); R-hooks-exhaustive; R-quantile-progress (the recursion of np_find_quantiles "
    "only continues on sub-arrays that exclude the over-represented values, and guard and mask use the "
    "same comparison); R-append-absent (no append of a possibly present value outside "
    "ChainedDiscretizer, which C18 covers)."
)
NOT_DECIDED = "absence of every other internal error on all inputs; that the fitted partition covers every training value"
FLOORS = {"R-stale-features": 3, "R-suffix": 6, "R-remove-complete": 12, "R-no-iter-mutation": 3, "R-boundaries-sorted-unique-inf": 4, "R-definite-assignment": 100, "R-nullable-dev": 6, "R-hooks-exhaustive": 2, "R-quantile-progress": 2, "R-append-absent": 9, "R-pool-args": 1, "R-select-nonempty": 2, "R-forward-sentinels": 8, "R-aggregate-fill": 2, "R-apply-reduce": 3, "R-index-kept": 1, "R-chi2-rows": 1}

PER_FEATURE = {
    "features", "qualitative_features", "quantitative_features", "values_orders", "input_dtypes", "labels_per_values",
    "features_dropna", "features_casting", "ordinal_features", "non_ordinal_features", "_history",
}
FEATURE_LISTS = {"features", "quantitative_features", "qualitative_features", "ordinal_features"}


def _feature_derived(value: ast.expr) -> bool:
    for n in ast.walk(value):
        if isinstance(n, ast.comprehension) and any(isinstance(t, ast.Name) and t.id == "feature" for t in ast.walk(n.target)):
            return True
        if isinstance(n, ast.Name) and n.id in FEATURE_LISTS:
            return True
    return False


def rule_remove_complete(ctx):
    R = "R-remove-complete"
    repo, eng = ctx.repo, ctx.effects
    for ci in concrete_classes(repo):
        required: Dict[str, str] = {}
        for c in repo.mro(ci):
            init = c.methods.get("__init__")
            if init is None:
                continue
            for n in walk_no_nested(init.node):
                if isinstance(n, (ast.Assign, ast.AnnAssign)):
                    tgts = n.targets if isinstance(n, ast.Assign) else [n.target]
                    for t in tgts:
                        if isinstance(t, ast.Attribute) and isinstance(t.value, ast.Name) and t.value.id == "self":
                            empty = n.value is None or (isinstance(n.value, ast.Constant) and n.value.value is None)
                            if (t.attr in PER_FEATURE and not (empty and t.attr == "_history")) or (not empty and _feature_derived(n.value)):
                                required.setdefault(t.attr, c.name)
        rm = repo.lookup_method(ci, "_remove_feature")
        if rm is None:
            ctx.ob(R, f"{ci.name}._remove_feature exists", False, loc(ci))
            continue
        summ = eng.summary(rm, ci, None)
        touched = {e.path[1] for e in summ.events if e.path[0] == "self" and e.path[1]}
        missing = sorted(a for a in required if a not in touched and a not in ("known_values", "chained_orders"))
        ctx.ob(R, f"{ci.name}._remove_feature::covers {sorted(required)}", not missing, loc(rm),
               "" if not missing else f"a dropped feature stays in self.{missing[0]} (initialised in {required[missing[0]]}.__init__): per-feature attributes no longer refer to the kept features only")
    # the removal itself: guarded by membership so that a second removal is a no-op, and casting bookkeeping
    fi = repo.find_function(f"{F_BASE}::BaseDiscretizer._remove_feature")
    first = [s for s in fi.node.body if not (isinstance(s, ast.Expr) and isinstance(s.value, ast.Constant))]
    ok = len(first) == 1 and isinstance(first[0], ast.If) and cmp_canon(first[0].test) == ("feature", "in", "self.features")
    ctx.ob(R, construct(fi, "removal is a no-op for a feature that is not (or no longer) fitted"), ok, loc(fi))


def rule_remove_dispatch(ctx):
    """A removal requested by a method other than _remove_feature itself must reach the most derived
    _remove_feature of the object: `super()._remove_feature(...)` there skips the overrides that clean
    the subclass' own per-feature lists."""
    R = "R-remove-complete"
    repo = ctx.repo
    for fi in repo.all_functions():
        if fi.cls is None or fi.name == "_remove_feature":
            continue
        for c in walk_no_nested(fi.node):
            if not (isinstance(c, ast.Call) and isinstance(c.func, ast.Attribute) and c.func.attr == "_remove_feature"):
                continue
            f = c.func
            if isinstance(f.value, ast.Call) and call_name(f.value) == "super":
                skipped = []
                for ci in concrete_classes(repo):
                    if fi.cls in repo.mro(ci):
                        full = repo.lookup_method(ci, "_remove_feature")
                        used = repo.lookup_method(ci, "_remove_feature", after=fi.cls)
                        if full is not None and (used is None or full.key != used.key):
                            skipped.append(f"{ci.name}: {full.qualname} skipped")
                ctx.ob(R, construct(fi, "super()._remove_feature(...) bypasses no override"), not skipped, loc(fi, c),
                       "" if not skipped else "; ".join(skipped[:3]) + " -- the subclass' own per-feature lists keep the dropped feature")
            elif isinstance(f.value, ast.Name) and f.value.id == "self":
                ctx.ob(R, construct(fi, "self._remove_feature(...) dispatches to the most derived removal"), True, loc(fi, c))


def rule_pool_chunksize(ctx):
    """multiprocessing raises ValueError for chunksize < 1: a computed chunk size must be clamped."""
    R = "R-pool-args"
    n = 0
    for fi in ctx.repo.all_functions():
        for c in walk_no_nested(fi.node):
            if isinstance(c, ast.Call) and isinstance(c.func, ast.Attribute) and c.func.attr in ("imap", "imap_unordered", "map", "starmap", "map_async", "starmap_async"):
                if "pool" not in unparse(c.func.value).lower():
                    continue
                n += 1
                cs = kwarg(c, "chunksize") or (c.args[2] if len(c.args) > 2 else None)
                ok = True
                if cs is not None:
                    v = cs
                    ok = False
                    if isinstance(v, ast.Constant) and isinstance(v.value, int) and v.value >= 1:
                        ok = True
                    elif isinstance(v, ast.Call) and call_name(v) == "max" and any(isinstance(a, ast.Constant) and isinstance(a.value, int) and a.value >= 1 for a in v.args):
                        ok = True
                    elif isinstance(v, ast.BoolOp) and isinstance(v.op, ast.Or) and isinstance(v.values[-1], ast.Constant) and v.values[-1].value >= 1:
                        ok = True
                    elif isinstance(v, ast.BinOp) and isinstance(v.op, ast.Add) and any(isinstance(a, ast.Constant) and isinstance(a.value, int) and a.value >= 1 for a in (v.left, v.right)):
                        ok = True
                ctx.ob(R, construct(fi, f"{c.func.attr}: chunk size is absent or provably >= 1"), ok, loc(fi, c),
                       "" if ok else f"chunksize={short(cs)} can be 0 (e.g. more workers than features): multiprocessing raises ValueError, not AssertionError")
    if n == 0:
        ctx.ob(R, "no pool.map/imap call", True, "")


def rule_definite_assignment(ctx):
    R = "R-definite-assignment"
    n = 0
    for fi in ctx.repo.all_functions():
        if "/selectors/" in fi.module.relpath:
            continue
        n += 1
        probs = possibly_unbound(fi.node)
        if probs:
            seen = set()
            for name, node in probs:
                if name in seen:
                    continue
                seen.add(name)
                ctx.ob(R, construct(fi, f"local `{name}` may be read before assignment"), False, loc(fi, node), "UnboundLocalError on some path")
        else:
            ctx.ob(R, construct(fi, "every local is assigned before use on all paths"), True, loc(fi))


# ---- nullable dev sample ------------------------------------------------------------------------


def _resolve_call(repo, fi: FunctionInfo, c: ast.Call, recv: ClassInfo) -> Optional[FunctionInfo]:
    f = c.func
    if isinstance(f, ast.Name):
        sym = repo.resolve_name(fi.module, f.id)
        return sym if isinstance(sym, FunctionInfo) else None
    if isinstance(f, ast.Attribute):
        if isinstance(f.value, ast.Name) and f.value.id == "self" and recv is not None:
            return repo.lookup_method(recv, f.attr)
        if isinstance(f.value, ast.Call) and call_name(f.value) == "super" and fi.cls is not None and recv is not None:
            return repo.lookup_method(recv, f.attr, after=fi.cls)
        if isinstance(f.value, ast.Name):
            # local object built by a package constructor in this function
            for n in walk_no_nested(fi.node):
                if isinstance(n, ast.Assign) and len(n.targets) == 1 and isinstance(n.targets[0], ast.Name) and n.targets[0].id == f.value.id and isinstance(n.value, ast.Call) and isinstance(n.value.func, ast.Name):
                    sym = repo.resolve_name(fi.module, n.value.func.id)
                    if isinstance(sym, ClassInfo):
                        return repo.lookup_method(sym, f.attr)
    return None


def _bind_args(callee: FunctionInfo, c: ast.Call) -> Dict[str, ast.expr]:
    params = callee.params
    if callee.cls is not None and params and params[0] == "self":
        params = params[1:]
    out = {}
    for i, a in enumerate(c.args):
        if i < len(params) and not isinstance(a, ast.Starred):
            out[params[i]] = a
    for k in c.keywords:
        if k.arg:
            out[k.arg] = k.value
    return out


class _Nullable:
    def __init__(self, ctx, recv: ClassInfo):
        self.ctx = ctx
        self.repo = ctx.repo
        self.recv = recv
        self.done: Set[tuple] = set()
        self.findings: List[Tuple[FunctionInfo, ast.AST, str]] = []
        self.checked: List[str] = []

    def returns_nullable(self, fi: FunctionInfo, nullable: Set[str], depth=0):
        """None / 'value' / ('tuple', [bools]) / 'container': may the result be None (or hold None)?"""
        if depth > 5:
            return None
        names, containers = self.local_nullables(fi, nullable, depth)
        rets = [r for r in walk_no_nested(fi.node) if isinstance(r, ast.Return) and r.value is not None]
        res = None
        for r in rets:
            v = r.value
            if isinstance(v, ast.Tuple):
                flags = [isinstance(e, ast.Name) and e.id in names for e in v.elts]
                if any(flags):
                    res = ("tuple", flags)
            elif isinstance(v, ast.Name) and v.id in containers:
                res = "container"
            elif isinstance(v, ast.Name) and v.id in names:
                res = "value"
        return res

    def local_nullables(self, fi: FunctionInfo, nullable: Set[str], depth=0, cont: Set[str] = frozenset()):
        names = set(nullable)
        containers: Set[str] = set(cont)
        changed = True
        while changed:
            changed = False
            for n in walk_no_nested(fi.node):
                if not isinstance(n, ast.Assign):
                    continue
                v = n.value
                tgts = n.targets[0]
                new_names, new_cont = set(), set()
                if isinstance(v, ast.Name) and v.id in names and isinstance(tgts, ast.Name):
                    new_names.add(tgts.id)
                elif isinstance(v, ast.Constant) and v.value is None and isinstance(tgts, ast.Name):
                    # `x = None` followed by a guarded re-assignment: x stays possibly None
                    others = [m for m in walk_no_nested(fi.node) if isinstance(m, ast.Assign) and m is not n and any(isinstance(t, ast.Name) and t.id == tgts.id for t in m.targets)]
                    cfg = cfg_of(self.ctx, fi)
                    if others and all(any(isinstance(x, ast.Name) and x.id in names for t, pol in cfg.path_conditions(m) for x in ast.walk(t)) for m in others):
                        new_names.add(tgts.id)
                elif isinstance(v, ast.DictComp) and isinstance(v.value, ast.Constant) and v.value.value is None and isinstance(tgts, ast.Name):
                    cfg = cfg_of(self.ctx, fi)
                    new_cont.add(tgts.id)
                elif isinstance(v, ast.Subscript) and isinstance(v.value, ast.Name) and v.value.id in containers and isinstance(tgts, ast.Name):
                    new_names.add(tgts.id)
                elif isinstance(v, ast.Call):
                    callee = _resolve_call(self.repo, fi, v, self.recv)
                    if callee is not None:
                        b = _bind_args(callee, v)
                        sub = {p for p, a in b.items() if isinstance(a, ast.Name) and a.id in names}
                        if sub:
                            r = self.returns_nullable(callee, sub, depth + 1)
                            if r == "value" and isinstance(tgts, ast.Name):
                                new_names.add(tgts.id)
                            elif r == "container" and isinstance(tgts, ast.Name):
                                new_cont.add(tgts.id)
                            elif isinstance(r, tuple) and isinstance(tgts, ast.Tuple) and len(tgts.elts) == len(r[1]):
                                for t, f in zip(tgts.elts, r[1]):
                                    if f and isinstance(t, ast.Name):
                                        new_names.add(t.id)
                elif isinstance(v, ast.Tuple) and isinstance(tgts, ast.Tuple) and len(v.elts) == len(tgts.elts):
                    for t, e in zip(tgts.elts, v.elts):
                        if isinstance(e, ast.Name) and e.id in names and isinstance(t, ast.Name):
                            new_names.add(t.id)
                if not new_names <= names or not new_cont <= containers:
                    names |= new_names
                    containers |= new_cont
                    changed = True
        return names, containers

    def visit(self, fi: FunctionInfo, nullable: Set[str], depth=0, cont: Set[str] = frozenset()):
        key = (fi.key, frozenset(nullable), frozenset(cont))
        if key in self.done or depth > 8:
            return
        self.done.add(key)
        cfg = cfg_of(self.ctx, fi)
        names, containers = self.local_nullables(fi, nullable, 0, cont)
        self.checked.append(f"{fi.qualname}({', '.join(sorted(nullable))})")
        # reassignment from a non-null source un-nulls? (x_dev_copy = discretizer.transform(...) under guard) -- keep conservative
        for n in walk_no_nested(fi.node):
            base = None
            if isinstance(n, ast.Attribute) and isinstance(n.value, ast.Name) and isinstance(n.ctx, ast.Load):
                base = n.value
            elif isinstance(n, ast.Subscript) and isinstance(n.value, ast.Name) and isinstance(n.ctx, ast.Load):
                base = n.value
            if base is None or base.id not in names:
                continue
            if self.guarded(cfg, fi, n, base.id):
                continue
            if self.redefined_non_null(cfg, fi, n, base.id, names):
                continue
            self.findings.append((fi, n, base.id))
        # propagate into callees
        for c in [x for x in walk_no_nested(fi.node) if isinstance(x, ast.Call)]:
            callee = _resolve_call(self.repo, fi, c, self.recv)
            if callee is None:
                continue
            b = _bind_args(callee, c)
            sub, subc = set(), set()
            for p, a in b.items():
                if isinstance(a, ast.Name) and a.id in names and not self.guarded(cfg, fi, c, a.id):
                    sub.add(p)
                if isinstance(a, ast.Name) and a.id in containers:
                    subc.add(p)
            if sub or subc:
                self.visit(callee, sub, depth + 1, subc)

    def redefined_non_null(self, cfg, fi, node, name, names) -> bool:
        """A dominating assignment gives the name a value that cannot be None (a library call result
        such as ``xtab.copy()``), under whatever guard that assignment sits."""
        for a in walk_no_nested(fi.node):
            if isinstance(a, ast.Assign) and len(a.targets) == 1 and isinstance(a.targets[0], ast.Name) and a.targets[0].id == name:
                v = a.value
                if isinstance(v, ast.Constant) or (isinstance(v, ast.Name) and v.id in names):
                    continue
                if isinstance(v, ast.Call):
                    callee = _resolve_call(self.repo, fi, v, self.recv)
                    if callee is not None:
                        b = _bind_args(callee, v)
                        sub = {p for p, x in b.items() if isinstance(x, ast.Name) and x.id in names}
                        if sub and self.returns_nullable(callee, sub, 1) is not None:
                            continue
                if cfg.before(a, node):
                    return True
        return False

    def guarded(self, cfg, fi, node, name) -> bool:
        # a guard on the value a name was copied from guards the copy as well
        group = {name}
        changed = True
        while changed:
            changed = False
            for n in walk_no_nested(fi.node):
                if isinstance(n, ast.Assign) and isinstance(n.value, ast.Name) and len(n.targets) == 1 and isinstance(n.targets[0], ast.Name):
                    if n.targets[0].id in group and n.value.id not in group:
                        group.add(n.value.id)
                        changed = True
        for t, pol in _flatten_conditions(cfg.path_conditions(node)):
            cc = cmp_canon(t)
            if cc and cc[0] in group and cc[2] == "None" and ((cc[1] == "is not" and pol) or (cc[1] == "is" and not pol)):
                return True
        # early exit: `if name is None: return ...` dominating the use
        for s in walk_no_nested(fi.node):
            if isinstance(s, ast.If) and cmp_canon(s.test) == (name, "is", "None") and s.body and isinstance(s.body[-1], (ast.Return, ast.Raise)):
                if cfg.before(s.test, node):
                    return True
        return False


def rule_nullable_dev(ctx):
    R = "R-nullable-dev"
    repo = ctx.repo
    total = 0
    for cname in ("BinaryCarver", "ContinuousCarver"):
        ci = repo.find_class(cname)
        nl = _Nullable(ctx, ci)
        for entry in ("fit",):
            fi = repo.lookup_method(ci, entry)
            nl.visit(fi, {"X_dev"})  # y_dev is None exactly when X_dev is (well-formed input)
        seen = set()
        for fi, node, name in nl.findings:
            k = (fi.key, unparse(node))
            if k in seen:
                continue
            seen.add(k)
            ctx.ob(R, construct(fi, f"`{short(node, 60)}` dereferences `{name}` which is None when no dev sample is given"), False, loc(fi, node),
                   "AttributeError / TypeError instead of a fitted object when X_dev is omitted")
        total += len(nl.checked)
        for c in nl.checked:
            if not any(f.qualname == c.split("(")[0] for f, _, _ in nl.findings):
                ctx.ob(R, f"[{cname}] {c}: every dereference of the optional dev values is guarded", True, "")
    return total


def rule_quantile_progress(ctx):
    R = "R-quantile-progress"
    fi = ctx.repo.find_function(f"{F_QUAN}::np_find_quantiles")
    rec = [c for c in ast.walk(fi.node) if isinstance(c, ast.Call) and call_name(c) == "np_find_quantiles"]
    ok = bool(rec)
    for c in rec:
        a0 = canon_unparse(c.args[0])
        ok = ok and "~in1d(df_feature,frequent_values)" in a0 and ("i==sub_indices" in a0 or "sub_indices==i" in a0)
    ctx.ob(R, construct(fi, "the recursion continues on sub-arrays without the over-represented values (strictly smaller)"), ok, loc(fi, rec[0] if rec else None),
           "" if ok else "a recursive call on an array that still holds the frequent value never terminates (RecursionError)")
    base = [s for s in walk_no_nested(fi.node) if isinstance(s, ast.If) and cmp_canon(s.test) in (("0", "==", "df_feature.shape[0]"), ("0", "==", "len(df_feature)"))]
    ok = len(base) == 1 and isinstance(base[0].body[-1], ast.Return)
    ctx.ob(R, construct(fi, "empty sub-array ends the recursion"), ok, loc(fi))


def rule_stale_feature_snapshot(ctx):
    """A value computed from `self.features` before features are removed (a per-column statistic, a
    list of columns) is a snapshot of the old feature list: used after the removals to select or to
    describe features it brings the dropped ones back (their values_orders entry is re-created).  The
    only use such a snapshot may have after the removal loop started is driving that loop."""
    R = "R-stale-features"
    for fi in ctx.repo.all_functions():
        if fi.cls is None or "/selectors/" in fi.module.relpath:
            continue
        rms = [c for c in calls(fi, "_remove_feature") if isinstance(c.func.value, ast.Name) and c.func.value.id == "self"]
        if not rms:
            continue
        cfg = cfg_of(ctx, fi)
        loops = [l for c in rms for l in cfg.enclosing_loops(c) if isinstance(l, (ast.For, ast.While))]
        if not loops:
            continue
        first = min(loops, key=lambda l: l.lineno)
        snaps = {}
        for n in walk_no_nested(fi.node):
            if isinstance(n, ast.Assign) and len(n.targets) == 1 and isinstance(n.targets[0], ast.Name) and n.lineno < first.lineno:
                if any(isinstance(x, ast.Attribute) and x.attr == "features" and isinstance(x.value, ast.Name) and x.value.id == "self" for x in ast.walk(n.value)):
                    snaps[n.targets[0].id] = n
        # transitively: values derived from a snapshot before the loop
        changed = True
        while changed:
            changed = False
            for n in walk_no_nested(fi.node):
                if isinstance(n, ast.Assign) and len(n.targets) == 1 and isinstance(n.targets[0], ast.Name) and n.lineno < first.lineno and n.targets[0].id not in snaps:
                    if any(isinstance(x, ast.Name) and x.id in snaps for x in ast.walk(n.value)):
                        snaps[n.targets[0].id] = n
                        changed = True
        last_line = max(getattr(x, "end_lineno", x.lineno) for l in loops for x in [l])
        bad = []
        for n in walk_no_nested(fi.node):
            if isinstance(n, ast.Name) and isinstance(n.ctx, ast.Load) and n.id in snaps and n.lineno > last_line:
                # re-assigned after the loop from the current feature list: no longer a snapshot
                redefined = any(isinstance(a, ast.Assign) and len(a.targets) == 1 and isinstance(a.targets[0], ast.Name) and a.targets[0].id == n.id and last_line < a.lineno <= n.lineno for a in walk_no_nested(fi.node))
                if not redefined:
                    bad.append(n)
        ctx.ob(R, construct(fi, f"no value computed from self.features before the removal loop is used after it ({len(snaps)} snapshot(s))"), not bad, loc(fi, bad[0] if bad else first),
               "" if not bad else f"`{bad[0].id}` was computed from the feature list before features were removed and is used afterwards: a dropped feature is processed again (its values_orders / input_dtypes entry comes back)")


def rule_apply_reduce(ctx):
    """`DataFrame.apply(unique)` yields one array per column -- a Series of arrays -- only when pandas
    is told not to expand them (result_type="reduce"): without it the result is a DataFrame as soon as
    every column happens to have the same number of distinct entries (always the case for a single
    column), and indexing it with the per-feature boolean mask raises pandas' IndexingError."""
    from ..core import External, const_value

    R = "R-apply-reduce"
    n = 0
    for fi in ctx.repo.all_functions():
        if "/selectors/" in fi.module.relpath:
            continue
        for c in walk_no_nested(fi.node):
            if not (isinstance(c, ast.Call) and isinstance(c.func, ast.Attribute) and c.func.attr in ("apply", "agg", "aggregate") and c.args and isinstance(c.args[0], ast.Name)):
                continue
            sym = ctx.repo.resolve_name(fi.module, c.args[0].id)
            if not (isinstance(sym, External) and sym.last == "unique"):
                continue
            n += 1
            rt = kwarg(c, "result_type")
            ok = rt is not None and const_value(rt) == "reduce"
            ctx.ob(R, construct(fi, f"`{short(c, 70)}` keeps one array per column (result_type='reduce')"), ok, loc(fi, c),
                   "" if ok else "without result_type='reduce' the result is a DataFrame whenever all columns have equally many distinct entries (a single column always): the per-feature mask then raises IndexingError instead of the conversion / AssertionError")
    if n == 0:
        raise AnalysisError("no DataFrame.apply(unique) found")


def rule_chi2_rows(ctx):
    """The aggregate table of a feature has one row per fitted modality, *zero-filled* for the
    modalities without observations (R-aggregate-fill).  scipy's chi2_contingency raises ValueError
    as soon as a row is empty (expected frequency 0), so a table handed to BinaryCarver's measure must
    have been restricted to its non-empty rows, or the call guarded.  Decided at the one call that
    receives the raw (ungrouped) table: `_carve_feature`."""
    R = "R-chi2-rows"
    repo = ctx.repo
    fi = repo.find_function(f"{F_BC}::BaseCarver._carve_feature")
    fm = repo.find_function(f"{F_BIN}::BinaryCarver._association_measure")
    chi = [c for c in walk_no_nested(fm.node) if isinstance(c, ast.Call) and call_name(c) == "chi2_contingency"]
    sites = [c for c in walk_no_nested(fi.node) if isinstance(c, ast.Call) and call_name(c) == "_association_measure"]
    if not chi or len(sites) != 1:
        raise AnalysisError("_carve_feature / BinaryCarver._association_measure: chi2 call or raw-association call site not found")
    site = sites[0]
    arg = site.args[0] if site.args else None
    if arg is None:
        raise AnalysisError("_carve_feature: the raw association receives no table")

    def row_filter(node) -> bool:
        # some test on the row totals: X.sum(axis=1) compared with 0, or a try/except around the call
        for n in ast.walk(node):
            if isinstance(n, ast.Compare) and any(isinstance(x, ast.Call) and call_name(x) == "sum" and any(k.arg == "axis" for k in x.keywords) for x in ast.walk(n)):
                return True
            if isinstance(n, ast.Try) and any(isinstance(x, ast.Call) and call_name(x) in ("chi2_contingency", "_association_measure") for b in n.body for x in ast.walk(b)):
                return True
        return False

    protected = row_filter(fi.node) or row_filter(fm.node)
    from ..exprs import single_defs

    sd = single_defs(fi.node)
    for _ in range(3):  # a local standing for the table (`xagg_without_nan = xagg.dropna()`) is looked through
        if isinstance(arg, ast.Name) and arg.id in sd:
            arg = sd[arg.id]
    raw = unparse(arg).replace(".dropna()", "")
    is_raw_table = raw in ("xagg", "xaggs[feature]")
    if not protected and not is_raw_table:
        raise AnalysisError(f"_carve_feature: the table given to the raw association (`{short(arg)}`) was not understood")
    ctx.ob(R, construct(fi, "the raw association is computed on a table without empty modalities"), protected, loc(fi, site),
           "" if protected else "the zero-filled aggregate goes to chi2_contingency unfiltered: a fitted modality without observations (e.g. the bucket of an all-missing quantitative column) makes BinaryCarver.fit raise scipy's ValueError instead of completing / AssertionError")


def check(ctx):
    rule_chi2_rows(ctx)
    rule_apply_reduce(ctx)
    from . import c07 as _c07

    _c07.rule_index_kept(ctx)  # a transformed frame that loses the caller's index breaks every later stage of fit (misaligned target)
    rule_stale_feature_snapshot(ctx)
    from . import c12

    c12.rule_suffix(ctx)  # per-class tables are built from the per-class carver's own (kept) features
    rule_remove_complete(ctx)
    rule_remove_dispatch(ctx)
    rule_pool_chunksize(ctx)
    quant.check_forward_sentinels(ctx, "R-forward-sentinels")
    carver.check_aggregate_fill(ctx, "R-aggregate-fill")
    quant.check_select_nonempty(ctx, "R-select-nonempty")
    c10.rule_no_iter_mutation(ctx)
    quant.check_boundaries(ctx, "R-boundaries-sorted-unique-inf")
    rule_definite_assignment(ctx)
    rule_nullable_dev(ctx)
    carver.check_hooks(ctx, "R-hooks-exhaustive")
    rule_quantile_progress(ctx)
    check_append_absent(ctx, "R-append-absent", select=lambda fi: not (fi.cls is not None and fi.cls.name == "ChainedDiscretizer"))


MUTANTS = [
    M("D29-reverted: ChainedDiscretizer scans the cell types without result_type='reduce'", [(F_QUAL, "        dtypes = (\n            x_copy[self.features].fillna(self.str_nan).map(type).apply(unique, result_type=\"reduce\")\n        )\n", "        dtypes = x_copy[self.features].fillna(self.str_nan).map(type).apply(unique)\n")], "R-apply-reduce", "ChainedDiscretizer._prepare_data", quick=True),
    M("index=X.index dropped from the transformed frame", [(F_BASE, "{feature: values for feature, values in all_transformed}, index=X.index\n", "{feature: values for feature, values in all_transformed}\n")], "R-index-kept"),
    M("column types computed before the identifier-like features are removed", [(F_DISC, "        # checking for ids (unique value per row)\n        max_frequencies = x_copy[self.features].apply(", "        dtypes_before = x_copy[self.features].fillna(self.str_nan).map(type).apply(unique, result_type=\"reduce\")\n        # checking for ids (unique value per row)\n        max_frequencies = x_copy[self.features].apply("), (F_DISC, "        dtypes = (\n            x_copy[self.features].fillna(self.str_nan).map(type).apply(unique, result_type=\"reduce\")\n        )\n", "        dtypes = dtypes_before\n")], "R-stale-features", "QualitativeDiscretizer._prepare_data"),
    M("D4-reverted: duplicated boundaries", [(F_QUAN, "    return list(\n        unique(\n            np_find_quantiles(", "    return list(\n        sorted(\n            np_find_quantiles(")], "R-boundaries-sorted-unique-inf", "unique", quick=True),
    M("D15-reverted: default group appended unconditionally", [(F_QUAL, "                if self.str_default not in order:\n                    order.append(self.str_default)\n", "                order.append(self.str_default)\n")], "R-append-absent", "CategoricalDiscretizer.fit", quick=True),
    M("dropped feature stays in features_dropna", [(F_BASE, "            if feature in self.features_dropna:\n                self.features_dropna.pop(feature)\n", "")], "R-remove-complete", quick=True),
    M("dropped feature stays in input_dtypes", [(F_BASE, "            if feature in self.input_dtypes:\n                self.input_dtypes.pop(feature)\n", "")], "R-remove-complete"),
    M("Discretizer forgets ordinal_features", [(F_DISC, "            super()._remove_feature(feature)\n            if feature in self.ordinal_features:\n                self.ordinal_features.remove(feature)\n\n    @extend_docstring(BaseDiscretizer.fit)\n    def fit(self, X: DataFrame, y: Series) -> None:  # pylint: disable=W0222\n        # checking for previous fits before modifying any attribute\n        self._check_is_not_fitted()\n\n        # Checking for binary target", "            super()._remove_feature(feature)\n\n    @extend_docstring(BaseDiscretizer.fit)\n    def fit(self, X: DataFrame, y: Series) -> None:  # pylint: disable=W0222\n        # checking for previous fits before modifying any attribute\n        self._check_is_not_fitted()\n\n        # Checking for binary target")], "R-remove-complete", "Discretizer._remove_feature"),
    M("new per-feature attribute never cleaned", [(F_BC, "        # historizing everything\n        self._history = {feature: [] for feature in self.features}", "        # historizing everything\n        self._history = {feature: [] for feature in self.features}\n        self._n_tested = {feature: 0 for feature in self.features}")], "R-remove-complete", "BinaryCarver"),
    M("history not marked on removal", [(F_BC, "            if feature in self._history:\n                self._history[feature] += [{\"removed\": True}]\n", "")], "R-remove-complete", "BinaryCarver"),
    M("D7-shape: variable bound on one branch only", [(F_BASE, "    # for quantitative features getting labels per quantile\n    if any(quantitative_features):\n        # getting quantile per group \"name\"\n        _, labels_to_quantiles", "    # for quantitative features getting labels per quantile\n    if len(quantitative_features) > 1:\n        # getting quantile per group \"name\"\n        _, labels_to_quantiles")], "R-definite-assignment", "convert_to_values"),
    M("nan_value bound under another test than its use", [(F_BASE, "    # converting nans to there value\n    if any(nans):\n        df_feature[nans] = labels_per_values[feature].get(nan_value, str_nan)", "    # converting nans to there value\n    if len(values_to_group) > 0:\n        df_feature[nans] = labels_per_values[feature].get(nan_value, str_nan)")], "R-definite-assignment", "transform_quantitative_feature"),
    M("xagg_apply_order drops its None guard", [(F_BC, "    combi_xagg = None\n    if xagg is not None:\n        # grouping modalities in the crosstab\n        groups = list(map(order.get_group, xagg.index))\n        combi_xagg = xagg.groupby(groups, dropna=False, sort=False).sum()\n", "    # grouping modalities in the crosstab\n    groups = list(map(order.get_group, xagg.index))\n    combi_xagg = xagg.groupby(groups, dropna=False, sort=False).sum()\n")], "R-nullable-dev", "xagg_apply_order", quick=True),
    M("dev sample transformed unconditionally", [(F_BC, "        if x_dev_copy is not None:\n            x_dev_copy = discretizer.transform(x_dev_copy, y_dev)", "        x_dev_copy = discretizer.transform(x_dev_copy, y_dev)")], "R-nullable-dev"),
    M("filter_nan drops its None guard", [(F_BC, "    filtered_xagg = None\n    if xagg is not None:\n        # filtering out nans if requested from train crosstab\n        filtered_xagg = xagg.copy()\n        if str_nan in xagg.index:\n            filtered_xagg = xagg.drop(str_nan, axis=0)\n", "    filtered_xagg = xagg.copy()\n    if str_nan in xagg.index:\n        filtered_xagg = xagg.drop(str_nan, axis=0)\n")], "R-nullable-dev", "filter_nan"),
    M("binary aggregator without dev guard", [(F_BIN, "        xtabs = {feature: None for feature in features}\n        if X is not None:\n            # crosstab for each feature\n            for feature in features:\n                # computing crosstab with str_nan\n                xtab = crosstab(X[feature], y)\n\n                # reordering according to known_order\n                xtab = xtab.reindex(labels_orders[feature], fill_value=0)\n\n                # storing results\n                xtabs.update({feature: xtab})",
       "        xtabs = {feature: None for feature in features}\n        for feature in features:\n            # computing crosstab with str_nan\n            xtab = crosstab(X[feature], y)\n\n            # reordering according to known_order\n            xtab = xtab.reindex(labels_orders[feature], fill_value=0)\n\n            # storing results\n            xtabs.update({feature: xtab})")], "R-nullable-dev", "_aggregator"),
    M("removal bypasses the subclass override", [(F_DISC, "                    UserWarning,\n                )\n                self._remove_feature(feature)\n\n        # checking for columns containing floats or integers even with filled nans", "                    UserWarning,\n                )\n                super()._remove_feature(feature)\n\n        # checking for columns containing floats or integers even with filled nans")], "R-remove-complete", "QualitativeDiscretizer._prepare_data"),
    M("chunk size computed by floor division", [(F_QUAN, "                    self.quantitative_features,\n                )\n        # storing into the values_orders", "                    self.quantitative_features,\n                    chunksize=len(self.quantitative_features) // self.n_jobs,\n                )\n        # storing into the values_orders")], "R-pool-args"),
    M("D23-reverted: select on an empty condition list", [(F_QUAL, "                if len(values_to_group) > 0:\n                    x_copy[feature] = select(df_to_input, groups_value, default=x_copy[feature])\n", "                x_copy[feature] = select(df_to_input, groups_value, default=x_copy[feature])\n")], "R-select-nonempty", "ChainedDiscretizer.fit"),
    M("transform selects without the emptiness guard", [(F_BASE, "    if len(values_to_group) > 0:\n        df_feature = select(values_to_group, group_labels, default=df_feature)", "    df_feature = select(values_to_group, group_labels, default=df_feature)")], "R-select-nonempty", "transform_quantitative_feature"),
    M("D27-reverted: inner BaseDiscretizer built with hard-coded sentinels", [("AutoCarver/discretizers/discretizers.py", "            str_nan=self.str_nan,\n            str_default=self.str_default,\n            n_jobs=self.n_jobs,\n        )\n        x_copy = base_discretizer.fit_transform(x_copy, y)", "            str_nan=\"__NAN__\",\n            str_default=\"__OTHER__\",\n            n_jobs=self.n_jobs,\n        )\n        x_copy = base_discretizer.fit_transform(x_copy, y)")], "R-forward-sentinels", "BaseDiscretizer", quick=True),
    M("str_nan not forwarded to the OrdinalDiscretizer that merges rare quantiles", [(F_DISC, "                values_orders=self.values_orders,\n                str_nan=self.str_nan,\n                copy=False,\n                verbose=self.verbose,\n                input_dtypes=self.input_dtypes,", "                values_orders=self.values_orders,\n                copy=False,\n                verbose=self.verbose,\n                input_dtypes=self.input_dtypes,")], "R-forward-sentinels", "OrdinalDiscretizer"),
    M("continuous aggregate without fill value", [(F_CONT, "yval = yval.reindex(labels_orders[feature], fill_value=[])", "yval = yval.reindex(labels_orders[feature])")], "R-aggregate-fill", "ContinuousCarver"),
    M("recursion keeps the frequent values", [(F_QUAN, "df_feature[(sub_indices == i) & (~in1d(df_feature, frequent_values))], q, len_df, []", "df_feature[(sub_indices == i)], q, len_df, []")], "R-quantile-progress"),
    M("carving loop iterates self.features while removing", [(F_BC, "        all_features = self.features[:]  # (features are being removed from self.features)\n        for n, feature in enumerate(all_features):", "        all_features = self.features  # (features are being removed from self.features)\n        for n, feature in enumerate(self.features):")], "R-no-iter-mutation"),
]
BENIGN = [
    B("removal order changed", [(F_BASE, "            if feature in self.features_dropna:\n                self.features_dropna.pop(feature)\n", ""), (F_BASE, "            self.features.remove(feature)\n", "            self.features.remove(feature)\n            if feature in self.features_dropna:\n                self.features_dropna.pop(feature)\n")]),
    B("removal through a helper comprehension", [(F_BASE, "            if feature in self.input_dtypes:\n                self.input_dtypes.pop(feature)\n", "            self.input_dtypes.pop(feature, None)\n")]),
    B("None guard as early return", [(F_BC, "    combi_xagg = None\n    if xagg is not None:\n        # grouping modalities in the crosstab\n        groups = list(map(order.get_group, xagg.index))\n        combi_xagg = xagg.groupby(groups, dropna=False, sort=False).sum()\n\n    return combi_xagg", "    if xagg is None:\n        return None\n    groups = list(map(order.get_group, xagg.index))\n    combi_xagg = xagg.groupby(groups, dropna=False, sort=False).sum()\n\n    return combi_xagg")]),
    B("chunk size clamped", [(F_QUAN, "                    self.quantitative_features,\n                )\n        # storing into the values_orders", "                    self.quantitative_features,\n                    chunksize=max(1, len(self.quantitative_features) // self.n_jobs),\n                )\n        # storing into the values_orders")]),
    B("scalar attribute added to a carver", [(F_BC, "        self.sort_by = sort_by\n", "        self.sort_by = sort_by\n        self.n_features_in = len(self.features)\n")]),
]
