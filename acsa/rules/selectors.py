"""Rules about the selectors shared by C14 and C15."""
from __future__ import annotations

import ast
from fractions import Fraction
from typing import List

from ..core import AnalysisError, External, FunctionInfo, ModuleInfo, call_name, const_value, kwarg, unparse, walk_no_nested
from ..exprs import canon_unparse, cmp_canon, conjuncts, inline, monomial, single_defs
from ..flow import possibly_unbound
from .common import F_BF, F_BM, F_QLF, F_QLM, F_QTF, F_QTM, F_SEL, calls, cfg_of, construct, loc, path_str, short
from .carver import _canon_set, dominating_def
from .grouped import _flatten_conditions

MEASURES_INIT = "AutoCarver/selectors/measures/__init__.py"
FILTERS_INIT = "AutoCarver/selectors/filters/__init__.py"

SIGNED_SOURCES = {"corr", "pearsonr", "spearmanr", "correlation", "corrcoef", "kendalltau"}


def exported(repo, init_rel: str, suffix: str) -> List[FunctionInfo]:
    mod = repo.by_relpath.get(init_rel)
    if mod is None:
        raise AnalysisError(f"anchor module {init_rel} not found")
    out = []
    for name in sorted(mod.imports):
        if name.endswith(suffix):
            sym = repo.resolve_name(mod, name)
            if isinstance(sym, FunctionInfo):
                out.append(sym)
    return out


def selector_functions(repo) -> List[FunctionInfo]:
    return [f for f in repo.all_functions() if "/selectors/" in f.module.relpath]


# ---------------------------------------------------------------------------------------------
def check_rank_desc(ctx, rule: str):
    fi = ctx.repo.find_function(f"{F_SEL}::BaseSelector._select_features")
    cfg = cfg_of(ctx, fi)
    svs = calls(fi, "sort_values")
    ok = len(svs) >= 2
    for c in svs:
        asc = kwarg(c, "ascending")
        by = unparse(c.args[0]) if c.args else unparse(kwarg(c, "by"))
        ok = ok and asc is not None and const_value(asc) is False and by in ("measure_names", "measure_name")
    ctx.ob(rule, construct(fi, f"the {len(svs)} rankings sort on the evaluated measure(s) in decreasing order"), ok, loc(fi, svs[0] if svs else None),
           "" if ok else "ascending order ranks the least associated features first")
    # cut on the filtered table
    sel_all = [n for n in walk_no_nested(fi.node) if isinstance(n, ast.Assign) and unparse(n.targets[0]) == "selected_features"]
    # an empty default (`selected_features = []`) next to the comprehension is the same selection
    sel = [n for n in sel_all if not (isinstance(n.value, ast.List) and not n.value.elts)]
    ok = False
    if len(sel) == 1 and isinstance(sel[0].value, ast.ListComp):
        lc = sel[0].value
        sdefs = single_defs(fi.node)
        cj = [c for cond in lc.generators[0].ifs for c in conjuncts(cond)]
        canon = [cmp_canon(inline(fi.node, c, defs=sdefs)) for c in cj]
        v = unparse(lc.generators[0].target)
        want = unparse(inline(fi.node, ast.parse("filtered_association.index[:n_best]", mode="eval").body, defs=sdefs))
        ok = (v, "in", want) in canon and unparse(lc.generators[0].iter) == "initial_associations.index" and unparse(lc.elt) == v
    ctx.ob(rule, construct(fi, "per measure: the first n_best rows of the FILTERED ranking, listed in the initial ranking order"), ok, loc(fi, sel[0] if sel else None))
    fa = [n for n in walk_no_nested(fi.node) if isinstance(n, ast.Assign) and unparse(n.targets[0]) == "filtered_association"]
    ok = len(fa) == 1 and isinstance(fa[0].value, ast.Call) and call_name(fa[0].value) == "apply_filters" and unparse(fa[0].value.args[1]) == "associations"
    assoc = [n for n in walk_no_nested(fi.node) if isinstance(n, ast.Assign) and unparse(n.targets[0]) == "associations"]
    ok = ok and len(assoc) == 1 and "initial_associations.sort_values(measure_name" in unparse(assoc[0].value)
    ctx.ob(rule, construct(fi, "filters receive the ranking of the measure being processed"), ok, loc(fi))
    rets = [r for r in walk_no_nested(fi.node) if isinstance(r, ast.Return)]
    bf = [n for n in walk_no_nested(fi.node) if isinstance(n, ast.Assign) and unparse(n.targets[0]) == "best_features"]
    ok = len(rets) == 1 and unparse(rets[0].value) == "best_features" and len(bf) == 1 and isinstance(bf[0].value, ast.ListComp) and unparse(bf[0].value.generators[0].iter) == "initial_associations.index" and unparse(bf[0].value.elt) == "feature"
    ctx.ob(rule, construct(fi, "returned features are distinct and ordered by the initial (decreasing) ranking"), ok, loc(fi))
    # measure names: evaluated ones only
    fe = ctx.repo.find_function(f"{F_SEL}::evaluated_measure_names")
    ok = "measure_name in associations and '_measure' in measure_name" in unparse(fe.node)
    ctx.ob(rule, construct(fe, "only measures that were evaluated (column present) rank the features"), ok, loc(fe))


def check_filter_greedy(ctx, rule: str):
    repo = ctx.repo
    fq = repo.find_function(f"{F_QTF}::quantitative_filter")
    cs = _canon_set(fq.node)
    ok = ("thresh_corr", "<", "worst_corr") in cs
    ctx.ob(rule, construct(fq, "quantitative: dropped iff correlation with a better kept feature > thresh_corr (strict)"), ok, loc(fq), "" if ok else f"comparisons {sorted(cs)}")
    defs = single_defs(fq.node)
    ok = unparse(defs.get("prefered_order", ast.Constant(None))) == "ranks.index"
    loops = [n for n in walk_no_nested(fq.node) if isinstance(n, ast.For)]
    ok = ok and len(loops) == 1 and unparse(loops[0].iter) == "prefered_order"
    ctx.ob(rule, construct(fq, "quantitative: features are visited in rank order"), ok, loc(fq))
    tri = [c for c in calls(fq, "triu")]
    ok = len(tri) == 1 and const_value(kwarg(tri[0], "k")) == 1
    cw = [n for n in walk_no_nested(fq.node) if isinstance(n, ast.Assign) and unparse(n.targets[0]) == "corr_with_better_features"]
    ok = ok and len(cw) == 1 and "X_corr.loc[:feature, feature]" in unparse(cw[0].value)
    drop = [c for c in calls(fq, "drop") if "X_corr" in unparse(c.func.value)]
    # the dropped feature leaves both the rows and the columns: .drop(f, axis=0).drop(f, axis=1) or .drop(index=f, columns=f)
    axes = set()
    for c in drop:
        ax = kwarg(c, "axis")
        if c.args and ax is not None and const_value(ax) in (0, 1, "index", "columns"):
            axes.add("rows" if const_value(ax) in (0, "index") else "cols")
        if kwarg(c, "index") is not None:
            axes.add("rows")
        if kwarg(c, "columns") is not None:
            axes.add("cols")
    ok = ok and axes == {"rows", "cols"}
    ctx.ob(rule, construct(fq, "quantitative: only better-ranked, still kept features are compared (upper triangle, dropped rows removed)"), ok, loc(fq))
    corr = [c for c in calls(fq, "corr")]
    ok = len(corr) == 1 and unparse(corr[0].func.value) == "X[prefered_order]" and unparse(corr[0].args[0]) == "corr_measure"
    ctx.ob(rule, construct(fq, "quantitative: correlation matrix of the ranked columns with the requested method"), ok, loc(fq))
    for name, meth in (("spearman_filter", "spearman"), ("pearson_filter", "pearson")):
        f = repo.find_function(f"{F_QTF}::{name}")
        c = [x for x in calls(f, "quantitative_filter")]
        ok = len(c) == 1 and [unparse(a) for a in c[0].args] == ["X", "ranks", f"'{meth}'", "thresh_corr"]
        ctx.ob(rule, construct(f, f"{name} = quantitative_filter(X, ranks, '{meth}', thresh_corr)"), ok, loc(f))
    fw = repo.find_function(f"{F_QLF}::qualitative_worst_corr")
    cfg = cfg_of(ctx, fw)
    drops = [c for c in calls(fw, "drop")]
    ok = False
    if len(drops) == 1:
        conds = _flatten_conditions(cfg.path_conditions(drops[0]))
        cc = [cmp_canon(t) for t, pol in conds if pol]
        ok = any(c and c[0] == "thresh_corr" and c[1] == "<" and "_filter" in c[2] for c in cc)
    ctx.ob(rule, construct(fw, "qualitative: dropped iff association with a better kept feature > thresh_corr (strict)"), ok, loc(fw))
    defs = single_defs(fw.node)
    ok = unparse(defs.get("better_features", ast.Constant(None))) == "list(ranks.loc[:feature].index)[:-1]"
    ctx.ob(rule, construct(fw, "qualitative: compared with the better-ranked features still in ranks"), ok, loc(fw))
    fl = repo.find_function(f"{F_QLF}::qualitative_filter")
    loops = [n for n in walk_no_nested(fl.node) if isinstance(n, ast.For)]
    defs = single_defs(fl.node)
    ok = len(loops) == 1 and unparse(loops[0].iter) == "prefered_order" and unparse(defs.get("prefered_order", ast.Constant(None))) == "ranks.index"
    upd = [n for n in ast.walk(loops[0]) if isinstance(n, ast.Assign) and isinstance(n.targets[0], ast.Tuple) and unparse(n.targets[0].elts[0]) == "ranks"] if loops else []
    ctx.ob(rule, construct(fl, "qualitative: rank order, ranks updated after each drop"), ok and len(upd) == 1, loc(fl))
    init = repo.find_function(f"{F_SEL}::BaseSelector.__init__")
    ok = any(isinstance(n, ast.DictComp) and unparse(n.value).replace(" ", "") == "[thresh_filter]+requested_filters[:]" for n in ast.walk(init.node))
    ctx.ob(rule, construct(init, "thresh_filter (undefined measures dropped) runs before every other filter"), ok, loc(init))
    tf = repo.find_function(f"{F_BF}::thresh_filter")
    ok = any(isinstance(r, ast.Return) and unparse(r.value) == "ranks.dropna(axis=0)" for r in walk_no_nested(tf.node))
    ctx.ob(rule, construct(tf, "thresh_filter drops the rows with an undefined measure"), ok, loc(tf))
    # the table a filter returns holds the kept features only: the kept measurements are joined to
    # the ranking with how='right' (quantitative_filter never prunes `ranks` itself), also when the
    # join sits in a helper shared by the two filters
    for f in (fq,):
        joins = []
        todo, seen = [f], set()
        while todo:
            g = todo.pop()
            if g.key in seen:
                continue
            seen.add(g.key)
            for c in walk_no_nested(g.node):
                if not isinstance(c, ast.Call):
                    continue
                if call_name(c) == "join" and isinstance(c.func, ast.Attribute) and not isinstance(c.func.value, ast.Constant):
                    joins.append((g, c))
                elif isinstance(c.func, ast.Name) and len(seen) < 6:
                    sym = repo.resolve_name(g.module, c.func.id)
                    if isinstance(sym, FunctionInfo):
                        todo.append(sym)
        if not joins:
            raise AnalysisError(f"{f.qualname}: the join of the kept measurements to the ranking was not found")
        for g, c in joins:
            how = kwarg(c, "how")
            ok = how is not None and const_value(how) == "right"
            ctx.ob(rule, construct(f, f"only kept features are returned: the kept measurements are joined with how='right'" + ("" if g is f else f" (in {g.qualname})")), ok, loc(g, c),
                   "" if ok else f"`{unparse(c)[:80]}`: a left join keeps every row of the ranking, the dropped features are returned too")
    af = repo.find_function(f"{F_SEL}::apply_filters")
    loops = [n for n in walk_no_nested(af.node) if isinstance(n, ast.For)]
    ok = len(loops) == 1 and unparse(loops[0].iter) == "filters" and any(isinstance(s, ast.Assign) and unparse(s.targets[0]) == "filtered_associations" and "filtered_associations" in unparse(s.value) for s in loops[0].body)
    ctx.ob(rule, construct(af, "filters are chained on the successively filtered table"), ok, loc(af))


def _signed_calls(fi: FunctionInfo):
    for c in walk_no_nested(fi.node):
        if isinstance(c, ast.Call) and call_name(c) in SIGNED_SOURCES:
            yield c


def _sanitised(cfg, c: ast.Call) -> bool:
    """Is the signed statistic wrapped in abs()/.abs()/even power (possibly through `1 - x`)?"""
    cur = c
    for _ in range(6):
        par = cfg.parent(cur)
        if par is None:
            return False
        if isinstance(par, ast.Attribute) and par.attr == "abs":
            return True
        if isinstance(par, ast.Call) and call_name(par) in ("abs", "fabs", "absolute") and cur in par.args:
            return True
        if isinstance(par, ast.BinOp) and isinstance(par.op, ast.Pow) and const_value(par.right) in (2, 4):
            return True
        if isinstance(par, ast.BinOp) and isinstance(par.op, (ast.Sub, ast.Add)) or isinstance(par, (ast.Subscript, ast.Attribute)) or (isinstance(par, ast.Call) and par.func is cur):
            cur = par
            continue
        return False
    return False


def check_abs_corr(ctx, rule: str, functions: List[FunctionInfo]):
    n = 0
    for fi in functions:
        cfg = cfg_of(ctx, fi)
        for c in _signed_calls(fi):
            n += 1
            ok = _sanitised(cfg, c)
            ctx.ob(rule, construct(fi, f"signed statistic `{short(c, 60)}` goes through abs before it ranks or is compared"), ok, loc(fi, c),
                   "" if ok else "a strong negative association ranks last / is never filtered: negating a feature changes the selection")
    return n


def check_measure_formula(ctx, rule: str):
    repo = ctx.repo

    def leaf(e):
        t = unparse(e).replace(" ", "")
        if t in ("chi2_statistic",):
            return "chi2"
        if t in ("(notna(x)&notna(y)).sum()",):
            return "n"
        if t in ("min(x.nunique(),y.nunique())-1",):
            return "(min-1)"
        if t in ("x.nunique()-1",):
            return "(rx-1)"
        if t in ("y.nunique()-1",):
            return "(ry-1)"
        return None

    for name, want in (
        ("cramerv_measure", {"chi2": Fraction(1, 2), "n": Fraction(-1, 2), "(min-1)": Fraction(-1, 2)}),
        ("tschuprowt_measure", {"chi2": Fraction(1, 2), "n": Fraction(-1, 2), "(rx-1)": Fraction(-1, 4), "(ry-1)": Fraction(-1, 4)}),
    ):
        fi = repo.find_function(f"{F_QLM}::{name}")
        defs = dict(single_defs(fi.node))
        # tuple definitions  n_mod_x, n_mod_y = x.nunique(), y.nunique()
        for n in walk_no_nested(fi.node):
            if isinstance(n, ast.Assign) and isinstance(n.targets[0], ast.Tuple) and isinstance(n.value, ast.Tuple) and len(n.targets[0].elts) == len(n.value.elts):
                for a, b in zip(n.targets[0].elts, n.value.elts):
                    if isinstance(a, ast.Name):
                        defs[a.id] = b
        defs.pop("chi2_statistic", None)
        key = name
        vals = [n for n in ast.walk(fi.node) if isinstance(n, ast.Dict) and any(const_value(k) == key for k in n.keys)]
        c = construct(fi, f"{name} = " + " * ".join(f"{a}^{e}" for a, e in want.items()))
        if len(vals) != 1:
            ctx.ob(rule, c, False, loc(fi), "the measurement under its own name was not found")
            continue
        v = vals[0].values[[const_value(k) for k in vals[0].keys].index(key)]
        # the non-degenerate definition: last sqrt assignment reaching the dict
        expr = v
        if isinstance(v, ast.Name):
            cands = [n.value for n in walk_no_nested(fi.node) if isinstance(n, ast.Assign) and unparse(n.targets[0]) == v.id and not isinstance(n.value, ast.Constant)]
            expr = cands[-1] if cands else v
        m = monomial(inline(fi.node, expr, defs=defs), leaf)
        ctx.ob(rule, c, m == want, loc(fi), "" if m == want else f"found {None if m is None else {a: str(e) for a, e in m.items()}}")
        # chi2 comes from chi2_measure when it is not supplied
        ok = any(isinstance(s, ast.If) and cmp_canon(s.test) == ("chi2_statistic", "is", "None") and "chi2_measure(x, y" in unparse(s) and "measurement.get('chi2_statistic')" in unparse(s) for s in walk_no_nested(fi.node))
        ctx.ob(rule, construct(fi, "chi2 is recomputed with chi2_measure(x, y) when not supplied"), ok, loc(fi))
    fc = repo.find_function(f"{F_QLM}::chi2_measure")
    ok = "crosstab(x, y)" in unparse(fc.node) and "chi2_contingency(xtab)[0]" in unparse(fc.node)
    ctx.ob(rule, construct(fc, "chi2 = chi2_contingency(crosstab(x, y))[0]"), ok, loc(fc))


def check_measure_registry(ctx, rule: str):
    repo = ctx.repo
    EXC = {"chi2_measure": "key chi2_statistic = keyword parameter of cramerv_measure / tschuprowt_measure (cannot rank on its own)",
           "dtype_measure": "descriptive", "nans_measure": "descriptive", "mode_measure": "descriptive", "zscore_measure": "outlier share", "iqr_measure": "outlier share", "make_measure": "wrapper"}
    for fi in exported(repo, MEASURES_INIT, "_measure"):
        if fi.name in ("make_measure",):
            continue
        keys = set()
        for n in ast.walk(fi.node):
            if isinstance(n, ast.Dict):
                keys |= {const_value(k) for k in n.keys}
        rets = [r for r in walk_no_nested(fi.node) if isinstance(r, ast.Return)]
        pair = bool(rets) and all(isinstance(r.value, ast.Tuple) and len(r.value.elts) == 2 for r in rets)
        if fi.name in EXC:
            ok = pair
            if fi.name == "chi2_measure":
                consumers = [repo.find_function(f"{F_QLM}::cramerv_measure"), repo.find_function(f"{F_QLM}::tschuprowt_measure")]
                ok = ok and "chi2_statistic" in keys and all("chi2_statistic" in c.params for c in consumers)
            ctx.ob(rule, construct(fi, "returns (active, measurement)"), ok, loc(fi), "exception: " + EXC[fi.name])
            continue
        dicts = [n for n in ast.walk(fi.node) if isinstance(n, ast.Dict) and n.keys and all(isinstance(k, ast.Constant) and isinstance(k.value, str) for k in n.keys)]
        every = all(fi.name in {k.value for k in d.keys} for d in dicts if any("_measure" in k.value for k in d.keys) or len(d.keys) == 1)
        ok = pair and fi.name in keys and every
        ctx.ob(rule, construct(fi, f"returns (active, {{..., '{fi.name}': value}}): the key the ranking looks up"), ok, loc(fi),
               "" if ok else f"keys written: {sorted(k for k in keys if k)}")
    mm = repo.find_function(f"{F_BM}::make_measure")
    ok = "active, measurement = measure(x, y, **kwargs)" in unparse(mm.node) and "association.update(measurement)" in unparse(mm.node)
    ctx.ob(rule, construct(mm, "make_measure merges the measurement into the association row"), ok, loc(mm))
    rv = repo.find_function(f"{F_BM}::reverse_xy")
    ok = "reversed_measure.__name__ = measure.__name__" in unparse(rv.node) and "return measure(y, x, **kwargs)" in unparse(rv.node)
    ctx.ob(rule, construct(rv, "reverse_xy keeps the measure's name (ranking key) and swaps the arguments"), ok, loc(rv))
    init = repo.find_function(f"{F_SEL}::BaseSelector.__init__")
    ok = "[measure.__name__ for measure in requested_measures[::-1]]" in unparse(init.node)
    ctx.ob(rule, construct(init, "ranking keys are the measures' __name__ (last measure first)"), ok, loc(init))


def check_select_pure(ctx, rule: str):
    repo, eng = ctx.repo, ctx.effects
    sel = repo.find_class("BaseSelector")
    for m in ("select", "_select_features"):
        fi, summ = eng.method_summary(sel, m, None)
        bad = [e for e in summ.events if e.kind == "mut" and e.path[0] in ("p:X", "p:y")]
        for e in bad[:3]:
            ctx.ob(rule, construct(fi, f"{e.fn} mutates {path_str(e.path)[2:]}: {e.expr}"), False, e.where, "select() must not modify X or y")
        if not bad:
            ctx.ob(rule, construct(fi, "X and y are not modified"), True, loc(fi))
    for fi in exported(repo, MEASURES_INIT, "_measure") + exported(repo, FILTERS_INIT, "_filter") + [repo.find_function(f"{F_QTF}::quantitative_filter"), repo.find_function(f"{F_QLF}::qualitative_filter"), repo.find_function(f"{F_QLF}::qualitative_worst_corr")]:
        summ = eng.summary(fi)
        bad = [e for e in summ.events if e.kind == "mut" and e.path[0] in ("p:X", "p:x", "p:y", "p:ranks")]
        for e in bad[:2]:
            ctx.ob(rule, construct(fi, f"{e.fn} mutates its argument {path_str(e.path)[2:]}: {e.expr}"), False, e.where, "measures / filters are called with the caller's data")
        if not bad:
            ctx.ob(rule, construct(fi, "arguments are not modified"), True, loc(fi))
    # features are shuffled on a copy
    fs = repo.find_function(f"{F_SEL}::BaseSelector.select")
    defs = single_defs(fs.node)
    cp = [n for n in walk_no_nested(fs.node) if isinstance(n, ast.Assign) and unparse(n.targets[0]) == "features"]
    ok = bool(cp) and all(unparse(n.value).endswith("[:]") or (isinstance(n.value, ast.Call) and call_name(n.value) in ("list", "copy")) for n in cp)
    ctx.ob(rule, construct(fs, "the configured feature lists are copied before shuffling"), ok, loc(fs))


def check_definite_assignment(ctx, rule: str):
    for fi in selector_functions(ctx.repo):
        probs = possibly_unbound(fi.node)
        seen = set()
        for name, node in probs:
            if name in seen:
                continue
            seen.add(name)
            ctx.ob(rule, construct(fi, f"local `{name}` may be read before assignment"), False, loc(fi, node), "UnboundLocalError on some path (e.g. when an optional argument is supplied)")
        if not probs:
            ctx.ob(rule, construct(fi, "every local is assigned before use on all paths"), True, loc(fi))


def check_union_refiltered(ctx, rule: str):
    fi = ctx.repo.find_function(f"{F_SEL}::BaseSelector._select_features")
    cfg = cfg_of(ctx, fi)
    rets = [r for r in walk_no_nested(fi.node) if isinstance(r, ast.Return)]
    loops = [n for n in walk_no_nested(fi.node) if isinstance(n, ast.For) and unparse(n.iter) == "measure_names"]
    if not rets or not loops:
        raise AnalysisError("_select_features: anchors (per-measure loop, return) not found")
    loop = loops[0]
    per_measure_filter = any(isinstance(c, ast.Call) and call_name(c) == "apply_filters" for c in ast.walk(loop))
    # after the loop: is the joined list filtered again?
    after = [c for c in calls(fi, "apply_filters") if c.lineno > loop.end_lineno]
    bf = [n for n in walk_no_nested(fi.node) if isinstance(n, ast.Assign) and unparse(n.targets[0]) == "best_features" and n.lineno > loop.end_lineno]
    joined = any("for measure in measure_names" in unparse(n.value) and "any(" in unparse(n.value) for n in bf)
    ok = not (per_measure_filter and joined and not after)
    ctx.ob(rule, construct(fi, "join of the per-measure selections is filtered again before it is returned"), ok, loc(fi, bf[0] if bf else None),
           "" if ok else "two features that each ranking alone separates (one filtered out per measure) can both be returned although they are correlated above thresh_corr")


FLOAT_STAT_SOURCES = {"correlation", "sqrt", "abs", "pearsonr", "spearmanr", "fabs"}


def check_no_float_truthiness(ctx, rule: str):
    repo = ctx.repo
    EXC = {("R_measure", "regression.rsquared"): "R^2 = 0 means no association at all: treating it as undefined drops an unassociated feature, never a perfectly associated one"}
    for fi in exported(repo, MEASURES_INIT, "_measure"):
        cfg = cfg_of(ctx, fi)
        n = 0
        for s in walk_no_nested(fi.node):
            if not isinstance(s, ast.If):
                continue
            for t in conjuncts(s.test):
                e = t
                if isinstance(e, ast.Name):
                    d = dominating_def(cfg, fi.node, e.id, s.test)
                    floaty = d is not None and any(isinstance(c, ast.Call) and call_name(c) in FLOAT_STAT_SOURCES for c in ast.walk(d))
                    if floaty:
                        n += 1
                        ctx.ob(rule, construct(fi, f"`if {e.id}:` tests a float statistic for truthiness"), False, loc(fi, s),
                               "the value 0.0 (for a distance: a perfect association) is treated as undefined and the feature is dropped")
                elif isinstance(e, ast.Attribute):
                    key = (fi.name, unparse(e))
                    if key in EXC:
                        n += 1
                        ctx.ob(rule, construct(fi, f"`if {unparse(e)}` (truthiness of a statistic)"), True, loc(fi, s), "exception: " + EXC[key])
        if n == 0:
            ctx.ob(rule, construct(fi, "no float statistic is tested for truthiness"), True, loc(fi))


def check_defaults(ctx, rule: str):
    repo = ctx.repo
    want = {
        "ClassificationSelector": {"quantitative_measures": "[kruskal_measure]", "qualitative_measures": "[tschuprowt_measure]", "quantitative_filters": "[spearman_filter]", "qualitative_filters": "[tschuprowt_filter]"},
        "RegressionSelector": {"quantitative_measures": "[distance_measure]", "qualitative_measures": "[reverse_xy(kruskal_measure)]", "quantitative_filters": "[spearman_filter]", "qualitative_filters": "[tschuprowt_filter]"},
    }
    for cname, table in want.items():
        fi = repo.find_function(f"{cname}.__init__")
        cfg = cfg_of(ctx, fi)
        got = {}
        for n in walk_no_nested(fi.node):
            if isinstance(n, ast.Assign) and isinstance(n.targets[0], ast.Name) and n.targets[0].id in table:
                conds = _flatten_conditions(cfg.path_conditions(n))
                if [(cmp_canon(t), pol) for t, pol in conds] == [((n.targets[0].id, "is", "None"), True)]:
                    got[n.targets[0].id] = unparse(n.value)
        ctx.ob(rule, construct(fi, "default measures / filters per feature type (rank-based or sign-free)"), got == table, loc(fi), "" if got == table else f"found {got}")
        sup = [c for c in calls(fi, "__init__")]
        ok = len(sup) == 1 and {k.arg: unparse(k.value) for k in sup[0].keywords if k.arg in ("measures", "filters")} == {"measures": "measures", "filters": "filters"}
        defs = single_defs(fi.node)
        ok = ok and unparse(defs.get("measures", ast.Constant(None))) == "{'float': quantitative_measures, 'str': qualitative_measures}" and unparse(defs.get("filters", ast.Constant(None))) == "{'float': quantitative_filters, 'str': qualitative_filters}"
        ctx.ob(rule, construct(fi, "quantitative lists go to dtype 'float', qualitative lists to 'str'"), ok, loc(fi))
    # rank based statistics
    fk = repo.find_function(f"{F_QTM}::kruskal_measure")
    ok = "kruskal(*tuple((x[~nans&(y==y_value)]fory_valueiny_values)))" in canon_unparse(fk.node)
    ctx.ob(rule, construct(fk, "kruskal_measure = scipy kruskal over the groups of x by class of y (rank based)"), ok, loc(fk))


def check_column_order_free(ctx, rule: str):
    """The ranking table is built in the order of the selector's feature list (X[features]); the
    column order of X must not decide ties."""
    repo = ctx.repo
    fa = repo.find_function(f"{F_SEL}::apply_measures")
    ap = [c for c in calls(fa, "apply") if any(unparse(a) == "feature_association" for a in c.args)]
    ok = len(ap) == 1 and unparse(ap[0].func.value) == "X[features]"
    ctx.ob(rule, construct(fa, "measures are applied to X[features] (rows of the ranking follow the feature list)"), ok, loc(fa, ap[0] if ap else None),
           "" if ok else f"columns are taken as `{short(ap[0].func.value) if ap else '?'}`: the order of X's columns decides which of two tied features ranks first")
    bad = []
    for fi in selector_functions(repo):
        if fi.name in ("_print_associations",):
            continue
        for n in walk_no_nested(fi.node):
            if isinstance(n, ast.Attribute) and n.attr == "columns" and isinstance(n.value, ast.Name) and n.value.id == "X":
                bad.append((fi, n))
    for fi, n in bad[:3]:
        ctx.ob(rule, construct(fi, "the column order of X is read"), False, loc(fi, n), "permuting the columns of X can change the selection")
    if not bad:
        ctx.ob(rule, "no selector function reads X.columns", True, "")


def check_colsample_cover(ctx, rule: str):
    """With colsample < 1 the feature samples cover every feature: the last sample is open-ended."""
    fs = ctx.repo.find_function(f"{F_SEL}::BaseSelector.select")
    adds = [n for n in walk_no_nested(fs.node) if isinstance(n, ast.AugAssign) and unparse(n.target) == "feature_samples"]
    ok = False
    for a in adds:
        for sub in ast.walk(a.value):
            if isinstance(sub, ast.Subscript) and unparse(sub.value) == "features" and isinstance(sub.slice, ast.Slice) and sub.slice.upper is None and sub.slice.lower is not None:
                ok = True
    defs = single_defs(fs.node)
    fsamp = [n for n in walk_no_nested(fs.node) if isinstance(n, ast.Assign) and unparse(n.targets[0]) == "feature_samples"]
    # hoisted sub-expressions (n_samples = int(1 / self.colsample)) are looked through, `chunks` is kept
    idefs = {k: v for k, v in defs.items() if k not in ("chunks", "features", "feature_samples")}

    def txt(e):
        return unparse(inline(fs.node, e, defs=idefs))

    first_ok = len(fsamp) == 1 and isinstance(fsamp[0].value, ast.ListComp) and "range(int(1 / self.colsample) - 1)" in txt(fsamp[0].value) and "features[chunks * i:chunks * (i + 1)]" in txt(fsamp[0].value)
    last_ok = any("features[chunks * (int(1 / self.colsample) - 1):]" in txt(a.value) for a in adds)
    ctx.ob(rule, construct(fs, "colsample: the k-1 equal chunks plus one open-ended last chunk cover every feature exactly once"), ok and first_ok and last_ok, loc(fs),
           "" if (ok and first_ok and last_ok) else "features beyond the last full chunk are never measured: a feature can be left out for no valid reason")
    loops = [n for n in walk_no_nested(fs.node) if isinstance(n, ast.For) and unparse(n.iter) == "feature_samples"]
    ok2 = len(loops) == 1 and any(isinstance(c, ast.Call) and call_name(c) == "_select_features" and unparse(c.args[2]) == unparse(loops[0].target) for c in ast.walk(loops[0]))
    fin = [c for c in calls(fs, "_select_features") if unparse(c.args[2]) == "best_features"]
    ctx.ob(rule, construct(fs, "every sample is ranked, then the union of the winners is ranked once more"), ok2 and len(fin) == 1, loc(fs))


UNIT_DEPENDENT = {"isclose", "allclose", "round", "around", "rint", "floor", "ceil", "trunc"}



_EVEN_AGG = {"std", "var", "count", "nunique", "size", "isna", "isnull", "notna", "notnull", "between", "isin", "value_counts", "sem", "mad", "kurt", "kurtosis"}


def _signed_in_x(e, defs, seen=None) -> bool:
    """Does the value of `e` change sign / order when the feature x is negated?  (x, x - mean, a
    quantile, the mean are signed; abs(.), an even power, a dispersion statistic, a boolean mask,
    a two-sided test x.between(..) are not)."""
    seen = seen or set()
    if isinstance(e, ast.Name):
        if e.id == "x":
            return True
        if e.id in seen:
            return False
        return any(_signed_in_x(v, defs, seen | {e.id}) for v in defs.get(e.id, []))
    if isinstance(e, (ast.Compare, ast.BoolOp, ast.Constant)):
        return False
    if isinstance(e, ast.UnaryOp):
        return False if isinstance(e.op, ast.Not) else _signed_in_x(e.operand, defs, seen)
    if isinstance(e, ast.BinOp):
        if isinstance(e.op, ast.Pow) and isinstance(e.right, ast.Constant) and isinstance(e.right.value, int) and e.right.value % 2 == 0:
            return False
        return _signed_in_x(e.left, defs, seen) or _signed_in_x(e.right, defs, seen)
    if isinstance(e, ast.Call):
        cn = call_name(e)
        if cn in ("abs", "absolute", "fabs", "square", "len"):
            return False
        if isinstance(e.func, ast.Attribute):
            if cn in _EVEN_AGG or cn == "abs":
                return False
            return _signed_in_x(e.func.value, defs, seen) or any(_signed_in_x(a, defs, seen) for a in e.args)
        # a plain function call (crosstab, kruskal, chi2_contingency, correlation ..) is a statistic other rules read
        if cn in ("Series", "array", "asarray", "float", "where", "nan_to_num"):
            return any(_signed_in_x(a, defs, seen) for a in list(e.args) + [k.value for k in e.keywords])
        return False
    if isinstance(e, (ast.Tuple, ast.List)):
        return any(_signed_in_x(a, defs, seen) for a in e.elts)
    if isinstance(e, ast.Subscript):
        return _signed_in_x(e.value, defs, seen)
    if isinstance(e, ast.Attribute):
        return _signed_in_x(e.value, defs, seen)
    if isinstance(e, ast.IfExp):
        return _signed_in_x(e.body, defs, seen) or _signed_in_x(e.orelse, defs, seen)
    return False


def check_measure_encodings(ctx, rule: str):
    """Exported measures treat the feature in a way that commutes with negation and positive
    rescaling: no absolute tolerance / rounding on raw values, no one-sided order statistic."""
    from ..flow import expr_tainted, tainted_names

    repo = ctx.repo
    for fi in exported(repo, MEASURES_INIT, "_measure"):
        if fi.name == "make_measure":
            continue
        tainted = tainted_names(fi.node, lambda n: False, seeds={"x"})
        bad = []
        for n in walk_no_nested(fi.node):
            if isinstance(n, ast.Call) and call_name(n) in UNIT_DEPENDENT:
                args = list(n.args) + [k.value for k in n.keywords] + ([n.func.value] if isinstance(n.func, ast.Attribute) else [])
                if any(expr_tainted(a, tainted, lambda z: False) for a in args):
                    bad.append((n, "an absolute tolerance / rounding depends on the unit of the feature"))
            if isinstance(n, ast.Call) and call_name(n) in ("quantile", "percentile", "nanquantile"):
                m = kwarg(n, "interpolation") or kwarg(n, "method")
                if m is not None and const_value(m) in ("lower", "higher"):
                    bad.append((n, "'lower' on x is 'higher' on -x: the statistic is not symmetric under negation"))
        # one-sided test of a signed quantity: `(x - mean) > 3 * std` flags the upper tail only, so -x is judged differently
        defs = {}
        for st in walk_no_nested(fi.node):
            if isinstance(st, ast.Assign):
                for t in st.targets:
                    if isinstance(t, ast.Name):
                        defs.setdefault(t.id, []).append(st.value)
                    elif isinstance(t, ast.Tuple) and isinstance(st.value, ast.Tuple) and len(t.elts) == len(st.value.elts):
                        for a, b in zip(t.elts, st.value.elts):
                            if isinstance(a, ast.Name):
                                defs.setdefault(a.id, []).append(b)
                    else:
                        for a in ast.walk(t):
                            if isinstance(a, ast.Name):
                                defs.setdefault(a.id, []).append(st.value)
            elif isinstance(st, ast.AugAssign) and isinstance(st.target, ast.Name):
                defs.setdefault(st.target.id, []).append(st.value)
        for n in walk_no_nested(fi.node):
            if isinstance(n, ast.Compare) and any(isinstance(o, (ast.Lt, ast.LtE, ast.Gt, ast.GtE)) for o in n.ops):
                if any(_signed_in_x(a, defs) for a in [n.left] + list(n.comparators)):
                    bad.append((n, "an order comparison of a quantity that changes sign with the feature (no abs / even power / two-sided test): x and -x are judged differently"))
        for n, why in bad[:2]:
            ctx.ob(rule, construct(fi, f"`{short(n, 60)}` is not invariant under re-encoding"), False, loc(fi, n), why)
        if not bad:
            ctx.ob(rule, construct(fi, "no unit-dependent tolerance / rounding, no one-sided order statistic and no one-sided test of a signed quantity of the feature"), True, loc(fi))


def check_share_denominator(ctx, rule: str):
    """The gate measures (share of the mode, of missing values, of outliers) are shares of *all* rows
    of the feature, the quantity the thresh_* parameters are documented for: the mean of a boolean mask
    over x.  `value_counts(normalize=True)` drops missing values unless dropna=False, so its shares are
    taken over the filled rows only and a feature with missing values is refused although its mode covers
    less than the threshold of the rows."""
    repo = ctx.repo
    n = 0
    for fi in exported(repo, MEASURES_INIT, "_measure"):
        bad = [c for c in walk_no_nested(fi.node) if isinstance(c, ast.Call) and call_name(c) == "value_counts" and kwarg(c, "normalize") is not None
               and const_value(kwarg(c, "normalize")) is True and not (kwarg(c, "dropna") is not None and const_value(kwarg(c, "dropna")) is False)]
        n += 1
        ctx.ob(rule, construct(fi, "shares are taken over all rows of the feature (no value_counts(normalize=True) without dropna=False)"), not bad, loc(fi, bad[0] if bad else None),
               "" if not bad else f"`{short(bad[0], 60)}` normalises by the number of non-missing rows: the share (and the threshold test on it) changes with the missing-value rate")
    return n


def check_filter_wrappers(ctx, rule: str):
    """A named filter applies the statistic it is named after: cramerv_filter -> cramerv_measure,
    tschuprowt_filter -> tschuprowt_measure, spearman_filter -> 'spearman', pearson_filter -> 'pearson'."""
    repo = ctx.repo
    n = 0
    for mod in repo.modules.values():
        if "/selectors/filters/" not in mod.relpath.replace("\\", "/"):
            continue
        for fi in mod.functions.values():
            if not fi.name.endswith("_filter") or fi.name in ("thresh_filter", "quantitative_filter", "qualitative_filter"):
                continue
            stem = fi.name[: -len("_filter")]
            inner = [c for c in calls(fi) if call_name(c) in ("quantitative_filter", "qualitative_filter")]
            if not inner:
                continue
            n += 1
            c = inner[0]
            m = kwarg(c, "corr_measure") or (c.args[2] if len(c.args) > 2 else None)
            txt = unparse(m) if m is not None else ""
            ok = len(inner) == 1 and stem in txt.lower()
            ctx.ob(rule, construct(fi, f"{fi.name} filters on the {stem} statistic"), ok, loc(fi, c),
                   "" if ok else f"it passes `{txt}`: features correlated above thresh_corr for the {stem} statistic can both be returned")
    return n


def check_target_alignment(ctx, rule: str):
    """Rows of X and y are matched by label: a Series / DataFrame built from the values of y or X inside
    the selectors keeps the original index (index=...), otherwise every measure pairs the wrong rows as
    soon as X does not carry the default RangeIndex."""
    repo = ctx.repo
    bad = []
    n = 0
    for mod in repo.modules.values():
        if "/selectors/" not in mod.relpath.replace("\\", "/"):
            continue
        for fi in list(mod.functions.values()) + [m for c in mod.classes.values() for m in c.methods.values()]:
            for c in ast.walk(fi.node):
                if isinstance(c, ast.Call) and call_name(c) in ("Series", "DataFrame") and c.args and isinstance(c.func, ast.Name):
                    a0 = c.args[0]
                    names = {x.id for x in ast.walk(a0) if isinstance(x, ast.Name)}
                    raw = any(isinstance(x, ast.Call) and call_name(x) in ("asarray", "array", "to_numpy", "list", "tolist") for x in ast.walk(a0)) or any(isinstance(x, ast.Attribute) and x.attr == "values" for x in ast.walk(a0))
                    if names & {"X", "y", "x"} and raw:
                        n += 1
                        if kwarg(c, "index") is None:
                            bad.append((fi, c))
    ctx.ob(rule, "selectors::frames rebuilt from the raw values of X / y keep the original index", not bad, loc(bad[0][0], bad[0][1]) if bad else "",
           "" if not bad else f"`{short(bad[0][1], 70)}` in {bad[0][0].qualname} drops the index: measures align rows by label, so a shuffled / filtered X is paired with the wrong targets")
