"""C15 -- feature selection is invariant under re-encodings that keep the information."""
from __future__ import annotations

from ..selftest import B, M
from .common import F_QTF, F_QTM, F_SEL
from . import selectors as S
from .c14 import abs_scope

EXPLANATION = (
    "Decides: R-abs-corr (every signed statistic in the exported measures and in the filters goes "
    "through abs / an even power before it ranks or is compared: negating a feature cannot change "
    "its rank); R-no-float-truthiness (no exported measure tests a float statistic by truthiness: a "
    "perfect association whose statistic is 0.0 must not be reported as undefined; frozen exception: "
    "R_measure's R^2, where 0 means no association); R-rank-desc (rankings are descending on the "
    "measure); R-defaults (default measures / filters per task are the rank-based or sign-free ones: "
    "kruskal, tschuprowt, |correlation|, spearman filter; quantitative lists are routed to dtype "
    "float, qualitative lists to str); R-column-order-free (the ranking table is built over X[features], "
    "never in the order of X's columns, so permuting columns cannot change how ties are broken); "
    "R-colsample-cover (no feature is skipped by the colsample split, so a copy of the target is always measured); "
    "R-encoding-free (exported measures apply no absolute tolerance / rounding to raw values and no one-sided "
    "order statistic, and no order comparison of a quantity that changes sign with the feature (x, x - mean, a quantile) "
    "outside abs / an even power / a two-sided between: they commute with positive rescaling and negation)."
)
NOT_DECIDED = "the invariance of the returned list on data; scipy's statistics"
FLOORS = {"R-abs-corr": 2, "R-no-float-truthiness": 10, "R-rank-desc": 5, "R-defaults": 5, "R-column-order-free": 3, "R-colsample-cover": 2, "R-encoding-free": 10}


def check(ctx):
    S.check_abs_corr(ctx, "R-abs-corr", abs_scope(ctx.repo))
    S.check_no_float_truthiness(ctx, "R-no-float-truthiness")
    S.check_rank_desc(ctx, "R-rank-desc")
    S.check_defaults(ctx, "R-defaults")
    S.check_column_order_free(ctx, "R-column-order-free")
    S.check_colsample_cover(ctx, "R-colsample-cover")
    S.check_measure_encodings(ctx, "R-encoding-free")
    S.check_target_alignment(ctx, "R-column-order-free")


_D14_FIXED = "    # absolute linear correlation (1 - correlation distance): the greater, the more associated\n    d_corr = abs(1 - correlation(x[~nans], y[~nans]))\n\n    # updating association\n    active, measurement = False, {\"distance_measure\": nan}\n    if d_corr == d_corr:  # checking for nan"
_D14_OLD = "    # computing spearman's r\n    d_corr = correlation(x[~nans], y[~nans])\n\n    # updating association\n    active, measurement = False, {\"distance_measure\": nan}\n    if d_corr:"
MUTANTS = [
    M("D14-reverted: distance ranks by 1 - r and drops r = 1", [(F_QTM, _D14_FIXED, _D14_OLD)], "R-abs-corr", "distance_measure", quick=True),
    M("D14-half: abs kept, truthiness test back", [(F_QTM, "    if d_corr == d_corr:  # checking for nan", "    if d_corr:")], "R-no-float-truthiness", "distance_measure", quick=True),
    M("signed correlation in the filter", [(F_QTF, "    X_corr = X[prefered_order].corr(corr_measure).abs()", "    X_corr = X[prefered_order].corr(corr_measure)")], "R-abs-corr", "quantitative_filter"),
    M("measures applied in X's column order", [(F_SEL, "        X[features]\n        .apply(feature_association,", "        X.loc[:, X.columns.isin(features)]\n        .apply(feature_association,")], "R-column-order-free"),
    M("colsample split drops the remainder", [(F_SEL, "                    # adding last sample with all remaining features\n                    feature_samples += [features[chunks * (int(1 / self.colsample) - 1) :]]\n", ""), (F_SEL, "                        for i in range(int(1 / self.colsample) - 1)", "                        for i in range(int(1 / self.colsample))")], "R-colsample-cover"),
    M("quartiles taken as lower order statistics", [(F_QTM, "    q3 = x.quantile(0.75)  # 3rd quartile\n    q1 = x.quantile(0.25)  # 1st quartile", "    q3 = x.quantile(0.75, interpolation=\"lower\")  # 3rd quartile\n    q1 = x.quantile(0.25, interpolation=\"lower\")  # 1st quartile")], "R-encoding-free", "iqr_measure"),
    M("mode share with an absolute tolerance", [("AutoCarver/selectors/measures/base_measures.py", "    pct_mode = (x == mode).mean()  # Computing percentage of the mode", "    pct_mode = isclose(x, mode).mean()  # Computing percentage of the mode"), ("AutoCarver/selectors/measures/base_measures.py", "from pandas import Series", "from numpy import isclose\nfrom pandas import Series")], "R-encoding-free", "mode_measure"),
    M("zscore counts the upper tail only", [(F_QTM, "    outliers = abs(zscore) > 3", "    outliers = zscore > 3")], "R-encoding-free", "zscore_measure"),
    M("ranking ascending", [(F_SEL, "        initial_associations = initial_associations.sort_values(measure_names, ascending=False)", "        initial_associations = initial_associations.sort_values(measure_names, ascending=True)")], "R-rank-desc", "decreasing"),
    M("regression default uses the pearson filter", [("AutoCarver/selectors/regression_selector.py", "            quantitative_filters = [spearman_filter]", "            quantitative_filters = []")], "R-defaults", "RegressionSelector"),
    M("classification routes qualitative measures to quantitative features", [("AutoCarver/selectors/classification_selector.py", "        measures = {\"float\": quantitative_measures, \"str\": qualitative_measures}", "        measures = {\"float\": qualitative_measures, \"str\": quantitative_measures}")], "R-defaults", "ClassificationSelector"),
    M("regression measures target by feature without reversing", [("AutoCarver/selectors/regression_selector.py", "            qualitative_measures = [reverse_xy(kruskal_measure)]", "            qualitative_measures = [kruskal_measure]")], "R-defaults", "RegressionSelector"),
]
BENIGN = [
    B("nan test through isnan-free comparison kept", [(F_QTM, "    if d_corr == d_corr:  # checking for nan", "    if not d_corr != d_corr:  # checking for nan")]),
    B("distance squared instead of abs", [(F_QTM, "    d_corr = abs(1 - correlation(x[~nans], y[~nans]))", "    d_corr = (1 - correlation(x[~nans], y[~nans])) ** 2")]),
]
