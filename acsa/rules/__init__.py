"""Rule modules, one per property: ``check(ctx)`` plus MUTANTS / BENIGN corpora and metadata."""
from __future__ import annotations

import importlib

from ..core import AnalysisError

_PROPS = [f"C{i:02d}" for i in range(1, 20)]


def all_props():
    out = []
    for p in _PROPS:
        try:
            importlib.import_module(f"{__name__}.{p.lower()}")
            out.append(p)
        except ModuleNotFoundError:
            continue
    return out


def get(prop: str):
    if prop not in _PROPS:
        raise SystemExit(f"unknown property {prop}")
    try:
        return importlib.import_module(f"{__name__}.{prop.lower()}")
    except ModuleNotFoundError as exc:
        raise SystemExit(f"no rule module for {prop}: {exc}")
