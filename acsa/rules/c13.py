"""C13 -- GroupedList stays a consistent ordered partition under any history (per-method inductive
preservation of the representation invariant + call-site preconditions)."""
from __future__ import annotations

import ast

from ..core import AnalysisError, call_name, unparse, walk_no_nested
from ..selftest import B, M
from .common import F_BASE, F_GL, F_QUAL, F_TYPE, construct, loc, short
from .grouped import check_append_absent, check_comutation
from .truthiness import check_truthiness

EXPLANATION = (
    "'Any history' is addressed by per-method induction, not by exploring histories. Decides: "
    "R-leader-position (replace_group_leader writes the new leader at the position of the old one: remove + append / update would move the group to the end of the order); "
    "R-position-truthiness (a name bound only to positions -- .index(), a search over enumerate -- is never tested by truthiness: `if position:` takes position 0 for not found and the first leader is not replaced); "
    "R-comutation (symbolic delta analysis of every constructor case and mutator of GroupedList, on "
    "every path and for every aliasing of the symbolic arguments consistent with the path's tests: "
    "the elements added to / removed from the list equal the keys added to / removed from `content`, "
    "and every leader written to `content` is a member of its own group); R-append-absent (every "
    "call site of append in the package is guarded by a non-membership test on the same receiver or "
    "is in the frozen exception table of freshly built lists); R-no-raw-mutators (no inherited list "
    "mutator is applied to a GroupedList outside the class); R-value-truthiness and "
    "R-nan-aware-lookup on the lookup helpers (get_group / contains compare through is_equal and never "
    "test a data value for truthiness); R-sortby-used (results of the pure sort_by / sort are used)."
)
NOT_DECIDED = "disjointness of groups under arbitrary update(); equality with a reference model along concrete histories (exploration / model checking)"
FLOORS = {"R-comutation": 7, "R-append-absent": 14, "R-value-truthiness": 2, "R-nan-aware-lookup": 3, "R-no-raw-mutators": 1, "R-sortby-used": 5, "R-position-truthiness": 1, "R-leader-position": 1}

RAW = {"insert", "extend", "reverse", "clear", "__setitem__", "__delitem__", "popitem"}


def _grouped_names(fi) -> set:
    """Local names that (may) denote a GroupedList inside ``fi``."""
    out = set()
    a = fi.node.args
    for arg in a.posonlyargs + a.args + a.kwonlyargs:
        if arg.annotation is not None and "GroupedList" in unparse(arg.annotation) and "dict" not in unparse(arg.annotation):
            out.add(arg.arg)
    for n in walk_no_nested(fi.node):
        tgt, val = None, None
        if isinstance(n, ast.Assign) and len(n.targets) == 1 and isinstance(n.targets[0], ast.Name):
            tgt, val = n.targets[0].id, n.value
        elif isinstance(n, (ast.For, ast.comprehension)) and isinstance(n.target, ast.Name):
            it = n.iter
            if isinstance(it, ast.Call) and call_name(it) == "values" and "orders" in unparse(it.func.value):
                out.add(n.target.id)
            continue
        if tgt is None:
            continue
        txt = unparse(val)
        if isinstance(val, ast.Call) and call_name(val) in ("GroupedList", "sort_by", "order_apply_combination"):
            out.add(tgt)
        elif isinstance(val, ast.Subscript) and "orders" in unparse(val.value):
            out.add(tgt)
        elif isinstance(val, ast.Call) and call_name(val) == "get" and "orders" in unparse(val.func.value):
            out.add(tgt)
    return out


def _is_grouped(fi, e, names) -> bool:
    if isinstance(e, ast.Name):
        return e.id in names
    if isinstance(e, ast.Subscript):
        return "orders" in unparse(e.value) and not isinstance(e.slice, ast.Slice)
    if isinstance(e, ast.Call) and call_name(e) == "get":
        return "orders" in unparse(e.func.value)
    return False


def rule_no_raw_mutators(ctx):
    n_recv = 0
    bad = 0
    for fi in ctx.repo.all_functions():
        if (fi.cls is not None and fi.cls.name == "GroupedList") or "/selectors/" in fi.module.relpath:
            continue
        names = _grouped_names(fi)
        for n in walk_no_nested(fi.node):
            hit = None
            if isinstance(n, ast.Call) and isinstance(n.func, ast.Attribute) and _is_grouped(fi, n.func.value, names):
                n_recv += 1
                if n.func.attr in RAW or (n.func.attr == "sort" and (n.args or n.keywords)):
                    hit = n
            elif isinstance(n, (ast.Assign, ast.AugAssign, ast.Delete)):
                tgts = n.targets if isinstance(n, (ast.Assign, ast.Delete)) else [n.target]
                for t in tgts:
                    if isinstance(t, ast.Subscript) and _is_grouped(fi, t.value, names):
                        hit = n
                    if isinstance(n, ast.AugAssign) and isinstance(t, ast.Name) and t.id in names:
                        hit = n
            if hit is not None:
                bad += 1
                ctx.ob("R-no-raw-mutators", construct(fi, short(hit, 80)), False, loc(fi, hit),
                       "an inherited list mutator changes the list without updating `content`")
    if bad == 0:
        ctx.ob("R-no-raw-mutators", f"{n_recv} method calls on GroupedList-typed receivers outside the class: none is a raw list mutator", True, "")


def rule_nan_aware(ctx):
    gl = ctx.repo.find_class("GroupedList")
    for name in ("get_group", "contains"):
        fi = gl.methods.get(name)
        if fi is None:
            raise AnalysisError(f"GroupedList.{name} not found")
        uses = [c for c in ast.walk(fi.node) if isinstance(c, ast.Call) and call_name(c) == "is_equal"]
        raw = [c for c in ast.walk(fi.node) if isinstance(c, ast.Compare) and any(isinstance(o, (ast.Eq, ast.In)) for o in c.ops)]
        ok = bool(uses) and not raw
        ctx.ob("R-nan-aware-lookup", construct(fi, "membership decided through is_equal"), ok, loc(fi),
               "" if ok else "values are compared with == / in: numpy.nan is never equal to itself")
    # mutators decide whether their two value arguments are "the same value" through is_equal too:
    # `discarded != kept` is True for two NaNs, so the method would regroup a value into itself
    for name, fi in gl.methods.items():
        params = set(fi.params[1:])
        for c in ast.walk(fi.node):
            if isinstance(c, ast.Compare) and len(c.ops) == 1 and isinstance(c.ops[0], (ast.Eq, ast.NotEq)):
                l, r = c.left, c.comparators[0]
                if isinstance(l, ast.Name) and isinstance(r, ast.Name) and l.id in params and r.id in params:
                    ctx.ob("R-nan-aware-lookup", construct(fi, f"`{unparse(c)}` compares two values without is_equal"), False, loc(fi, c),
                           "numpy.nan != numpy.nan: two missing values are treated as distinct, the group is merged into itself and removed")
    fi = ctx.repo.find_function(f"{F_GL}::is_equal")
    # the function as a decision tree (normal form of acsa/equiv.py): every leaf returns an expression
    # under the tests on its path; its truth value must be  (a == b) or (isna(a) and isna(b))
    from ..equiv import canon
    from ..exprs import p_and, p_atom, p_const, p_equiv, p_not, p_or, p_show, to_prop

    tree = canon(fi.node)
    pa, pb = (fi.params + ["a", "b"])[:2]
    others = {}

    def classify(e):
        t = unparse(e).replace(" ", "")
        if t in (f"{pa}=={pb}", f"{pb}=={pa}"):
            return "EQ"
        if t in (f"{pa}!={pb}", f"{pb}!={pa}"):
            return p_not(p_atom("EQ"))
        for nm, atom in ((pa, "NA_A"), (pb, "NA_B")):
            if t in (f"isna({nm})", f"isnull({nm})", f"{nm}!={nm}"):
                return atom
            if t in (f"notna({nm})", f"notnull({nm})"):
                return p_not(p_atom(atom))
        others.setdefault(t, f"OTHER_{len(others)}")
        return others[t]

    def leaves(stmts, conds):
        out = []
        for i, st in enumerate(stmts):
            if isinstance(st, ast.If):
                t = to_prop(st.test, classify)
                out += leaves(st.body, conds + [t])
                out += leaves(st.orelse + stmts[i + 1:], conds + [p_not(t)])
                return out
            if isinstance(st, ast.Return):
                v = st.value if st.value is not None else ast.Constant(value=False)
                out.append((conds, to_prop(v, classify)))
                return out
            if isinstance(st, (ast.Pass, ast.Expr)):
                continue
            return [(conds, None)]  # a statement the tree interpretation does not cover
        out.append((conds, p_const(False)))
        return out

    lv = leaves(tree.body, [])
    if any(v is None or any(c is None for c in cs) for cs, v in lv):
        ctx.ob("R-nan-aware-lookup", construct(fi, "a == b, or both missing"), False, loc(fi), "is_equal is no longer a tree of tests on `a == b`, `isna(a)`, `isna(b)`: two values are the same iff they are equal or both missing, nothing else (a tolerance makes identity depend on the scale)")
    else:
        got = p_or(*[p_and(*(cs + [v])) for cs, v in lv]) if lv else p_const(False)
        want = p_or(p_atom("EQ"), p_and(p_atom("NA_A"), p_atom("NA_B")))
        diff = p_equiv(got, want)
        inv = {v: k for k, v in others.items()}
        ctx.ob("R-nan-aware-lookup", construct(fi, "a == b, or both missing"), diff is None, loc(fi),
               "" if diff is None else f"is_equal differs from `a == b or (isna(a) and isna(b))` when {({inv.get(k, k): v for k, v in diff.items()})}: e.g. 1 and 1.0, or a Python float and a numpy.float64, stop being the same value")


def rule_sortby_used(ctx):
    n = 0
    for fi in ctx.repo.all_functions():
        if "/selectors/" in fi.module.relpath:
            continue
        for st in walk_no_nested(fi.node):
            if isinstance(st, ast.Expr) and isinstance(st.value, ast.Call) and isinstance(st.value.func, ast.Attribute):
                c = st.value
                if c.func.attr == "sort_by" or (c.func.attr == "sort" and not c.args and not c.keywords and _is_grouped(fi, c.func.value, _grouped_names(fi))):
                    n += 1
                    exc = fi.qualname == "GroupedList.replace_group_leader" and unparse(c) == "self.sort_by(self)"
                    ctx.ob("R-sortby-used", construct(fi, f"result of {short(c, 60)} is discarded"), True if exc else False, loc(fi, c),
                           "exception: sorting by the current order is the identity, the call is a no-op" if exc else
                           "sort_by / sort return a new GroupedList and leave the receiver unchanged")
        for c in walk_no_nested(fi.node):
            if isinstance(c, ast.Call) and isinstance(c.func, ast.Attribute) and c.func.attr == "sort_by":
                n += 1
    gl = ctx.repo.find_class("GroupedList")
    for name in ("sort_by", "sort"):
        fi = gl.methods[name]
        from ..cfg import EXIT
        from .common import cfg_of
        cfg = cfg_of(ctx, fi)
        rets = [cfg.stmt.get(p) for p in cfg.pred[EXIT]]
        ok = all(isinstance(r, ast.Return) and r.value is not None and not (isinstance(r.value, ast.Name) and r.value.id == "self") for r in rets)
        mut = any(isinstance(x, (ast.AugAssign,)) or (isinstance(x, ast.Call) and isinstance(x.func, ast.Attribute) and isinstance(x.func.value, ast.Call) and call_name(x.func.value) == "super") for x in walk_no_nested(fi.node))
        ctx.ob("R-sortby-used", construct(fi, "pure: returns a new GroupedList on every exit"), ok and not mut, loc(fi))


def rule_pure_key_set(ctx):
    """sort / sort_by return a GroupedList over exactly the keys of the receiver: the two key lists of
    sort() partition the keys (a test and its negation), sort_by asserts both inclusions, and the new
    object is built from {k: self.get(k)} over all of them."""
    R = "R-sortby-used"
    gl = ctx.repo.find_class("GroupedList")
    fs = gl.methods.get("sort")
    comps = [n.value for n in walk_no_nested(fs.node) if isinstance(n, ast.Assign) and isinstance(n.value, ast.ListComp) and unparse(n.value.generators[0].iter) == "self"]
    ok = False
    if len(comps) == 2 and all(len(c.generators[0].ifs) == 1 for c in comps):
        a, b = comps[0].generators[0].ifs[0], comps[1].generators[0].ifs[0]
        na = unparse(a)
        nb = unparse(b)
        ok = nb == f"not {na}" or na == f"not {nb}"
    names = [unparse(n.targets[0]) for n in walk_no_nested(fs.node) if isinstance(n, ast.Assign) and n.value in comps]
    merged = [n for n in walk_no_nested(fs.node) if isinstance(n, ast.Assign) and unparse(n.targets[0]) == "keys"]
    ok = ok and len(merged) == 1 and all(nm in unparse(merged[0].value) for nm in names)
    built = any(isinstance(n, ast.DictComp) and unparse(n.generators[0].iter) == "keys" and unparse(n.value) == f"self.get({unparse(n.key)})" for n in ast.walk(fs.node))
    ctx.ob(R, construct(fs, "sort() re-orders all keys: the str / non-str key lists partition the list, every group is carried over"), ok and built, loc(fs),
           "" if (ok and built) else "keys matching neither filter (e.g. int leaders) are dropped with their whole groups")
    # the numeric keys are ordered by numpy.sort (a total order with NaN last): the built-in comparison
    # sort is inconsistent as soon as a NaN leader is present (numbers left unsorted around it)
    from ..core import External

    num_sorts = []
    for c in walk_no_nested(fs.node):
        if isinstance(c, ast.Call) and ((isinstance(c.func, ast.Name) and c.func.id in ("sorted", "sort")) or (isinstance(c.func, ast.Attribute) and c.func.attr == "sort")):
            num_sorts.append(c)
    if not num_sorts:
        raise AnalysisError("GroupedList.sort: no sorting call found")
    bad_sort = None
    # only the list of non-str keys matters (strings are totally ordered by the built-in sort too)
    num_names = {unparse(n.targets[0]) for n in walk_no_nested(fs.node) if isinstance(n, ast.Assign) and n.value in comps and unparse(n.value.generators[0].ifs[0]).startswith("not ")}
    if num_names:
        num_sorts = [c for c in num_sorts if num_names & ({x.id for a in c.args for x in ast.walk(a) if isinstance(x, ast.Name)} | ({c.func.value.id} if isinstance(c.func, ast.Attribute) and isinstance(c.func.value, ast.Name) else set()))] or num_sorts
    for c in num_sorts:
        sym = ctx.repo.resolve_expr(fs.module, c.func) if isinstance(c.func, (ast.Name, ast.Attribute)) else None
        if not (isinstance(sym, External) and sym.dotted.startswith("numpy") and sym.last == "sort"):
            bad_sort = bad_sort or c
    ctx.ob(R, construct(fs, "sort() orders the keys with numpy.sort (total order, NaN last)"), bad_sort is None, loc(fs, bad_sort),
           "" if bad_sort is None else f"`{short(bad_sort, 60)}` is a comparison sort: with a NaN leader the numbers are left unsorted (every comparison with NaN is False)")
    fb = gl.methods.get("sort_by")
    asserts = [a for a in walk_no_nested(fb.node) if isinstance(a, ast.Assert)]
    txt = [unparse(a.test).replace(" ", "") for a in asserts]
    ok = "all((oinselfforoinordering))" in txt and "all((sinorderingforsinself))" in txt
    built = any(isinstance(n, ast.DictComp) and unparse(n.generators[0].iter) == "ordering" and unparse(n.value) == f"self.get({unparse(n.key)})" for n in ast.walk(fb.node))
    ctx.ob(R, construct(fb, "sort_by(ordering) requires ordering == keys (both inclusions) and carries every group over"), ok and built, loc(fb))


def check(ctx):
    rule_pure_key_set(ctx)
    from .truthiness import check_or_default

    check_or_default(ctx, "R-value-truthiness", list(ctx.repo.find_class("GroupedList").methods.values()))
    check_comutation(ctx, "R-comutation")
    check_append_absent(ctx, "R-append-absent")
    gl = ctx.repo.find_class("GroupedList")
    check_truthiness(ctx, "R-value-truthiness", list(gl.methods.values()))
    rule_nan_aware(ctx)
    rule_no_raw_mutators(ctx)
    rule_sortby_used(ctx)


_RGL_FIXED = """        # checking that those values are distinct
        if not is_equal(group_leader, group_member):
            # replacing in the list
            group_idx = self.index(group_leader)
            self[group_idx] = group_member

            # replacing in the dict
            self.content.update({group_member: self.content[group_leader][:]})
            self.content.pop(group_leader)
"""
_RGL_OLD = """        # replacing in the list
        group_idx = self.index(group_leader)
        self[group_idx] = group_member

        # replacing in the dict
        self.content.update({group_member: self.content[group_leader][:]})
        self.content.pop(group_leader)
"""
MUTANTS = [
    M("sort() uses the built-in comparison sort", [(F_GL, "        keys = list(sort(keys_str)) + list(sort(keys_float))", "        keys = sorted(keys_str) + sorted(keys_float)")], "R-sortby-used", "numpy.sort"),
    M("D16-reverted: replace_group_leader(l, l) pops the group", [(F_GL, _RGL_FIXED, _RGL_OLD)], "R-comutation", "replace_group_leader", quick=True),
    M("D17-reverted: any(found) in get_group", [(F_GL, "        if len(found) > 0:\n            return found[0]", "        if any(found):\n            return found[0]")], "R-value-truthiness", "get_group", quick=True),
    M("D15-reverted: default group appended unconditionally", [(F_QUAL, "                if self.str_default not in order:\n                    order.append(self.str_default)\n", "                order.append(self.str_default)\n")], "R-append-absent", "CategoricalDiscretizer.fit", quick=True),
    M("D28-reverted: unknown value appended although StringDiscretizer may have recorded it", [(F_QUAL, "                        if unknown_value not in order:\n                            order.append(unknown_value)\n", "                        order.append(unknown_value)\n")], "R-append-absent", "unknown_value", quick=True),
    M("D8-reverted: str_nan appended for every unknown value", [(F_QUAL, "                        if self.str_nan not in order:\n                            order.append(self.str_nan)\n", "                        order.append(self.str_nan)\n")], "R-append-absent", "ChainedDiscretizer._prepare_data"),
    M("replace_group_leader tests the position by truthiness", [(F_GL, "            group_idx = self.index(group_leader)\n            self[group_idx] = group_member\n", "            group_idx = self.index(group_leader)\n            if group_idx:\n                self[group_idx] = group_member\n")], "R-position-truthiness", "replace_group_leader"),
    M("remove forgets content", [(F_GL, "        super().remove(value)\n        self.content.pop(value)\n", "        super().remove(value)\n")], "R-comutation", "GroupedList.remove"),
    M("append forgets content", [(F_GL, "        self += [new_value]\n        self.content.update({new_value: [new_value]})\n", "        self += [new_value]\n")], "R-comutation", "GroupedList.append"),
    M("group keeps the discarded leader in the list", [(F_GL, "            # removing discarded from the list\n            self.remove(discarded)\n", "")], "R-comutation", "GroupedList.group"),
    M("group pops the wrong key", [(F_GL, "            # removing discarded from the list\n            self.remove(discarded)\n", "            # removing discarded from the list\n            super().remove(discarded)\n            self.content.pop(kept)\n")], "R-comutation", "GroupedList.group"),
    M("group drops the kept group's own content", [(F_GL, "self.content.update({kept: content_discarded + content_kept, discarded: []})", "self.content.update({kept: content_discarded, discarded: []})")], "R-comutation", "GroupedList.group"),
    M("update adds every key to the list, known or not", [(F_GL, "self += [key for key, _ in new_value.items() if key not in self]", "self += [key for key, _ in new_value.items()]")], "R-comutation", "GroupedList.update"),
    M("dict constructor keeps grouped keys in the list", [(F_GL, "                    self.content.pop(key)\n                    keys.remove(key)\n", "                    self.content.pop(key)\n")], "R-comutation", "GroupedList.__init__"),
    M("list constructor builds empty groups", [(F_GL, "self.content = {v: [v] for v in iterable}", "self.content = {v: [] for v in iterable}")], "R-comutation", "GroupedList.__init__"),
    M("update_discretizer appends kept_value unguarded", [(F_BASE, "            if not order.contains(kept_value):\n                order.append(kept_value)\n", "            order.append(kept_value)\n")], "R-append-absent", "update_discretizer"),
    M("StringDiscretizer appends the string form unguarded", [(F_TYPE, "        if str_value not in values_order:\n            values_order.append(str_value)  # adding string value to the order\n            values_order.group(value, str_value)  # grouping integer value into the string value\n",
       "        values_order.append(str_value)  # adding string value to the order\n        values_order.group(value, str_value)  # grouping integer value into the string value\n")], "R-append-absent", "fit_feature"),
    M("contains compares with ==", [(F_GL, "return any(is_equal(value, known) for known in self.values())", "return any(value == known for known in self.values())")], "R-nan-aware-lookup", "contains"),
    M("is_equal forgets missing values", [(F_GL, "    if isna(a) and isna(b):\n        equal = True\n", "")], "R-nan-aware-lookup", "is_equal"),
    M("group guards with != instead of is_equal", [(F_GL, "        if not is_equal(discarded, kept):\n            # checking that those values exist in the list", "        if discarded != kept:\n            # checking that those values exist in the list")], "R-nan-aware-lookup", "GroupedList.group"),
    M("get_group falls back when the leader found is falsy", [(F_GL, "        if len(found) > 0:\n            return found[0]\n\n        return value", "        return (found[0] if len(found) > 0 else None) or value")], "R-value-truthiness", "get_group"),
    M("sort() keeps only str and float keys", [(F_GL, "        keys_float = [key for key in self if not isinstance(key, str)]", "        keys_float = [key for key in self if isinstance(key, float)]")], "R-sortby-used", "sort()"),
    M("is_equal refuses values of different types", [(F_GL, "    # default equality\n    equal = a == b\n", "    if type(a) is not type(b):\n        return False\n    # default equality\n    equal = a == b\n")], "R-nan-aware-lookup", "a == b, or both missing"),
    M("raw insert on an order", [(F_QUAL, "                    order.append(self.str_nan)\n                    self.values_orders.update({feature: order})\n\n        # filling up NaNs", "                    order.insert(0, self.str_nan)\n                    self.values_orders.update({feature: order})\n\n        # filling up NaNs")], "R-no-raw-mutators", quick=True),
    M("sort_by result discarded in CategoricalDiscretizer", [(F_QUAL, "            self.values_orders.update({feature: order.sort_by(new_order)})", "            order.sort_by(new_order)\n            self.values_orders.update({feature: order})")], "R-sortby-used", "CategoricalDiscretizer.fit"),
    M("get_group tests the leader's truthiness in the comprehension", [(F_GL, "            if any(is_equal(value, elt) for elt in values)\n        ]", "            if any(elt for elt in values if is_equal(value, elt))\n        ]")], "R-value-truthiness", "get_group"),
]
BENIGN = [
    B("get_group returns through next()", [(F_GL, "        if len(found) > 0:\n            return found[0]", "        if found:\n            return found[0]")]),
    B("remove pops content first", [(F_GL, "        super().remove(value)\n        self.content.pop(value)\n", "        self.content.pop(value)\n        super().remove(value)\n")]),
    B("append through content item assignment", [(F_GL, "        self.content.update({new_value: [new_value]})\n", "        self.content[new_value] = [new_value]\n")]),
    B("replace_group_leader returns early when equal", [(F_GL, _RGL_FIXED, "        if is_equal(group_leader, group_member):\n            return\n" + _RGL_OLD)]),
    B("membership guard spelled with contains", [(F_QUAL, "                if self.str_default not in order:\n                    order.append(self.str_default)\n", "                if not order.contains(self.str_default):\n                    order.append(self.str_default)\n")]),
    B("group binds contents in one statement", [(F_GL, "            content_discarded = self.content.get(discarded)\n            content_kept = self.content.get(kept)\n", "            content_discarded, content_kept = self.content.get(discarded), self.content.get(kept)\n")]),
]
