"""C12 -- MulticlassCarver equals one-vs-rest BinaryCarvers."""
from __future__ import annotations

import ast

from ..core import AnalysisError, call_name, const_value, unparse, walk_no_nested
from ..exprs import canon_unparse, single_defs
from ..selftest import B, M
from .common import F_BASE, F_MULTI, calls, cfg_of, construct, loc, path_str, short

EXPLANATION = (
    "Decides on MulticlassCarver.fit: R-forward-all (every named parameter of "
    "MulticlassCarver.__init__ reaches the per-class BinaryCarver(...) as self.<same name>, or "
    "through **self.kwargs; frozen exceptions: copy=True so the raw columns survive, values_orders = "
    "the shallow copy of the orders held before any class was fitted); R-fresh-per-class (the carver "
    "is constructed inside the class loop and the objects shared between iterations -- raw orders, "
    "x_copy, x_dev_copy -- are not mutated by fitting it: effect analysis with copy=True); "
    "R-class-domain (classes are the sorted string forms of y minus the first, each target is the "
    "0/1 indicator of `y == class`, same for the dev target); R-suffix (values_orders, input_dtypes, "
    "history and the kept features are renamed with the same append_class(feature, class), kept "
    "features are exactly binary_carver.features, and the final BaseDiscretizer is initialised from "
    "those tables with features_casting; at transform every casted column f_ci is rebuilt from the raw "
    "column f by an unfiltered X.assign)."
)
NOT_DECIDED = "equality of the produced columns with an independent BinaryCarver on data"
FLOORS = {"R-forward-all": 13, "R-fresh-per-class": 4, "R-class-domain": 3, "R-suffix": 7}

EXCEPTIONS = {
    "copy": "literal True: the per-class carver must not transform the shared frame in place",
    "values_orders": "raw_values_orders: shallow copy of self.values_orders taken before the loop (BaseDiscretizer.__init__ copies every GroupedList)",
}


def _fit(ctx):
    return ctx.repo.find_function(f"{F_MULTI}::MulticlassCarver.fit")


def rule_forward_all(ctx):
    R = "R-forward-all"
    repo = ctx.repo
    fi = _fit(ctx)
    init = repo.find_function(f"{F_MULTI}::MulticlassCarver.__init__")
    bc = [c for c in calls(fi, "BinaryCarver")]
    if len(bc) != 1:
        raise AnalysisError("MulticlassCarver.fit: expected exactly one BinaryCarver(...) construction")
    call = bc[0]
    kws = {k.arg: k.value for k in call.keywords if k.arg}
    star = [unparse(k.value) for k in call.keywords if k.arg is None]
    a = init.node.args
    named = [p.arg for p in a.args[1:]] + [p.arg for p in a.kwonlyargs]
    defs = single_defs(fi.node)
    for p in named:
        c = construct(fi, f"BinaryCarver receives {p}")
        v = kws.get(p)
        if p in EXCEPTIONS:
            if p == "copy":
                ok = v is not None and const_value(v) is True
            else:
                src = defs.get(unparse(v)) if isinstance(v, ast.Name) else None
                ok = False
                if v is not None and src is not None:
                    if isinstance(src, ast.DictComp) and len(src.generators) == 1:
                        g = src.generators[0]
                        # a complete copy: every (feature, order) pair, unfiltered
                        ok = (unparse(g.iter) == "self.values_orders.items()" and not g.ifs and isinstance(g.target, ast.Tuple)
                              and [unparse(e) for e in g.target.elts] == [unparse(src.key), unparse(src.value)])
                    elif isinstance(src, ast.Call):
                        ok = unparse(src) in ("dict(self.values_orders)", "dict(self.values_orders.items())", "self.values_orders.copy()")
            ctx.ob(R, c, ok, loc(fi, call), "exception: " + EXCEPTIONS[p] if ok else f"expected {EXCEPTIONS[p]}")
            continue
        ok = v is not None and unparse(v) == f"self.{p}"
        ctx.ob(R, c, ok, loc(fi, call), "" if ok else (f"`{p}` is not forwarded: the per-class carver silently uses its default" if v is None else f"forwarded as {unparse(v)}"))
    ok = star == ["self.kwargs"]
    ctx.ob(R, construct(fi, "BinaryCarver receives **self.kwargs"), ok, loc(fi, call))
    # self.kwargs is the constructor's **kwargs, and every forwarded attribute is what __init__ stored
    stored = any(isinstance(n, ast.Assign) and unparse(n.targets[0]) == "self.kwargs" and unparse(n.value) == (a.kwarg.arg if a.kwarg else "") for n in walk_no_nested(init.node))
    ctx.ob(R, construct(init, "self.kwargs holds the constructor's **kwargs"), stored, loc(init))


def rule_fresh(ctx):
    R = "R-fresh-per-class"
    fi = _fit(ctx)
    cfg = cfg_of(ctx, fi)
    call = calls(fi, "BinaryCarver")[0]
    loops = [l for l in cfg.enclosing_loops(call) if isinstance(l, ast.For)]
    ok = len(loops) == 1 and "y_classes" in unparse(loops[0].iter)
    ctx.ob(R, construct(fi, "a new BinaryCarver is built for every class"), ok, loc(fi, call),
           "" if ok else "one carver shared by all classes: the second fit is refused or reuses the first class' groups")
    # fitting it does not mutate what the iterations share
    eng = ctx.effects
    bcls = ctx.repo.find_class("BinaryCarver")
    f_fit, s_fit = eng.method_summary(bcls, "fit", True)
    bad = [e for e in s_fit.events if e.kind == "mut" and e.path[0] in ("p:X", "p:y", "p:X_dev", "p:y_dev")]
    ctx.ob(R, construct(fi, "BinaryCarver(copy=True).fit leaves the shared x_copy / x_dev_copy / targets untouched"), not bad, loc(fi),
           "" if not bad else f"{bad[0].fn}: {bad[0].expr}")
    f_init, s_init = eng.method_summary(bcls, "__init__", True)
    # no attribute keeps a caller's list / dict by reference and is then mutated while fitting: the
    # MulticlassCarver hands its own feature lists to every per-class carver
    aliased = {k[1]: sorted(p[0][2:] for p in v if p[0].startswith("p:")) for k, v in s_init.heap_out.items() if any(p[0].startswith("p:") for p in v)}
    mutated = {e.path[1] for e in s_fit.events if e.kind == "mut" and e.path[0] == "self" and e.path[1]}
    shared = sorted(a for a in aliased if a in mutated)
    ctx.ob(R, construct(fi, "BinaryCarver keeps no caller-owned list that its fit mutates (feature lists are copied by __init__)"), not shared, loc(fi),
           "" if not shared else f"self.{shared[0]} is the caller's `{aliased[shared[0]][0]}` object and _remove_feature mutates it: a feature dropped for one class disappears from the list the next class is built from")
    bad = [e for e in s_init.events if e.kind == "mut" and e.path[0] == "p:values_orders"]
    heap = s_init.heap_out.get(("self", "values_orders"), frozenset())
    shares = any(p[0] == "p:values_orders" for p in heap)
    ctx.ob(R, construct(fi, "BinaryCarver.__init__ copies the shared raw orders (no aliasing, no mutation)"), not bad and not shares, loc(fi),
           "" if (not bad and not shares) else "the per-class carver edits the orders the next class starts from")


def rule_class_domain(ctx):
    R = "R-class-domain"
    fi = _fit(ctx)
    defs = single_defs(fi.node)
    yc = defs.get("y_classes")
    ok = False
    if isinstance(yc, ast.Subscript) and isinstance(yc.slice, ast.Slice):
        sl = yc.slice
        ok = const_value(sl.lower) == 1 and sl.upper is None and sl.step is None and isinstance(yc.value, ast.Call) and call_name(yc.value) == "sorted" \
            and "unique" in unparse(yc.value) and "y_copy" in unparse(yc.value) and not yc.value.keywords
    ctx.ob(R, construct(fi, "classes = sorted(unique(str(y)))[1:]"), ok, loc(fi, yc))
    prep = ctx.repo.find_function(f"{F_MULTI}::MulticlassCarver._prepare_data")
    pdefs = single_defs(prep.node)
    ok = unparse(pdefs.get("y_copy", ast.Constant(None))) == "y.astype(str)"
    ctx.ob(R, construct(prep, "classes are compared as strings (y.astype(str))"), ok, loc(prep))
    tc = defs.get("target_class")
    ok = tc is not None and canon_unparse(tc) == "(y_class==y_copy).astype(int)"
    dev = [n for n in walk_no_nested(fi.node) if isinstance(n, ast.Assign) and unparse(n.targets[0]) == "target_class_dev" and not isinstance(n.value, ast.Constant)]
    ok = ok and len(dev) == 1 and canon_unparse(dev[0].value) == "(y_class==y_dev_copy).astype(int)"
    fits = [c for c in calls(fi, "fit") if unparse(c.func.value) == "binary_carver"]
    ok = ok and len(fits) == 1 and [unparse(a) for a in fits[0].args] == ["x_copy", "target_class"] and {k.arg: unparse(k.value) for k in fits[0].keywords} == {"X_dev": "x_dev_copy", "y_dev": "target_class_dev"}
    ctx.ob(R, construct(fi, "each carver is fitted on the 0/1 indicator of its class, train and dev"), ok, loc(fi))


def rule_suffix(ctx):
    R = "R-suffix"
    fi = _fit(ctx)
    ups = {}
    for c in calls(fi, "update"):
        if c.args and isinstance(c.args[0], ast.Call) and call_name(c.args[0]) == "dict_append_class":
            ups[unparse(c.func.value)] = [unparse(a) for a in c.args[0].args]
    want = {"casted_values_orders": ["binary_carver.values_orders", "y_class"], "casted_input_dtypes": ["binary_carver.input_dtypes", "y_class"], "casted_history": ["binary_carver._history", "y_class"]}
    for k, v in want.items():
        ctx.ob(R, construct(fi, f"{k} <- dict_append_class({v[0]}, y_class)"), ups.get(k) == v, loc(fi), "" if ups.get(k) == v else f"found {ups.get(k)}")
    # kept features
    cfg = cfg_of(ctx, fi)
    ok = False
    for c in calls(fi, "append_class"):
        loops = [l for l in cfg.enclosing_loops(c) if isinstance(l, ast.For)]
        if loops and unparse(loops[0].iter) == "binary_carver.features" and [unparse(a) for a in c.args] == [unparse(loops[0].target), "y_class"]:
            ok = True
    ctx.ob(R, construct(fi, "kept casted features = append_class(f, class) for f in binary_carver.features"), ok, loc(fi))
    ac = ctx.repo.find_function(f"{F_MULTI}::append_class")
    dac = ctx.repo.find_function(f"{F_MULTI}::dict_append_class")
    rets = [r for r in walk_no_nested(dac.node) if isinstance(r, ast.Return)]
    ok = bool(rets) and isinstance(rets[0].value, ast.DictComp) and call_name(rets[0].value.key) == "append_class" if isinstance(rets[0].value.key, ast.Call) else False
    rets2 = [r for r in walk_no_nested(ac.node) if isinstance(r, ast.Return)]
    ok = ok and bool(rets2) and isinstance(rets2[0].value, ast.JoinedStr) and [unparse(v.value) for v in rets2[0].value.values if isinstance(v, ast.FormattedValue)] == ac.params[:2]
    ctx.ob(R, construct(dac, "dict_append_class renames every key with append_class, which is injective in (feature, class)"), ok, loc(dac))
    # final re-initialisation
    inits = [c for c in ast.walk(fi.node) if isinstance(c, ast.Call) and unparse(c.func) == "BaseDiscretizer.__init__"]
    ok = False
    if len(inits) == 1:
        kw = {k.arg: unparse(k.value) for k in inits[0].keywords}
        ok = (kw.get("values_orders") == "casted_values_orders" and kw.get("input_dtypes") == "casted_input_dtypes" and kw.get("features_casting") == "casted_features"
              and kw.get("output_dtype") == "self.output_dtype" and kw.get("dropna") == "self.dropna" and kw.get("copy") == "self.copy"
              and "casted_features.values()" in kw.get("features", ""))
    hist = any(isinstance(n, ast.Assign) and unparse(n.targets[0]) == "self._history" and unparse(n.value) == "casted_history" for n in walk_no_nested(fi.node))
    ctx.ob(R, construct(fi, "final discretizer = the casted tables (+ features_casting, history)"), ok and hist, loc(fi))


def rule_cast_features(ctx):
    """At transform every kept casted column f_ci is a fresh duplicate of the raw column f."""
    R = "R-suffix"
    fi = ctx.repo.find_function(f"{F_BASE}::BaseDiscretizer._cast_features")
    asg = [c for c in calls(fi, "assign")]
    ok = False
    if len(asg) == 1 and len(asg[0].keywords) == 1 and asg[0].keywords[0].arg is None and isinstance(asg[0].keywords[0].value, ast.DictComp):
        dc = asg[0].keywords[0].value
        gens = dc.generators
        ok = (len(gens) == 2 and unparse(gens[0].iter) == "self.features_casting.items()" and not gens[0].ifs and not gens[1].ifs
              and isinstance(gens[0].target, ast.Tuple) and unparse(gens[1].iter) == unparse(gens[0].target.elts[1])
              and unparse(dc.key) == unparse(gens[1].target) and unparse(dc.value) == f"X[{unparse(gens[0].target.elts[0])}]"
              and unparse(asg[0].func.value) == "X")
    ctx.ob(R, construct(fi, "every casted column is (re)built from its raw column: X.assign(f_ci=X[f]) for all kept castings, unfiltered"), ok, loc(fi, asg[0] if asg else None),
           "" if ok else "a casted column that is skipped or built from something else is discretized from stale / wrong values")
    rets = [r for r in ast.walk(fi.node) if isinstance(r, ast.Return)]
    par = None
    ok2 = bool(asg) and bool(rets) and all(unparse(r.value) == "X" for r in rets)
    for n in ast.walk(fi.node):
        if isinstance(n, ast.Assign) and asg and n.value is asg[0]:
            par = n
    ok2 = ok2 and par is not None and unparse(par.targets[0]) == "X"
    ctx.ob(R, construct(fi, "the frame with the duplicated columns is the one returned (raw columns untouched by assign)"), ok2, loc(fi))


def check(ctx):
    rule_cast_features(ctx)
    rule_forward_all(ctx)
    rule_fresh(ctx)
    rule_class_domain(ctx)
    rule_suffix(ctx)


MUTANTS = [
    M("D3-reverted: min_freq_mod not forwarded", [(F_MULTI, "                min_freq_mod=self.min_freq_mod,\n", "")], "R-forward-all", "min_freq_mod", quick=True),
    M("dropna not forwarded", [(F_MULTI, "                dropna=self.dropna,\n", "")], "R-forward-all", "dropna"),
    M("max_n_mod forwarded from the wrong attribute", [(F_MULTI, "                max_n_mod=self.max_n_mod,", "                max_n_mod=self.n_jobs,")], "R-forward-all", "max_n_mod"),
    M("kwargs (str_nan / str_default) not forwarded", [(F_MULTI, "                n_jobs=self.n_jobs,\n                **self.kwargs,\n            )\n\n            # fitting BinaryCarver", "                n_jobs=self.n_jobs,\n            )\n\n            # fitting BinaryCarver")], "R-forward-all", "kwargs"),
    M("per-class carver works in place", [(F_MULTI, "                copy=True,  # copying x to keep raw columns as is", "                copy=self.copy,  # copying x to keep raw columns as is")], "R-forward-all", "copy", quick=True),
    M("only ordinal orders handed to the per-class carvers", [(F_MULTI, "raw_values_orders = {feature: order for feature, order in self.values_orders.items()}", "raw_values_orders = {feature: order for feature, order in self.values_orders.items() if feature in self.ordinal_features}")], "R-forward-all", "values_orders"),
    M("existing casted columns are not rebuilt at transform", [(F_BASE, "                    for casted_feature in feature_casting\n                }", "                    for casted_feature in feature_casting\n                    if casted_feature not in X\n                }")], "R-suffix", "casted column"),
    M("ordinal feature list stored by reference", [("AutoCarver/carvers/base_carver.py", "        self.ordinal_features = list(set(ordinal_features))\n        self.features = list(set(quantitative_features + qualitative_features + ordinal_features))\n\n        # checking that qualitatitve", "        self.ordinal_features = ordinal_features\n        self.features = list(set(quantitative_features + qualitative_features + ordinal_features))\n\n        # checking that qualitatitve")], "R-fresh-per-class", "caller-owned"),
    M("fitted orders of the previous class reused", [(F_MULTI, "                values_orders=raw_values_orders,", "                values_orders=self.values_orders if n == 0 else casted_values_orders,")], "R-forward-all", "values_orders"),
    M("all classes kept", [(F_MULTI, "        y_classes = sorted(list(y_copy.unique()))[1:]  # removing one of the classes", "        y_classes = sorted(list(y_copy.unique()))  # removing one of the classes")], "R-class-domain", "classes ="),
    M("classes in order of appearance", [(F_MULTI, "        y_classes = sorted(list(y_copy.unique()))[1:]  # removing one of the classes", "        y_classes = list(y_copy.unique())[1:]  # removing one of the classes")], "R-class-domain", "classes ="),
    M("dev target built from the train classes", [(F_MULTI, "                target_class_dev = (y_dev_copy == y_class).astype(int)", "                target_class_dev = (y_dev_copy != y_class).astype(int)")], "R-class-domain", "indicator"),
    M("history renamed with another suffix", [(F_MULTI, "                dict_append_class(binary_carver._history, y_class)  # pylint: disable=W0212", "                dict_append_class(binary_carver._history, n)  # pylint: disable=W0212")], "R-suffix", "casted_history"),
    M("dropped features kept as columns", [(F_MULTI, "            for feature in binary_carver.features:\n                # feature only present", "            for feature in self.features:\n                # feature only present")], "R-suffix", "kept casted"),
    M("suffix separator dropped", [(F_MULTI, "    return f\"{string}_{to_append}\"", "    return f\"{string}\"")], "R-suffix", "injective"),
]
BENIGN = [
    B("keyword order changed", [(F_MULTI, "                min_freq=self.min_freq,\n                sort_by=self.sort_by,\n", "                sort_by=self.sort_by,\n                min_freq=self.min_freq,\n")]),
    B("raw orders copied with dict()", [(F_MULTI, "raw_values_orders = {feature: order for feature, order in self.values_orders.items()}", "raw_values_orders = dict(self.values_orders.items())")]),
    B("verbose banner changed", [(F_MULTI, "\"\\n------\"\n                )", "\"\\n-----\"\n                )")]),
]
