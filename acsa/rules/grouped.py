"""Rules about the GroupedList protocol shared by C13, C18 and C08."""
from __future__ import annotations

import ast
import itertools
from typing import Dict, List, Optional, Set, Tuple

from ..core import AnalysisError, FunctionInfo, call_name, unparse, walk_no_nested
from ..exprs import canon_unparse, cmp_canon, conjuncts, disjuncts
from .common import F_GL, cfg_of, construct, loc, short

# ---------------------------------------------------------------------------------------------
# R-append-absent
# ---------------------------------------------------------------------------------------------

# frozen exception table: (function qualname, appended expression) -> reason
APPEND_EXCEPTIONS = {
    ("convert_to_labels", "str_nan"): "labels_orders is rebuilt in this function from values filtered with `value != str_nan`",
    ("AutoCarver/discretizers/utils/quantitative_discretizers.py::fit_feature", "str_nan"):
        "order is built in this function from numeric quantiles + [inf]; the sentinel is a string",
    ("AutoCarver/discretizers/utils/type_discretizers.py::fit_feature", "str_nan"):
        "values_order is built in this function from the raw non-missing values (assumption: raw data does not contain the sentinel)",
}


def _flatten_conditions(conds):
    """(test, polarity) list -> list of atomic (expr, polarity) known on the path."""
    out = []

    def push(e, pol):
        while isinstance(e, ast.UnaryOp) and isinstance(e.op, ast.Not):
            e, pol = e.operand, not pol
        if pol and isinstance(e, ast.BoolOp) and isinstance(e.op, ast.And):
            for c in e.values:
                push(c, True)
        elif not pol and isinstance(e, ast.BoolOp) and isinstance(e.op, ast.Or):
            for c in e.values:
                push(c, False)
        else:
            out.append((e, pol))

    for test, pol in conds:
        if pol:
            for c in conjuncts(test):
                push(c, True)
        else:
            for d in disjuncts(test):
                push(d, False)
    return out


def _strip_not(e, pol):
    while isinstance(e, ast.UnaryOp) and isinstance(e.op, ast.Not):
        e = e.operand
        pol = not pol
    return e, pol


def is_nonmembership(test: ast.expr, pol: bool, recv: str, val: str, aliases: Set[str]) -> bool:
    """Does (test, pol) state that ``val`` is not a member of the receiver?"""
    e, pol = _strip_not(test, pol)
    recvs = {recv} | aliases
    if isinstance(e, ast.Compare) and len(e.ops) == 1:
        left, right = unparse(e.left), unparse(e.comparators[0])
        tgt = {r for r in recvs} | {f"{r}.values()" for r in recvs} | {f"{r}.content" for r in recvs}
        if left == val and right in tgt:
            if isinstance(e.ops[0], ast.NotIn) and pol:
                return True
            if isinstance(e.ops[0], ast.In) and not pol:
                return True
    if isinstance(e, ast.Call) and call_name(e) == "contains" and isinstance(e.func, ast.Attribute):
        if unparse(e.func.value) in recvs and e.args and unparse(e.args[0]) == val and not pol:
            return True
    return False


def append_sites(repo) -> List[Tuple[FunctionInfo, ast.Call]]:
    out = []
    for fi in repo.all_functions():
        if fi.cls is not None and fi.cls.name == "GroupedList":
            continue
        if "/selectors/" in fi.module.relpath:
            continue
        for n in walk_no_nested(fi.node):
            if isinstance(n, ast.Call) and isinstance(n.func, ast.Attribute) and n.func.attr == "append" and len(n.args) == 1:
                out.append((fi, n))
    out.sort(key=lambda t: (t[0].module.relpath, t[1].lineno))
    return out


def _aliases(fi: FunctionInfo, recv: str) -> Set[str]:
    """Other spellings of the receiver inside the function: ``order = self.values_orders[feature]``
    makes both texts denote the same object."""
    out = set()
    for n in walk_no_nested(fi.node):
        if isinstance(n, ast.Assign) and len(n.targets) == 1 and isinstance(n.targets[0], ast.Name):
            if n.targets[0].id == recv:
                out.add(unparse(n.value))
            elif unparse(n.value) == recv:
                out.add(n.targets[0].id)
    return out


def check_append_absent(ctx, rule: str, select=lambda fi: True):
    repo = ctx.repo
    n = 0
    for fi, call in append_sites(repo):
        if not select(fi):
            continue
        n += 1
        recv = unparse(call.func.value)
        val = unparse(call.args[0])
        cfg = cfg_of(ctx, fi)
        conds = _flatten_conditions(cfg.path_conditions(call))
        aliases = _aliases(fi, recv)
        guarded = any(is_nonmembership(t, p, recv, val, aliases) for t, p in conds)
        c = construct(fi, f"{recv}.append({val})")
        if _setdefault_list(call.func.value) or _plain_list_receiver(fi, call.func.value) or isinstance(call.args[0], (ast.List, ast.ListComp, ast.Dict, ast.DictComp, ast.Tuple)) or (
                isinstance(call.args[0], ast.BinOp) and isinstance(call.args[0].op, ast.Add) and any(isinstance(x, ast.List) for x in (call.args[0].left, call.args[0].right))):
            # a plain Python list built in this function (duplicates are harmless there), or a
            # non-scalar element (the members of an order are scalars): not an order
            ctx.ob(rule, c, True, loc(fi, call), "receiver is a plain list built in the function / the element is not a scalar: not a GroupedList")
            continue
        if guarded:
            ctx.ob(rule, c, True, loc(fi, call), "guarded by a non-membership test")
            continue
        exc = APPEND_EXCEPTIONS.get((fi.qualname, val)) or APPEND_EXCEPTIONS.get((f"{fi.module.relpath}::{fi.qualname}", val))
        if exc is not None and _exception_still_valid(fi, call, recv, val):
            ctx.ob(rule, c, True, loc(fi, call), "exception: " + exc)
            continue
        ctx.ob(rule, c, False, loc(fi, call),
               "append of a value that may already be a member: GroupedList.append resets its group to [value] "
               "and duplicates the leader (members of the existing group vanish from `content`)")
    return n


def _setdefault_list(recv: ast.expr) -> bool:
    """`d.setdefault(k, [])`: the receiver of the append is a plain list stored in a dict."""
    return (isinstance(recv, ast.Call) and isinstance(recv.func, ast.Attribute) and recv.func.attr == "setdefault" and len(recv.args) == 2
            and isinstance(recv.args[1], (ast.List, ast.ListComp)))


def _plain_list_receiver(fi: FunctionInfo, recv: ast.expr) -> bool:
    """The receiver is a local name every definition of which is syntactically a plain list."""
    if not isinstance(recv, ast.Name) or recv.id in fi.params:
        return False
    defs = []
    for n in walk_no_nested(fi.node):
        if isinstance(n, ast.Assign):
            for t in n.targets:
                for x in ast.walk(t):
                    if isinstance(x, ast.Name) and x.id == recv.id and isinstance(x.ctx, ast.Store):
                        if len(n.targets) == 1 and t is x:
                            defs.append(n.value)
                        elif len(n.targets) == 1 and isinstance(t, ast.Tuple) and isinstance(n.value, (ast.Tuple, ast.List)) and len(t.elts) == len(n.value.elts) and x in t.elts:
                            defs.append(n.value.elts[t.elts.index(x)])  # a, b = [], []
                        else:
                            defs.append(None)
        elif isinstance(n, (ast.For, ast.comprehension, ast.With)):
            tg = n.target if not isinstance(n, ast.With) else None
            if tg is not None and any(isinstance(x, ast.Name) and x.id == recv.id for x in ast.walk(tg)):
                defs.append(None)
        elif isinstance(n, ast.AnnAssign) and isinstance(n.target, ast.Name) and n.target.id == recv.id:
            defs.append(n.value)

    def plain(e) -> bool:
        if isinstance(e, (ast.List, ast.ListComp)):
            return True
        if isinstance(e, ast.Call) and isinstance(e.func, ast.Name) and e.func.id in ("list", "sorted"):
            return True
        if isinstance(e, ast.BinOp) and isinstance(e.op, ast.Add):
            return plain(e.left) or plain(e.right)
        return False

    return bool(defs) and all(d is not None and plain(d) for d in defs)


def _exception_still_valid(fi: FunctionInfo, call: ast.Call, recv: str, val: str) -> bool:
    """Structural side-conditions of the frozen exceptions."""
    q = fi.qualname
    src_fn = fi.node
    if q == "convert_to_labels":
        # labels_orders built by a comprehension filtering `!= str_nan`; the appended list comes from it
        ok_filter = any(
            isinstance(n, (ast.DictComp, ast.ListComp)) and any(
                cmp_canon(c) is not None and cmp_canon(c)[1] == "!=" and val in (cmp_canon(c)[0], cmp_canon(c)[2])
                for g in n.generators for c in g.ifs) or any(
                isinstance(m, ast.ListComp) and any(
                    cmp_canon(c) is not None and cmp_canon(c)[1] == "!=" and val in (cmp_canon(c)[0], cmp_canon(c)[2])
                    for g in m.generators for c in g.ifs) for m in ast.walk(n))
            for n in ast.walk(src_fn) if isinstance(n, (ast.DictComp, ast.ListComp))
        )
        not_in_loop_twice = len(cfg_loops(fi, call)) <= 1
        return ok_filter and not_in_loop_twice
    if q == "fit_feature":
        # receiver freshly constructed in this function, append not inside a loop
        fresh = any(
            isinstance(n, ast.Assign) and isinstance(n.targets[0], ast.Name) and n.targets[0].id == recv
            and isinstance(n.value, ast.Call) and call_name(n.value) == "GroupedList"
            for n in walk_no_nested(src_fn)
        )
        return fresh and not cfg_loops(fi, call)
    return True


def cfg_loops(fi: FunctionInfo, node: ast.AST):
    par = {}
    for n in ast.walk(fi.node):
        for ch in ast.iter_child_nodes(n):
            par[id(ch)] = n
    out = []
    cur = par.get(id(node))
    while cur is not None and cur is not fi.node:
        if isinstance(cur, (ast.For, ast.While)):
            out.append(cur)
        cur = par.get(id(cur))
    return out


# ---------------------------------------------------------------------------------------------
# R-comutation: list elements == keys of content is an inductive invariant of every mutator
# ---------------------------------------------------------------------------------------------


class Undecided(Exception):
    pass


def _paths(stmts: List[ast.stmt], prefix=None) -> List[List[tuple]]:
    """All paths through an if-structured statement list.  A path is a list of items:
    ("stmt", node) | ("cond", test, polarity).  Loop bodies are expanded as 'executed once' and
    'skipped' (per-iteration preservation composes).  Paths end at return/raise."""
    paths = [[]]
    for s in stmts:
        new_paths = []
        for p in paths:
            if p and p[-1][0] == "end":
                new_paths.append(p)
                continue
            if isinstance(s, ast.If):
                for sub in _paths(s.body):
                    new_paths.append(p + [("cond", s.test, True)] + sub)
                for sub in _paths(s.orelse) if s.orelse else [[]]:
                    new_paths.append(p + [("cond", s.test, False)] + sub)
            elif isinstance(s, (ast.For, ast.While)):
                new_paths.append(p + [("skip-loop", s)])
                for sub in _paths(s.body):
                    sub = [x for x in sub if x[0] != "end"]
                    new_paths.append(p + [("loop", s)] + sub)
            elif isinstance(s, (ast.Return, ast.Raise)):
                new_paths.append(p + [("stmt", s), ("end",)])
            else:
                new_paths.append(p + [("stmt", s)])
        paths = new_paths
        if len(paths) > 256:
            raise Undecided("too many paths")
    return paths


def _is_self(e, names=("self",)):
    return isinstance(e, ast.Name) and e.id in names


def _is_content(e):
    return isinstance(e, ast.Attribute) and e.attr == "content" and _is_self(e.value)


def _ops_of_stmt(s: ast.stmt, list_names: Set[str]) -> List[tuple]:
    """Translate one statement into abstract ops on L (the list) and C (content's key set):
    ("L+", sym) ("L-", sym) ("Lrepl", old, new) ("C+", sym, valueexpr) ("C-", sym) ("both-", sym)
    ("both+", sym) ("fact-in", sym) ("Linit", src) ("Cinit", src) ("L+set", src) ("C+set", src)
    ("fact-member", member, leader)."""
    ops = []
    # ---- assert X in self / assert m in self.content[l]
    if isinstance(s, ast.Assert):
        for c in conjuncts(s.test):
            if isinstance(c, ast.Compare) and len(c.ops) == 1 and isinstance(c.ops[0], ast.In):
                right = c.comparators[0]
                if _is_self(right):
                    ops.append(("fact-in", unparse(c.left)))
                elif isinstance(right, ast.Subscript) and _is_content(right.value):
                    ops.append(("fact-member", unparse(c.left), unparse(right.slice)))
                    ops.append(("fact-in", unparse(right.slice)))
        return ops
    # ---- self += [X]  /  self += [k for k, _ in D.items() if k not in self]
    if isinstance(s, ast.AugAssign) and isinstance(s.op, ast.Add) and _is_self(s.target, list_names):
        v = s.value
        if isinstance(v, ast.List):
            for e in v.elts:
                ops.append(("L+", unparse(e)))
            return ops
        if isinstance(v, ast.ListComp) and len(v.generators) == 1:
            g = v.generators[0]
            src = g.iter
            if isinstance(src, ast.Call) and call_name(src) in ("items", "keys") and isinstance(src.func, ast.Attribute):
                src = src.func.value
            filt_ok = any(
                (cc := cmp_canon(c)) is not None and cc[1] == "not in" and cc[2] in list_names
                for c in g.ifs
            )
            if isinstance(src, ast.Name):
                ops.append(("L+set", src.id) if filt_ok else ("L+dup", src.id))
                return ops
        raise Undecided(f"unrecognised list extension: {short(s)}")
    if isinstance(s, ast.Expr) and isinstance(s.value, ast.Call):
        c = s.value
        f = c.func
        if isinstance(f, ast.Attribute):
            # super().remove(X) / super().append(X) / super().__init__(E)
            if isinstance(f.value, ast.Call) and isinstance(f.value.func, ast.Name) and f.value.func.id == "super":
                if f.attr == "remove" and len(c.args) == 1:
                    return [("L-", unparse(c.args[0]))]
                if f.attr == "append" and len(c.args) == 1:
                    return [("L+", unparse(c.args[0]))]
                if f.attr == "__init__":
                    return [("Linit", unparse(c.args[0]) if c.args else "()")]
                if f.attr in ("insert", "extend", "clear", "pop", "reverse", "sort"):
                    raise Undecided(f"raw list mutator through super(): {short(s)}")
                return []
            # keys.remove(X) on the local list that becomes the GroupedList
            if _is_self(f.value, list_names - {"self"}) and f.attr == "remove" and len(c.args) == 1:
                return [("L-", unparse(c.args[0]))]
            # self.remove(X) / self.append(X) / self.group(...) : own, separately verified methods
            if _is_self(f.value):
                if f.attr == "remove" and len(c.args) == 1:
                    return [("both-", unparse(c.args[0]))]
                if f.attr == "append" and len(c.args) == 1:
                    return [("both+", unparse(c.args[0]))]
                if f.attr in ("group", "group_list", "sort_by", "sort", "get", "get_group", "contains", "values", "index", "update", "pop", "replace_group_leader"):
                    return []  # delegates to a method that preserves the invariant itself
                if f.attr in ("insert", "extend", "clear", "reverse"):
                    raise Undecided(f"raw list mutator on self: {short(s)}")
                return []
            # self.content.update({...}) / self.content.update(D) / self.content.pop(X)
            if _is_content(f.value):
                if f.attr == "update" and len(c.args) == 1:
                    a = c.args[0]
                    if isinstance(a, ast.Dict):
                        for k, v in zip(a.keys, a.values):
                            if k is None:
                                raise Undecided("dict unpacking in content.update")
                            ops.append(("C+", unparse(k), v))
                        return ops
                    if isinstance(a, ast.Name):
                        return [("C+set", a.id)]
                    raise Undecided(f"unrecognised content update: {short(s)}")
                if f.attr == "pop" and len(c.args) >= 1:
                    return [("C-", unparse(c.args[0]))]
                if f.attr in ("clear", "popitem", "setdefault", "__setitem__", "__delitem__"):
                    raise Undecided(f"unrecognised content mutation: {short(s)}")
                return []
        return []
    if isinstance(s, ast.Assign) and len(s.targets) == 1:
        t = s.targets[0]
        # self[idx] = X   with idx = self.index(Y)
        if isinstance(t, ast.Subscript) and _is_self(t.value, list_names):
            return [("Lrepl", unparse(t.slice), unparse(s.value))]
        # self.content = E
        if _is_content(t):
            return [("Cinit", s.value)]
        # self.content[X] = V
        if isinstance(t, ast.Subscript) and _is_content(t.value):
            return [("C+", unparse(t.slice), s.value)]
        if isinstance(t, ast.Name):
            return [("let", t.id, s.value)]
        if isinstance(t, ast.Tuple) and isinstance(s.value, ast.Tuple) and len(t.elts) == len(s.value.elts):
            return [("let", a.id, b) for a, b in zip(t.elts, s.value.elts) if isinstance(a, ast.Name)]
        return []
    # name: annotation = value   (a local with a type annotation)
    if isinstance(s, ast.AnnAssign) and isinstance(s.target, ast.Name) and s.value is not None:
        return [("let", s.target.id, s.value)]
    if isinstance(s, ast.Delete):
        for t in s.targets:
            if isinstance(t, ast.Subscript) and (_is_content(t.value) or _is_self(t.value, list_names)):
                raise Undecided(f"del on list/content: {short(s)}")
    if isinstance(s, ast.AugAssign) and isinstance(s.target, ast.Subscript) and _is_content(s.target.value):
        return []  # content[k] += [...]: keys unchanged
    return ops


def _value_contains_key(v: ast.expr, key: str, lets: Dict[str, ast.expr], member_facts: Set[Tuple[str, str]]) -> bool:
    """Does the new group ``v`` stored under ``key`` contain ``key`` itself?"""
    # [key] / [..., key, ...]
    if isinstance(v, ast.List):
        return any(unparse(e) == key for e in v.elts)
    if isinstance(v, ast.Name) and v.id in lets:
        return _value_contains_key(lets[v.id], key, lets, member_facts)
    # A + B
    if isinstance(v, ast.BinOp) and isinstance(v.op, ast.Add):
        return _value_contains_key(v.left, key, lets, member_facts) or _value_contains_key(v.right, key, lets, member_facts)
    txt = unparse(v)
    # content of key itself (contains key by the invariant)
    for pat in (f"self.content.get({key})", f"self.content[{key}]", f"self.get({key})"):
        if txt.startswith(pat):
            return True
    # copy of the group of a leader in which key was asserted to be
    for member, leader in member_facts:
        if member == key and any(txt.startswith(p) for p in (f"self.content[{leader}]", f"self.content.get({leader})", f"self.get({leader})")):
            return True
    return False


def check_comutation_method(fi: FunctionInfo) -> List[Tuple[bool, str, ast.AST]]:
    """Returns [(ok, description, node)] per path of one mutator."""
    results = []
    body = [s for s in fi.node.body if not (isinstance(s, ast.Expr) and isinstance(s.value, ast.Constant))]
    list_names = {"self"}
    if fi.name == "__init__":
        list_names |= {"keys"}
    for path in _paths(body):
        ops: List[tuple] = []
        distinct: Set[frozenset] = set()
        first_node = fi.node
        for item in path:
            if item[0] == "cond":
                test, pol = item[1], item[2]
                e, p = _strip_not(test, pol)
                if isinstance(e, ast.Call) and call_name(e) == "is_equal" and len(e.args) == 2:
                    a, b = unparse(e.args[0]), unparse(e.args[1])
                    ops.append(("fact-eq" if p else "fact-neq", a, b))
                else:
                    cc = cmp_canon(test if pol else ast.UnaryOp(op=ast.Not(), operand=test))
                    if cc is not None and cc[1] == "!=":
                        ops.append(("fact-neq", cc[0], cc[2]))
                    elif cc is not None and cc[1] == "==":
                        ops.append(("fact-eq", cc[0], cc[2]))
                    elif cc is not None and cc[1] == "in" and cc[2] == "self":
                        ops.append(("fact-in", cc[0]))
                    elif cc is not None and cc[1] == "not in" and cc[2] in ("self",):
                        ops.append(("fact-notin", cc[0]))
            elif item[0] == "stmt":
                ops += _ops_of_stmt(item[1], list_names)
            elif item[0] == "loop" and isinstance(item[1], ast.For) and isinstance(item[1].target, ast.Name):
                # iterating (a copy of) the list itself: the loop variable is a current element
                it = item[1].iter
                src = unparse(it)
                if isinstance(it, ast.Name):
                    for o in ops:
                        if o[0] == "let" and o[1] == it.id:
                            src = unparse(o[2])
                base = src[:-3] if src.endswith("[:]") else (src[5:-1] if src.startswith("list(") and src.endswith(")") else src)
                if base.endswith(".keys()"):
                    base = base[:-7]
                # ... or the dict the list was built from (`keys = list(iterable)`; `for key in iterable`):
                # the same elements (the loop removes at most the current one)
                built_from = any(o[0] == "let" and o[1] in list_names and unparse(o[2]) in (f"list({base})", f"list({base}.keys())") for o in ops)
                if base in list_names or built_from:
                    ops.append(("fact-in", item[1].target.id))
        results += _simulate(fi, ops, path)
    return results


def _simulate(fi: FunctionInfo, ops: List[tuple], path) -> List[Tuple[bool, str, ast.AST]]:
    lets: Dict[str, ast.expr] = {}
    for op in ops:
        if op[0] == "let":
            lets[op[1]] = op[2]

    def resolve_index(sym: str) -> str:
        # self[group_idx] with group_idx = self.index(Y)  ->  Y
        if sym in lets:
            v = lets[sym]
            if isinstance(v, ast.Call) and call_name(v) == "index" and _is_self(v.func.value) and len(v.args) == 1:
                return unparse(v.args[0])
        # self[self.index(Y)] written directly
        try:
            v = ast.parse(sym, mode="eval").body
            if isinstance(v, ast.Call) and call_name(v) == "index" and _is_self(v.func.value) and len(v.args) == 1:
                return unparse(v.args[0])
        except SyntaxError:
            pass
        raise Undecided(f"list store at an index that is not self.index(<leader>): {sym}")

    # __init__: initialisation pattern
    inits = [op for op in ops if op[0] in ("Linit", "Cinit")]
    out = []
    if inits:
        li = [op for op in inits if op[0] == "Linit"]
        cinit = [op for op in inits if op[0] == "Cinit"]
        if len(li) != 1 or len(cinit) != 1:
            if not li and not cinit:
                pass
            else:
                return [(False, "list and content are not both initialised on this constructor path", fi.node)]
        else:
            lsrc = li[0][1]
            if lsrc in lets:
                lsrc_expr = lets[lsrc]
                lsrc_txt = unparse(lsrc_expr)
            else:
                lsrc_txt = lsrc
            cexpr = cinit[0][1]
            ctxt = unparse(cexpr)
            ok = False
            # list(iterable) & dict(iterable.items())
            if lsrc_txt in ("list(iterable)", "iterable[:]", "iterable") and ctxt in ("dict(iterable.items())", "dict(iterable)", "iterable.copy()", "{k: v for k, v in iterable.items()}"):
                ok = True
            if lsrc_txt in ("iterable", "list(iterable)") and ctxt in ("dict(iterable.content.items())", "dict(iterable.content)", "iterable.content.copy()"):
                ok = True
            if isinstance(cexpr, ast.DictComp) and len(cexpr.generators) == 1:
                g = cexpr.generators[0]
                if unparse(g.iter) == lsrc_txt.replace("list(", "").rstrip(")") or unparse(g.iter) == lsrc_txt:
                    if isinstance(g.target, ast.Name) and unparse(cexpr.key) == g.target.id and not g.ifs:
                        ok = _value_contains_key(cexpr.value, g.target.id, {}, set())
            if not ok:
                return [(False, f"constructor initialises the list from `{lsrc_txt}` and content from `{ctxt}`: key sets not provably equal", fi.node)]
    for op in ops:
        if op[0] == "L+dup":
            out.append((False, f"keys of `{op[1]}` are added to the list without the `not in self` filter: a key that is already an element is duplicated", fi.node))
    # symbols
    syms: List[str] = []

    def add(sym):
        if sym not in syms:
            syms.append(sym)

    norm_ops = []
    member_facts: Set[Tuple[str, str]] = set()
    for op in ops:
        k = op[0]
        if k == "Lrepl":
            old = resolve_index(op[1])
            add(old)
            add(op[2])
            norm_ops.append(("L-", old))
            norm_ops.append(("L+", op[2]))
        elif k in ("L+", "L-", "C-", "both-", "both+", "fact-in", "fact-notin"):
            add(op[1])
            norm_ops.append(op)
        elif k == "C+":
            add(op[1])
            norm_ops.append(op)
        elif k in ("L+set", "C+set"):
            add(f"<any key of {op[1]}>")
            norm_ops.append((k[:2], f"<any key of {op[1]}>") if k == "L+set" else ("C+", f"<any key of {op[1]}>", None))
        elif k in ("fact-neq", "fact-eq"):
            norm_ops.append(op)
        elif k == "fact-member":
            member_facts.add((op[1], op[2]))
    if not syms:
        return out
    if len(syms) > 4:
        raise Undecided("too many symbolic elements on one path")
    # enumerate equality partitions of the symbols consistent with the path facts
    neq = {frozenset((a, b)) for (k, a, b) in [o for o in norm_ops if o[0] == "fact-neq"]}
    eqs = {frozenset((a, b)) for (k, a, b) in [o for o in norm_ops if o[0] == "fact-eq"]}
    n = len(syms)
    for assign in itertools.product(range(n), repeat=n):
        # canonical set partitions only (restricted growth strings)
        if any(assign[i] > max(assign[:i], default=-1) + 1 for i in range(n)) or assign[0] != 0:
            continue
        cls = dict(zip(syms, assign))
        if any(len(p) == 2 and all(x in cls for x in p) and len({cls[x] for x in p}) == 1 for p in neq):
            continue
        if any(len(p) == 2 and all(x in cls for x in p) and len({cls[x] for x in p}) == 2 for p in eqs):
            continue
        # a symbol set "<any key of D>" is kept apart from nothing: it may equal any element
        L: Dict[int, str] = {}
        C: Dict[int, str] = {}
        init_in: Dict[int, Optional[bool]] = {}
        for op in norm_ops:
            if op[0] == "fact-in":
                init_in[cls[op[1]]] = True
            elif op[0] == "fact-notin":
                init_in[cls[op[1]]] = False
        for c in set(assign):
            v = init_in.get(c)
            L[c] = C[c] = "yes" if v is True else ("no" if v is False else "init")
        pending_leader_check = []
        for op in norm_ops:
            k = op[0]
            if k == "L+":
                L[cls[op[1]]] = "yes"
            elif k == "L-":
                L[cls[op[1]]] = "no"
            elif k == "C+":
                C[cls[op[1]]] = "yes"
                if op[2] is not None:
                    pending_leader_check.append((op[1], op[2]))
            elif k == "C-":
                C[cls[op[1]]] = "no"
            elif k == "both-":
                L[cls[op[1]]] = "no"
                C[cls[op[1]]] = "no"
            elif k == "both+":
                L[cls[op[1]]] = "yes"
                C[cls[op[1]]] = "yes"
        part = ", ".join(f"{s}#{cls[s]}" for s in syms)
        for c in sorted(set(assign)):
            if L[c] != C[c]:
                who = [s for s in syms if cls[s] == c]
                same = [s for s in syms if cls[s] == c]
                alias = f" when {' == '.join(same)}" if len(same) > 1 else ""
                out.append((False, f"after this path `{who[0]}` is {'in' if L[c] == 'yes' else ('not in' if L[c] == 'no' else 'as before in')} the list but "
                                   f"{'a key' if C[c] == 'yes' else ('not a key' if C[c] == 'no' else 'as before')} of content{alias}", fi.node))
        # every leader written to content is a member of its own group (unless removed afterwards)
        for key, v in pending_leader_check:
            c = cls[key]
            if C[c] == "yes" and not _value_contains_key(v, key, lets, member_facts):
                out.append((False, f"content[{key}] is set to `{short(v, 60)}` which does not contain the leader `{key}` and the key is kept", fi.node))
    if not any(not r[0] for r in out):
        out.append((True, f"path with ops {[o[0] + ':' + str(o[1]) for o in norm_ops if o[0][0] in 'LCb']}", fi.node))
    return out


MUTATORS = ["__init__", "append", "update", "remove", "pop", "group", "replace_group_leader"]


def check_leader_position(ctx, rule: str):
    """replace_group_leader renames a group *in place*: the new leader takes the position of the old one
    (an item store / insert at that position).  Removing the old leader and adding the new one through
    append / update / += puts the group at the end of the order: the partition is intact, the order
    of the groups -- what carving and labels are built on -- is not."""
    gl = ctx.repo.find_class("GroupedList")
    fi = gl.methods.get("replace_group_leader")
    if fi is None:
        raise AnalysisError("GroupedList.replace_group_leader not found")
    positional = [n for n in walk_no_nested(fi.node) if (isinstance(n, ast.Subscript) and isinstance(n.ctx, ast.Store) and unparse(n.value) == "self")
                  or (isinstance(n, ast.Call) and isinstance(n.func, ast.Attribute) and n.func.attr == "insert" and unparse(n.func.value) in ("self", "super()"))]
    moving = [n for n in walk_no_nested(fi.node) if isinstance(n, ast.Call) and isinstance(n.func, ast.Attribute) and n.func.attr in ("remove", "append", "update", "pop", "extend")
              and unparse(n.func.value) in ("self", "super()")] + [n for n in walk_no_nested(fi.node) if isinstance(n, ast.AugAssign) and unparse(n.target) == "self"]
    ok = bool(positional) or not moving
    ctx.ob(rule, construct(fi, "the renamed group keeps its position in the order (item store / insert at the old leader's position)"), ok, loc(fi, moving[0] if moving and not ok else None),
           "" if ok else f"the old leader is taken out and the new one added with `{short(moving[-1], 50)}`: the group moves to the end of the order")


def check_comutation(ctx, rule: str):
    repo = ctx.repo
    gl = repo.find_class("GroupedList")
    from .truthiness import check_position_truthiness

    # a mutator that locates the leader itself must not take position 0 for 'not found' (the list would keep the old leader)
    check_position_truthiness(ctx, "R-position-truthiness", list(gl.methods.values()))
    check_leader_position(ctx, "R-leader-position")
    for name in MUTATORS:
        fi = gl.methods.get(name)
        if fi is None:
            raise AnalysisError(f"GroupedList.{name} not found")
        try:
            results = check_comutation_method(fi)
        except Undecided as exc:
            ctx.ob(rule, construct(fi, "co-mutation of list and content"), None, loc(fi), str(exc))
            continue
        bad = [r for r in results if not r[0]]
        seen = set()
        for ok, desc, node in bad:
            if desc in seen:
                continue
            seen.add(desc)
            ctx.ob(rule, construct(fi, desc), False, loc(fi, node), "list elements and keys of content diverge")
        if not bad:
            ctx.ob(rule, construct(fi, f"list and content key set change together on all {len(results)} paths"), True, loc(fi))
    # any other method of the class that touches the list or content directly is a new mutator
    for name, fi in gl.methods.items():
        if name in MUTATORS:
            continue
        direct = False
        for s in walk_no_nested(fi.node):
            if isinstance(s, (ast.Assign, ast.AugAssign, ast.Expr, ast.Delete)):
                try:
                    ops = _ops_of_stmt(s, {"self"}) if not isinstance(s, ast.Assert) else []
                except Undecided:
                    direct = True
                    break
                if any(o[0] in ("L+", "L-", "Lrepl", "C+", "C-", "Cinit", "Linit", "L+set", "C+set") for o in ops):
                    direct = True
                    break
        if direct:
            try:
                results = check_comutation_method(fi)
                bad = [r for r in results if not r[0]]
                for ok, desc, node in bad[:3]:
                    ctx.ob(rule, construct(fi, desc), False, loc(fi, node), "list elements and keys of content diverge")
                if not bad:
                    ctx.ob(rule, construct(fi, "new mutator keeps list and content together"), True, loc(fi))
            except Undecided as exc:
                ctx.ob(rule, construct(fi, "co-mutation of list and content"), None, loc(fi), str(exc))
