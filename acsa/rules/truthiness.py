"""R-value-truthiness: ``any(...)`` / ``all(...)`` used as an emptiness or membership test must range
over boolean-valued elements; over *data values* a falsy datum ("", 0, 0.0) counts as nothing."""
from __future__ import annotations

import ast
from typing import List, Tuple

from ..core import FunctionInfo, call_name, unparse, walk_no_nested
from ..exprs import single_defs
from .common import construct, loc

# collections of feature *names* (assumption: feature names are non-empty strings)
NAME_LISTS = {
    "quantitative_features", "qualitative_features", "ordinal_features", "features", "best_features",
    "self.quantitative_features", "self.qualitative_features", "self.ordinal_features", "self.features",
}
PREDICATES = {
    "isna", "isnull", "notna", "notnull", "isnan", "isfinite", "isclose", "is_equal", "isinstance", "contains",
    "startswith", "endswith", "duplicated", "isin", "between", "is_integer", "any", "all", "bool", "in1d", "equals",
    "hasattr", "callable", "issubclass",
}


def elem_kind(fn: ast.FunctionDef, e: ast.expr, defs=None, depth: int = 0) -> str:
    """'bool' | 'data' | 'unknown' for the *elements* of the collection ``e``."""
    defs = single_defs(fn) if defs is None else defs
    if isinstance(e, (ast.GeneratorExp, ast.ListComp, ast.SetComp)):
        return value_kind(e.elt)
    if isinstance(e, (ast.Compare, ast.BoolOp)):
        return "bool"
    if isinstance(e, ast.UnaryOp) and isinstance(e.op, (ast.Not, ast.Invert)):
        return "bool"
    if isinstance(e, ast.BinOp) and isinstance(e.op, (ast.BitAnd, ast.BitOr)):
        return "bool"
    if isinstance(e, ast.Call):
        name = call_name(e)
        if name in PREDICATES:
            return "bool"
        if name == "apply" and e.args and isinstance(e.args[0], ast.Lambda):
            return value_kind(e.args[0].body)
        if name in ("list", "tuple", "sorted", "set") and len(e.args) == 1:
            return elem_kind(fn, e.args[0], defs, depth + 1)
        return "unknown"
    if isinstance(e, ast.Name):
        if e.id in NAME_LISTS:
            return "names"
        if e.id in defs and depth < 4:
            return elem_kind(fn, defs[e.id], defs, depth + 1)
        # several definitions (x = [...]; x += [...]): data if every one of them is
        vals = []
        for n in walk_no_nested(fn):
            if isinstance(n, ast.Assign) and any(isinstance(t, ast.Name) and t.id == e.id for t in n.targets):
                vals.append(n.value)
            elif isinstance(n, ast.AugAssign) and isinstance(n.target, ast.Name) and n.target.id == e.id:
                vals.append(n.value)
        if vals and depth < 4:
            kinds = {elem_kind(fn, v, defs, depth + 1) for v in vals}
            if len(kinds) == 1:
                return kinds.pop()
        return "unknown"
    if isinstance(e, ast.Attribute):
        return "names" if unparse(e) in NAME_LISTS else "unknown"
    if isinstance(e, ast.Subscript):
        # boolean mask selections such as not_object[...] stay unknown
        return "unknown"
    if isinstance(e, (ast.List, ast.Tuple)):
        kinds = {value_kind(x) for x in e.elts}
        return kinds.pop() if len(kinds) == 1 else "unknown"
    return "unknown"


def value_kind(e: ast.expr) -> str:
    if isinstance(e, (ast.Compare, ast.BoolOp)):
        return "bool"
    if isinstance(e, ast.UnaryOp) and isinstance(e.op, (ast.Not, ast.Invert)):
        return "bool"
    if isinstance(e, ast.Call):
        return "bool" if call_name(e) in PREDICATES else "unknown"
    if isinstance(e, ast.Constant) and isinstance(e.value, bool):
        return "bool"
    if isinstance(e, (ast.Name, ast.Subscript, ast.Attribute)):
        return "data"  # the element itself (a key, a value, a leader) is tested for truthiness
    return "unknown"


def sites(fi: FunctionInfo) -> List[Tuple[ast.Call, str]]:
    out = []
    defs = single_defs(fi.node)
    for n in walk_no_nested(fi.node):
        if isinstance(n, ast.Call) and isinstance(n.func, ast.Name) and n.func.id in ("any", "all") and len(n.args) == 1:
            out.append((n, elem_kind(fi.node, n.args[0], defs)))
    return out


def check_truthiness(ctx, rule: str, functions: List[FunctionInfo]) -> int:
    n = 0
    for fi in functions:
        for call, kind in sites(fi):
            n += 1
            c = construct(fi, " ".join(unparse(call).split())[:100])
            if kind == "data":
                ctx.ob(rule, c, False, loc(fi, call),
                       "any()/all() over data values: a falsy value (\"\", 0, 0.0) is treated as absent")
            else:
                ctx.ob(rule, c, True, loc(fi, call), f"elements are {kind}")
    return n


def or_default_sites(fi: FunctionInfo):
    """``<value> or <default>`` used as a *value* (not as a test): a falsy datum (0, 0.0, "") is
    silently replaced by the default."""
    par = {}
    for n in ast.walk(fi.node):
        for ch in ast.iter_child_nodes(n):
            par[id(ch)] = n
    out = []
    for n in walk_no_nested(fi.node):
        if isinstance(n, ast.BoolOp) and isinstance(n.op, ast.Or):
            p = par.get(id(n))
            in_test = (isinstance(p, (ast.If, ast.While, ast.Assert, ast.IfExp)) and getattr(p, "test", None) is n) or isinstance(p, ast.BoolOp) or (
                isinstance(p, ast.UnaryOp) and isinstance(p.op, ast.Not)) or isinstance(p, ast.comprehension)
            if in_test:
                continue
            if value_kind(n.values[0]) == "bool":
                continue
            out.append(n)
    return out


def check_or_default(ctx, rule: str, functions: List[FunctionInfo]) -> int:
    n = 0
    bad = 0
    for fi in functions:
        for site in or_default_sites(fi):
            n += 1
            bad += 1
            ctx.ob(rule, construct(fi, f"`{' '.join(unparse(site).split())[:90]}` replaces a falsy value by the default"), False, loc(fi, site),
                   "0, 0.0 or '' is a legitimate value (a boundary at 0.0, min_freq_mod=0, a category named ''): `x or default` discards it")
    if bad == 0:
        ctx.ob(rule, f"{len(functions)} functions: no `value or default` on data / parameters", True, "")
    return n


def truth_tested_names(fn: ast.AST):
    """Name nodes whose truth value is taken: test of if / while / conditional expression / assert,
    operand of not / and / or, argument of bool()."""
    out = []

    def test(e):
        if isinstance(e, ast.Name):
            out.append(e)
        elif isinstance(e, ast.BoolOp):
            for v in e.values:
                test(v)
        elif isinstance(e, ast.UnaryOp) and isinstance(e.op, ast.Not):
            test(e.operand)

    for n in walk_no_nested(fn):
        if isinstance(n, (ast.If, ast.While, ast.IfExp, ast.Assert)):
            test(n.test)
        elif isinstance(n, ast.BoolOp):
            for v in n.values[:-1]:
                test(v)
        elif isinstance(n, ast.UnaryOp) and isinstance(n.op, ast.Not):
            test(n.operand)
        elif isinstance(n, ast.Call) and isinstance(n.func, ast.Name) and n.func.id == "bool" and n.args:
            test(n.args[0])
        elif isinstance(n, ast.comprehension):
            for i in n.ifs:
                test(i)
    return out


def check_optional_by_none(ctx, rule: str, functions: List[FunctionInfo], kinds=("str", "Any", "int", "float")) -> int:
    """An optional scalar parameter (default None, annotated str / Any / number: a column label, a
    value) is told apart from 'not given' with `is None` only: 0 and "" are legitimate labels."""
    n = 0
    for fi in functions:
        dfl = fi.param_defaults()
        for p, d in dfl.items():
            if not (isinstance(d, ast.Constant) and d.value is None):
                continue
            ann = next((a.annotation for a in fi.node.args.posonlyargs + fi.node.args.args + fi.node.args.kwonlyargs if a.arg == p), None)
            if ann is None:
                continue
            at = unparse(ann).replace(" ", "")
            for pre, post in (("Optional[", "]"), ("Union[", ",None]"), ("typing.Optional[", "]")):
                if at.startswith(pre) and at.endswith(post):
                    at = at[len(pre):len(at) - len(post)]
            at = at.replace("|None", "")
            if at not in kinds:
                continue
            bad = [x for x in truth_tested_names(fi.node) if x.id == p]
            n += 1
            ctx.ob(rule, construct(fi, f"optional `{p}` is tested with `is None`, never by truthiness"), not bad, loc(fi, bad[0] if bad else None),
                   "" if not bad else f"`{p}` is a legitimate value when it is 0 or '' (e.g. a column label of DataFrame(array)): the truth test treats it as 'not given'")
    return n


INDEX_CALLS = {"index", "find", "rfind", "argmax", "argmin", "searchsorted", "get_loc", "bisect", "bisect_left", "bisect_right"}


def _is_position_expr(e: ast.expr) -> bool:
    """An expression whose value is a position in a sequence (0 is a legitimate result)."""
    if isinstance(e, ast.Call):
        name = call_name(e)
        if name in INDEX_CALLS and isinstance(e.func, ast.Attribute):
            return True
        if name == "next" and e.args and isinstance(e.args[0], (ast.GeneratorExp, ast.ListComp)) and isinstance(e.args[0].elt, ast.Name):
            g = e.args[0].generators[0]
            # next((n for n, v in enumerate(seq) if ..), default): the element is the enumerate counter
            if isinstance(g.iter, ast.Call) and call_name(g.iter) == "enumerate" and isinstance(g.target, ast.Tuple) and g.target.elts and isinstance(g.target.elts[0], ast.Name) and g.target.elts[0].id == e.args[0].elt.id:
                return True
            if isinstance(g.iter, ast.Call) and call_name(g.iter) == "range" and isinstance(g.target, ast.Name) and g.target.id == e.args[0].elt.id:
                return True
    return False


def check_position_truthiness(ctx, rule: str, functions: List[FunctionInfo]) -> int:
    """A position (result of .index(), of a search over enumerate / range) is never tested by
    truthiness: position 0 is a hit, `if position:` treats it as 'not found' and the first element
    of the sequence is silently skipped.  'Not found' is told apart with `is None` / `>= 0`."""
    n = 0
    bad_total = 0
    for fi in functions:
        pos_names = {}
        for st in walk_no_nested(fi.node):
            if isinstance(st, ast.Assign) and len(st.targets) == 1 and isinstance(st.targets[0], ast.Name):
                pos_names.setdefault(st.targets[0].id, []).append(_is_position_expr(st.value))
            elif isinstance(st, (ast.AugAssign, ast.AnnAssign)) and isinstance(st.target, ast.Name):
                pos_names.setdefault(st.target.id, []).append(isinstance(st, ast.AnnAssign) and st.value is not None and _is_position_expr(st.value))
        pos = {k for k, v in pos_names.items() if v and all(v)}
        if not pos:
            continue
        tested = [x for x in truth_tested_names(fi.node) if x.id in pos]
        for k in sorted(pos):
            n += 1
            bad = [x for x in tested if x.id == k]
            bad_total += bool(bad)
            ctx.ob(rule, construct(fi, f"position `{k}` is never tested by truthiness"), not bad, loc(fi, bad[0] if bad else None),
                   "" if not bad else f"`{k}` is a position: 0 (the first element) is a hit, the truth test treats it as 'not found' and the first element is skipped")
    if n == 0:
        ctx.ob(rule, f"{len(functions)} functions: no position value bound to a name", True, "")
    return n
