"""Rules about base discretization shared by C03, C08, C09, C11."""
from __future__ import annotations

import ast
from typing import Dict, List, Optional, Set, Tuple

from ..core import AnalysisError, External, FunctionInfo, call_name, const_value, kwarg, unparse, walk_no_nested
from ..exprs import canon_unparse, cmp_canon, conjuncts, inline, single_defs
from ..flow import expr_tainted, tainted_names
from .common import F_BASE, F_DISC, F_QUAL, F_QUAN, calls, cfg_of, construct, loc, short
from .grouped import _flatten_conditions
from .carver import _canon_set


# ---------------------------------------------------------------------------------------------
# qualities of the boundary list: sorted / unique / ends with +inf
# ---------------------------------------------------------------------------------------------


def qualities(repo, fi: FunctionInfo, e: ast.expr, defs, depth=0) -> Set[str]:
    if depth > 8 or e is None:
        return set()
    if isinstance(e, ast.Name):
        if e.id in defs:
            return qualities(repo, fi, defs[e.id], defs, depth + 1)
        return set()
    if isinstance(e, ast.Call):
        name = call_name(e)
        f = e.func
        if name == "unique":
            sym = repo.resolve_expr(fi.module, f)
            if isinstance(sym, External) and sym.dotted.startswith("numpy") and kwarg(e, "return_counts") is None and kwarg(e, "return_index") is None:
                return {"sorted", "unique"}
            return {"unique"}
        if name in ("sort", "sorted"):
            inner = qualities(repo, fi, e.args[0], defs, depth + 1) if e.args else set()
            rev = kwarg(e, "reverse")
            if rev is not None and const_value(rev) is not False:
                return inner & {"unique"}
            return {"sorted"} | (inner & {"unique"})
        if name in ("set", "frozenset"):
            return {"unique"}
        if name in ("list", "array", "tuple", "asarray"):
            return qualities(repo, fi, e.args[0], defs, depth + 1) if e.args else set()
        if name == "fromkeys":
            return {"unique"} | (qualities(repo, fi, e.args[0], defs, depth + 1) & {"sorted"} if e.args else set())
        # package function: qualities of what it returns
        sym = repo.resolve_expr(fi.module, f) if isinstance(f, (ast.Name, ast.Attribute)) else None
        if isinstance(sym, FunctionInfo):
            rets = [r for r in walk_no_nested(sym.node) if isinstance(r, ast.Return) and r.value is not None]
            if rets:
                d2 = single_defs(sym.node)
                qs = [qualities(repo, sym, r.value, d2, depth + 1) for r in rets]
                out = qs[0]
                for q in qs[1:]:
                    out &= q
                return out
        return set()
    if isinstance(e, ast.BinOp) and isinstance(e.op, ast.Add):
        # list + [inf]: keeps sorted/unique (inf is larger than any finite boundary, trusted)
        right = e.right
        if isinstance(right, ast.List) and len(right.elts) == 1:
            sym = repo.resolve_expr(fi.module, right.elts[0]) if isinstance(right.elts[0], (ast.Name, ast.Attribute)) else None
            if isinstance(sym, External) and sym.dotted in ("numpy.inf", "math.inf"):
                return qualities(repo, fi, e.left, defs, depth + 1) | {"ends-with-inf"}
        return set()
    return set()


def check_boundaries(ctx, rule: str):
    repo = ctx.repo
    fi = repo.find_function(f"{F_QUAN}::fit_feature")
    defs = single_defs(fi.node)
    gl = [c for c in calls(fi, "GroupedList")]
    if len(gl) != 1 or not gl[0].args:
        raise AnalysisError("quantitative fit_feature: GroupedList(...) construction not found")
    q = qualities(repo, fi, gl[0].args[0], defs)
    for need, why in (
        ("sorted", "boundaries are not provably increasing: interval lookup `x <= boundary, first match wins` is no longer a step function"),
        ("unique", "the same boundary can occur twice: duplicated leader, an empty interval `a < x <= a` and a non-injective label table"),
        ("ends-with-inf", "no +inf boundary: values above the training maximum match no interval"),
    ):
        ctx.ob(rule, construct(fi, f"quantile boundaries are {need}"), need in q, loc(fi, gl[0]), "" if need in q else why)
    # the values the quantiles are taken from exclude missing values
    fq = repo.find_function(f"{F_QUAN}::find_quantiles")
    c = [x for x in calls(fq, "np_find_quantiles")]
    ok = bool(c) and c[0].args and "~isnan(df_feature)" in unparse(c[0].args[0]).replace(" ", "")
    ok = ok and unparse(kwarg(c[0], "len_df") or (c[0].args[2] if len(c[0].args) > 2 else ast.Constant(None))) == "len(df_feature)"
    ctx.ob(rule, construct(fq, "quantiles are searched on the non-missing values, frequencies relative to all rows"), ok, loc(fq))


# ---------------------------------------------------------------------------------------------
# thresholds (comparison normaliser + frozen table)
# ---------------------------------------------------------------------------------------------


def check_thresholds(ctx, rule: str):
    repo = ctx.repo
    # categorical: value -> default group iff freq < min_freq and not the missing value
    fi = repo.find_function(f"{F_QUAL}::CategoricalDiscretizer.fit")
    comps = [n for n in ast.walk(fi.node) if isinstance(n, ast.ListComp) and any("min_freq" in unparse(c) for g in n.generators for c in g.ifs)]
    ok = False
    got = None
    if len(comps) == 1:
        g = comps[0].generators[0]
        got = sorted(str(cmp_canon(c)) for cond in g.ifs for c in conjuncts(cond))
        tgt = g.target
        if isinstance(tgt, ast.Tuple) and len(tgt.elts) == 2:
            v, f = [unparse(x) for x in tgt.elts]
            want = sorted([str((f, "<", "self.min_freq")), str(tuple(sorted([v, "self.str_nan"])[:1]) + ("!=",) + tuple(sorted([v, "self.str_nan"])[1:]))])
            ok = got == want and unparse(comps[0].elt) == v and "frequencies[feature].items()" in unparse(g.iter)
    ctx.ob(rule, construct(fi, "categorical value goes to the default group iff frequency < min_freq and it is not the missing value"), ok, loc(fi), "" if ok else f"filter: {got}")
    fr = [n for n in walk_no_nested(fi.node) if isinstance(n, ast.Assign) and unparse(n.targets[0]) == "frequencies"]
    ok = len(fr) == 1 and "value_counts" in unparse(fr[0].value) and const_value(kwarg(fr[0].value, "normalize")) is True
    ctx.ob(rule, construct(fi, "categorical frequencies are normalised counts (NaN included as str_nan)"), ok, loc(fi))
    # ordinal merging loop
    fm = repo.find_function(f"{F_QUAL}::find_common_modalities")
    wl = [n for n in walk_no_nested(fm.node) if isinstance(n, ast.While)]
    ok = False
    cs = set()
    if len(wl) == 1:
        cs = _canon_set(wl[0].test)
        ok = ("stats[0, :] / len_df", "<", "min_freq") in cs and ("1", "<", "stats.shape[1]") in cs
        ok = ok and isinstance(wl[0].test, (ast.BinOp, ast.BoolOp))
        op_ok = (isinstance(wl[0].test, ast.BinOp) and isinstance(wl[0].test.op, ast.BitAnd)) or (isinstance(wl[0].test, ast.BoolOp) and isinstance(wl[0].test.op, ast.And))
        ok = ok and op_ok and any(isinstance(c, ast.Call) and call_name(c) == "any" for c in ast.walk(wl[0].test))
    ctx.ob(rule, construct(fm, "ordinal buckets are merged while any holds < min_freq of all rows and more than one bucket is left"), ok, loc(fm), "" if ok else f"loop test comparisons: {sorted(cs)}")
    defs = single_defs(fm.node)
    ok = unparse(defs.get("len_df", ast.Constant(None))) == "len(df_feature)"
    am = [c for c in calls(fm, "argmin")]
    ok = ok and len(am) == 1 and unparse(am[0].args[0]) == "stats[0, :]"
    ctx.ob(rule, construct(fm, "shares are relative to all rows; the least frequent bucket is merged first"), ok, loc(fm))
    # over-represented values
    fn_ = repo.find_function(f"{F_QUAN}::np_find_quantiles")
    cs = _canon_set(fn_.node)
    ifs = [n for n in walk_no_nested(fn_.node) if isinstance(n, ast.If) and "frequencies" in unparse(n.test)]
    guard = _canon_set(ifs[0].test) if ifs else set()
    masks = [n for n in ast.walk(fn_.node) if isinstance(n, ast.Subscript) and unparse(n.value) == "values" and isinstance(n.slice, ast.Compare)]
    mask = _canon_set(masks[0].slice) if masks else set()
    want = {("len_df / q", "<=", "frequencies")}
    ok = guard == want and mask == want
    ctx.ob(rule, construct(fn_, "a value is over-represented iff count >= len_df / q (guard and mask agree)"), ok, loc(fn_), "" if ok else f"guard {sorted(guard)} mask {sorted(mask)}")
    # rare quantile buckets
    fq = repo.find_function(f"{F_DISC}::QuantitativeDiscretizer.fit")
    defs = single_defs(fq.node)
    ok = unparse(defs.get("q_min_freq", ast.Constant(None))).replace(" ", "") in ("self.min_freq/2", "self.min_freq*0.5", "0.5*self.min_freq")
    hr = defs.get("has_rare")
    cs = _canon_set(hr) if hr is not None else set()
    ok = ok and ("frequencies", "<=", "q_min_freq") in cs
    od = [c for c in calls(fq, "OrdinalDiscretizer")]
    ok = ok and len(od) == 1 and unparse(kwarg(od[0], "min_freq")) == "q_min_freq" and unparse(kwarg(od[0], "ordinal_features")) == "has_rare"
    ctx.ob(rule, construct(fq, "quantile buckets with frequency <= min_freq / 2 are merged by an OrdinalDiscretizer with that same threshold"), ok, loc(fq), "" if ok else f"comparisons {sorted(cs)}")
    fr = defs.get("frequencies")
    ok = fr is not None and "min_value_counts" in unparse(fr) and "continuous_discretizer.values_orders" in unparse(fr) and "continuous_discretizer.labels_per_values" in unparse(fr)
    ctx.ob(rule, construct(fq, "bucket frequencies are measured on the fitted quantile labels"), ok, loc(fq))
    fmv = repo.find_function(f"{F_DISC}::min_value_counts")
    dflt = {k: const_value(v) for k, v in fmv.param_defaults().items()}
    vc = [c for c in calls(fmv, "value_counts")]
    ok = len(vc) == 1 and unparse(vc[0].func.value) == fmv.params[0] and dflt.get("dropna") is False and dflt.get("normalize") is True \
        and unparse(kwarg(vc[0], "dropna")) == "dropna" and unparse(kwarg(vc[0], "normalize")) == "normalize"
    mdefs = single_defs(fmv.node)
    ol = mdefs.get("order_labels")
    ok = ok and isinstance(ol, ast.ListComp) and not ol.generators[0].ifs and unparse(ol.generators[0].iter) == "order"
    ok = ok and any(isinstance(c, ast.Call) and call_name(c) == "fillna" and unparse(c.args[0]) == "0" and "reindex(order_labels)" in unparse(c) for c in ast.walk(fmv.node))
    rets = [r for r in walk_no_nested(fmv.node) if isinstance(r, ast.Return)]
    ok = ok and len(rets) == 1 and "min()" in unparse(rets[0].value)
    ctx.ob(rule, construct(fmv, "bucket frequency = share of ALL rows (missing included), every fitted bucket counted (0 when empty), minimum returned"), ok, loc(fmv),
           "" if ok else "shares computed over a subset of the rows or of the buckets: a bucket below min_freq / 2 of the rows is never handed to the merge")
    # number of quantiles
    fc = repo.find_function(f"{F_QUAN}::ContinuousDiscretizer.__init__")
    ok = any(isinstance(n, ast.Assign) and unparse(n.targets[0]) == "self.q" and unparse(n.value).replace(" ", "") == "round(1/min_freq)" for n in walk_no_nested(fc.node))
    ctx.ob(rule, construct(fc, "number of quantiles q = round(1 / min_freq)"), ok, loc(fc))
    defs = single_defs(fn_.node)
    ok = unparse(defs.get("new_q", ast.Constant(None))).replace(" ", "") == "round(len(df_feature)/len_df*q)"
    cs = _canon_set(fn_.node)
    ok = ok and ("1", "<", "new_q") in cs
    ctx.ob(rule, construct(fn_, "remaining mass is cut in round(share * q) quantiles (one bucket when that is <= 1)"), ok, loc(fn_))
    # degenerate features
    fp = repo.find_function(f"{F_DISC}::QualitativeDiscretizer._prepare_data")
    cs = _canon_set(fp.node)
    ok = ("max_frequencies[feature]", "<", "self.min_freq") in cs
    ctx.ob(rule, construct(fp, "a feature is dropped iff its most frequent value is rarer than min_freq"), ok, loc(fp))


def check_order_statistic(ctx, rule: str):
    repo = ctx.repo
    fn_ = repo.find_function(f"{F_QUAN}::np_find_quantiles")
    qs = [c for c in calls(fn_, "quantile")]
    ok = bool(qs)
    for c in qs:
        m = kwarg(c, "method") or kwarg(c, "interpolation")
        ok = ok and m is not None and const_value(m) in ("lower", "higher", "nearest")
    ctx.ob(rule, construct(fn_, "quantiles are order statistics (method lower/higher/nearest): boundaries are observed values"), ok, loc(fn_, qs[0] if qs else None),
           "" if ok else "interpolated quantiles are not observed values and do not commute with monotone re-encodings")
    ls = [c for c in calls(fn_, "linspace")]
    ok = len(ls) == 1 and [unparse(a).replace(" ", "") for a in ls[0].args] == ["0", "1", "new_q+1"]
    par = cfg_of(ctx, fn_).parent(ls[0]) if ls else None
    ok = ok and isinstance(par, ast.Subscript) and unparse(par.slice).replace(" ", "") == "1:-1"
    ctx.ob(rule, construct(fn_, "inner cut points only: linspace(0, 1, new_q + 1)[1:-1]"), ok, loc(fn_))
    # fallback bucket closes at the observed maximum
    ok = any(isinstance(n, ast.AugAssign) and unparse(n.value).replace(" ", "") == "[max(df_feature)]" for n in walk_no_nested(fn_.node))
    ctx.ob(rule, construct(fn_, "a single remaining bucket is closed by the observed maximum"), ok, loc(fn_))
    # the quantile search sees every row of the column: no sub-sampling, no randomness, nothing that
    # depends on the interpreter (hash of a str is salted per process)
    ff = repo.find_function(f"{F_QUAN}::fit_feature")
    fq = [c for c in calls(ff, "find_quantiles")]
    sd = single_defs(ff.node)
    okc = False
    src = "?"
    if len(fq) == 1 and fq[0].args:
        src = unparse(inline(ff.node, fq[0].args[0], defs=sd)).replace(" ", "")
        okc = src in ("X[feature].values", "X[feature].to_numpy()", "array(X[feature])", "X[feature].array")
    nondet = [c for f_ in (ff, fn_, repo.find_function(f"{F_QUAN}::find_quantiles")) for c in ast.walk(f_.node)
              if isinstance(c, ast.Call) and call_name(c) in ("hash", "sample", "choice", "shuffle", "permutation", "default_rng", "RandomState", "seed", "random", "time", "getrandbits", "uuid4")]
    ctx.ob(rule, construct(ff, "the quantile search is given the whole column, deterministically"), okc and not nondet, loc(ff, fq[0] if fq else None),
           "" if (okc and not nondet) else (f"find_quantiles receives `{src}`" if not okc else f"`{unparse(nondet[0])[:60]}`: the boundaries depend on something else than the multiset of values") + ": sub-sampling / process-dependent input makes the fit depend on the row order, the number of rows or the interpreter")


def check_nan_separate(ctx, rule: str):
    repo = ctx.repo
    fm = repo.find_function(f"{F_QUAL}::find_common_modalities")
    defs = single_defs(fm.node)
    nn = defs.get("not_nans")
    ok = nn is not None and unparse(nn).replace(" ", "") in ("~isna(df_feature)", "notna(df_feature)", "~df_feature.isna()", "df_feature.notna()")
    st = next((n.value for n in walk_no_nested(fm.node) if isinstance(n, ast.Assign) and unparse(n.targets[0]) == "stats" and isinstance(n.value, ast.Call) and call_name(n.value) in ("vstack", "array", "stack")), None)
    uses = [n for n in ast.walk(st) if isinstance(n, ast.Name) and n.id in ("df_feature", "y")] if st is not None else []
    par = {}
    if st is not None:
        for n in ast.walk(st):
            for ch in ast.iter_child_nodes(n):
                par[id(ch)] = n
    masked = all(isinstance(par.get(id(u)), ast.Subscript) and unparse(par[id(u)].slice) == "not_nans" for u in uses)
    ctx.ob(rule, construct(fm, "missing values are excluded from the ordinal merge statistics"), bool(ok and masked and uses), loc(fm))
    fo = repo.find_function(f"{F_QUAL}::OrdinalDiscretizer.fit")
    cl = [c for c in calls(fo, "convert_to_labels")]
    ok = len(cl) == 1 and const_value(kwarg(cl[0], "dropna")) is True
    ctx.ob(rule, construct(fo, "the order handed to the merge has no missing-value modality (dropna=True)"), ok, loc(fo))
    # NaN appended as its own modality by the three base discretizers
    for spec, recv in ((f"{F_QUAL}::CategoricalDiscretizer._prepare_data", "order"), (f"{F_QUAL}::OrdinalDiscretizer._prepare_data", "values"), (f"{F_QUAN}::fit_feature", "order")):
        fi = repo.find_function(spec)
        cfg = cfg_of(ctx, fi)
        aps = [c for c in calls(fi, "append") if "str_nan" in unparse(c.args[0])]
        ok = False
        for c in aps:
            conds = _flatten_conditions(cfg.path_conditions(c))
            ok = ok or any(pol and "isna()" in unparse(t) and isinstance(t, ast.Call) and call_name(t) == "any" for t, pol in conds)
        ctx.ob(rule, construct(fi, "missing values observed at fit become a modality of their own"), ok, loc(fi))


# ---------------------------------------------------------------------------------------------
# neighbour-only merges
# ---------------------------------------------------------------------------------------------


def check_neighbour_merge(ctx, rule: str):
    repo = ctx.repo
    fc = repo.find_function(f"{F_QUAL}::find_closest_modality")
    cfg = cfg_of(ctx, fc)
    idx = fc.params[0]
    # all values a returned name can take
    def values_of(name: str) -> List[Tuple[str, ast.AST]]:
        out = []
        for n in walk_no_nested(fc.node):
            if isinstance(n, ast.Assign):
                for t in n.targets:
                    if isinstance(t, ast.Name) and t.id == name:
                        out.append((unparse(n.value).replace(" ", ""), n))
                    elif isinstance(t, ast.Tuple) and isinstance(n.value, ast.Tuple) and len(t.elts) == len(n.value.elts):
                        for a, b in zip(t.elts, n.value.elts):
                            if isinstance(a, ast.Name) and a.id == name:
                                out.append((unparse(b).replace(" ", ""), n))
        return out
    _direct = values_of

    def values_of(name: str, seen=()) -> List[Tuple[str, ast.AST]]:  # noqa: F811  (transitive closure over plain copies)
        out = []
        for txt, node in _direct(name):
            if txt.isidentifier() and txt != idx and txt not in seen and _direct(txt):
                out += values_of(txt, seen + (name,))
            else:
                out.append((txt, node))
        return out

    allowed = {f"{idx}-1", f"{idx}+1"}
    bad = []
    rets = [r for r in walk_no_nested(fc.node) if isinstance(r, ast.Return) and r.value is not None]
    for r in rets:
        cands = [(unparse(r.value).replace(" ", ""), r)] if not isinstance(r.value, ast.Name) else values_of(r.value.id)
        if isinstance(r.value, ast.Name) and not cands:
            bad.append((unparse(r.value), r))
        for txt, node in cands:
            if txt in allowed:
                continue
            if txt == "1":
                conds = _flatten_conditions(cfg.path_conditions(r))
                if any(pol and cmp_canon(t) in (("0", "==", idx), (idx, "==", "0")) for t, pol in conds):
                    continue
            bad.append((txt, node))
    ctx.ob(rule, construct(fc, "the merge partner is always the previous or the next bucket"), not bad and bool(rets), loc(fc, bad[0][1] if bad else None),
           "" if not bad else f"may return `{bad[0][0]}`: a bucket could be merged with a non-adjacent one, breaking contiguity")
    cs = _canon_set(fc.node)
    ok = ("frequencies.shape[0] - 1", "==", idx) in cs or (idx, "==", "frequencies.shape[0] - 1") in cs or ("len(frequencies) - 1", "==", idx) in cs
    # the last bucket cannot return idx + 1
    last_ret = [r for r in rets if any(pol and "shape[0] - 1" in unparse(t) for t, pol in _flatten_conditions(cfg.path_conditions(r)))]
    ok = ok and bool(last_ret) and all(unparse(r.value).replace(" ", "") == f"{idx}-1" for r in last_ret)
    ctx.ob(rule, construct(fc, "the first bucket merges right, the last bucket merges left"), ok, loc(fc))
    fm = repo.find_function(f"{F_QUAL}::find_common_modalities")
    defs = {}
    for n in ast.walk(fm.node):
        if isinstance(n, ast.Assign) and len(n.targets) == 1 and isinstance(n.targets[0], ast.Name):
            defs[n.targets[0].id] = n.value
    k = defs.get("kept_idx")
    ok = isinstance(k, ast.Call) and call_name(k) == "find_closest_modality" and unparse(k.args[0]) == "discarded_idx"
    grp = [c for c in calls(fm, "group")]
    ok = ok and len(grp) == 1 and [unparse(a) for a in grp[0].args] == ["order[discarded_idx]", "order[kept_idx]"]
    ctx.ob(rule, construct(fm, "order.group(order[discarded], order[its neighbour])"), ok, loc(fm))
    upd = [n for n in walk_no_nested(fm.node) if isinstance(n, ast.AugAssign) and unparse(n.target).replace(" ", "") == "stats[:,kept_idx]" and unparse(n.value).replace(" ", "") == "stats[:,discarded_idx]"]
    rem = [n for n in walk_no_nested(fm.node) if isinstance(n, ast.Assign) and unparse(n.targets[0]) == "stats" and any(isinstance(c, ast.Compare) and cmp_canon(c) is not None and cmp_canon(c)[1] == "!=" and "discarded_idx" in (cmp_canon(c)[0], cmp_canon(c)[2]) and "arange(stats.shape[1])" in (cmp_canon(c)[0] + cmp_canon(c)[2]) for c in ast.walk(n.value))]
    ctx.ob(rule, construct(fm, "the neighbour absorbs the counts and exactly the discarded column is removed"), len(upd) == 1 and len(rem) == 1, loc(fm))


def check_leader_is_max(ctx, rule: str):
    repo = ctx.repo
    fi = repo.find_function(f"{F_BASE}::convert_to_values")
    cfg = cfg_of(ctx, fi)
    gl = [c for c in calls(fi, "group_list")]
    ok = len(gl) == 1 and [unparse(a) for a in gl[0].args] == ["group_to_discard", "kept_value"]
    mx = [n for n in walk_no_nested(fi.node) if isinstance(n, ast.Assign) and unparse(n.targets[0]) == "kept_value" and isinstance(n.value, ast.Call) and call_name(n.value) == "max"]
    ok = ok and len(mx) == 1 and unparse(mx[0].value.args[0]) == "which_to_keep"
    if ok:
        conds = _flatten_conditions(cfg.path_conditions(mx[0]))
        ok = any(pol and "feature in quantitative_features" == unparse(t) for t, pol in conds)
    wk = [n for n in walk_no_nested(fi.node) if isinstance(n, ast.Assign) and unparse(n.targets[0]) == "which_to_keep"]
    ok = ok and len(wk) == 1 and isinstance(wk[0].value, ast.ListComp) and [cmp_canon(c) for c in wk[0].value.generators[0].ifs] in ([("str_nan", "!=", "value")], [("value", "!=", "str_nan")]) and unparse(wk[0].value.generators[0].iter) == "group_to_discard"
    ctx.ob(rule, construct(fi, "the leader of merged quantiles is the largest non-missing boundary of the group"), ok, loc(fi, mx[0] if mx else None),
           "" if ok else "with another leader the interval `x <= leader` no longer covers the merged buckets")


def check_categorical_order(ctx, rule: str):
    repo = ctx.repo
    fi = repo.find_function(f"{F_QUAL}::CategoricalDiscretizer.fit")
    tr = [n for n in walk_no_nested(fi.node) if isinstance(n, ast.Assign) and unparse(n.targets[0]) == "target_rates"]
    ok = len(tr) == 1 and "target_rate" in unparse(tr[0].value) and const_value(kwarg(tr[0].value, "ascending")) is True and unparse(kwarg(tr[0].value, "y")) == "y"
    ctx.ob(rule, construct(fi, "categorical modalities are ordered by increasing training target rate"), ok, loc(fi))
    # the rate of the default group is the rate of its pooled rows: rare values are rewritten to
    # str_default in the frame before the rates are computed from that frame
    cfg0 = cfg_of(ctx, fi)
    rewrites = [n for n in walk_no_nested(fi.node) if isinstance(n, ast.Assign) and isinstance(n.targets[0], ast.Subscript) and ".loc" in unparse(n.targets[0].value)
                and "isin(values_to_group)" in unparse(n.targets[0]).replace(" ", "") and unparse(n.value) == "self.str_default"]
    okp = len(tr) == 1 and len(rewrites) == 1 and rewrites[0].lineno < tr[0].lineno and unparse(rewrites[0].targets[0].value).split(".loc")[0] in unparse(tr[0].value)
    ctx.ob(rule, construct(fi, "the default group is ranked by the pooled target rate of its rows (rare values rewritten in the frame the rates are computed from)"), okp, loc(fi, rewrites[0] if rewrites else None),
           "" if okp else "rates of the rare values are combined in another way (e.g. a mean of their means): the default group can be placed between the wrong neighbours")
    sb = [c for c in calls(fi, "sort_by")]
    ok = len(sb) == 1 and unparse(sb[0].args[0]) == "new_order"
    par = cfg_of(ctx, fi).parent(sb[0]) if sb else None
    stored = False
    cur = sb[0] if sb else None
    cfg = cfg_of(ctx, fi)
    while cur is not None and not isinstance(cur, ast.stmt):
        cur = cfg.parent(cur)
    stored = cur is not None and "self.values_orders.update" in unparse(cur)
    ctx.ob(rule, construct(fi, "the target-rate order is applied with sort_by and stored"), ok and stored, loc(fi))
    nan_last = any(isinstance(n, ast.If) and cmp_canon(n.test) == ("self.str_nan", "in", "new_order")
                   and [unparse(s).replace(" ", "") for s in n.body] == ["new_order.remove(self.str_nan)", "new_order+=[self.str_nan]"] for n in walk_no_nested(fi.node))
    ctx.ob(rule, construct(fi, "the missing-value modality is moved to the end of the order"), nan_last, loc(fi))
    ft = repo.find_function(f"{F_BASE}::target_rate")
    txt = unparse(ft.node)
    ok = "y.groupby(x, dropna=dropna).mean().sort_values(ascending=ascending)" in txt
    ctx.ob(rule, construct(ft, "target_rate = mean of y per modality, sorted"), ok, loc(ft))


# ---------------------------------------------------------------------------------------------
# R-order-only / R-aligned-pairs (C11)
# ---------------------------------------------------------------------------------------------

ORDER_SAFE_CALLS = {
    "unique", "digitize", "in1d", "isin", "max", "min", "sort", "sorted", "quantile", "isnan", "isna", "isnull", "notna", "len", "list",
    "array", "select", "GroupedList", "np_find_quantiles", "find_quantiles", "any", "all", "searchsorted", "argsort", "nan_unique",
    "get_group", "contains", "get", "is_equal", "isfinite", "format_quantiles", "get_labels", "zip", "enumerate", "tuple", "asarray", "group",
    "append", "fit_feature", "nanmax", "nanmin", "argmax", "argmin", "isinstance", "str", "repr", "print", "get_quantiles_labels", "range", "linspace",
}
ARITH_FUNCS = {"mean", "sum", "std", "var", "round", "around", "isclose", "average", "median", "cumsum", "diff", "log", "exp", "abs", "floor", "ceil", "nanmean", "astype", "int", "float", "percentile", "interp", "histogram", "cut", "qcut"}


def check_order_only(ctx, rule: str):
    repo = ctx.repo
    scope = [
        (f"{F_QUAN}::np_find_quantiles", {"df_feature"}),
        (f"{F_QUAN}::find_quantiles", {"df_feature"}),
        (f"{F_QUAN}::fit_feature", {"X"}),
        (f"{F_BASE}::transform_quantitative_feature", {"df_feature"}),
    ]
    for spec, seeds in scope:
        fi = repo.find_function(spec)
        # counts are not values: second target of unique(..., return_counts=True), len(...), .shape
        counts = set()
        for n in walk_no_nested(fi.node):
            if isinstance(n, ast.Assign) and isinstance(n.targets[0], ast.Tuple) and isinstance(n.value, ast.Call) and call_name(n.value) == "unique" and kwarg(n.value, "return_counts") is not None:
                els = n.targets[0].elts
                if len(els) == 2 and isinstance(els[1], ast.Name):
                    counts.add(els[1].id)

        def sanit(n):
            if isinstance(n, ast.Call) and call_name(n) in ("len",):
                return True
            if isinstance(n, ast.Attribute) and n.attr in ("shape", "size", "name"):
                return True
            if isinstance(n, ast.Name) and n.id in counts:
                return True
            if isinstance(n, ast.Compare):
                return True  # a comparison of data yields order information only
            return False

        tainted = tainted_names(fi.node, lambda n: False, sanitizer=sanit, seeds=set(seeds)) - counts
        bad = []
        for n in walk_no_nested(fi.node):
            if isinstance(n, ast.BinOp) and isinstance(n.op, (ast.Add, ast.Sub, ast.Mult, ast.Div, ast.FloorDiv, ast.Mod, ast.Pow)):
                # list concatenation of boundary lists is fine: only flag when an operand is a tainted *array/scalar* expression
                for side in (n.left, n.right):
                    if isinstance(side, (ast.List, ast.ListComp)):
                        break
                else:
                    l_t = expr_tainted(n.left, tainted, lambda x: False, sanit)
                    r_t = expr_tainted(n.right, tainted, lambda x: False, sanit)
                    if (l_t or r_t) and not _is_list_concat(n, tainted):
                        bad.append(n)
            elif isinstance(n, ast.Call) and call_name(n) in ARITH_FUNCS:
                args = list(n.args) + [k.value for k in n.keywords]
                recv = n.func.value if isinstance(n.func, ast.Attribute) else None
                if any(expr_tainted(a, tainted, lambda x: False, sanit) for a in args) or (recv is not None and expr_tainted(recv, tainted, lambda x: False, sanit)):
                    bad.append(n)
            elif isinstance(n, ast.Call) and call_name(n) == "quantile":
                m = kwarg(n, "method") or kwarg(n, "interpolation")
                if m is None or const_value(m) not in ("lower", "higher", "nearest"):
                    bad.append(n)
        for b in bad[:3]:
            ctx.ob(rule, construct(fi, f"raw feature values enter `{short(b, 70)}`"), False, loc(fi, b),
                   "arithmetic / averaging / rounding on raw values does not commute with increasing re-encodings (x -> a*x+b): the partition would change")
        if not bad:
            ctx.ob(rule, construct(fi, "raw feature values are only compared, counted, sorted or selected"), True, loc(fi))


def _is_list_concat(n: ast.BinOp, tainted) -> bool:
    """quantiles + list(frequent_values) / quantiles += ... are list concatenations."""
    if not isinstance(n.op, ast.Add):
        return False
    def listy(e):
        return isinstance(e, (ast.List, ast.ListComp)) or (isinstance(e, ast.Call) and call_name(e) in ("list", "np_find_quantiles", "find_quantiles")) or (isinstance(e, ast.Name) and e.id in ("quantiles", "formatted_list", "upper_bounds", "lower_bounds"))
    return listy(n.left) and listy(n.right)


def check_aligned_pairs(ctx, rule: str):
    repo = ctx.repo
    scope = [f"{F_BASE}::target_rate", f"{F_QUAL}::find_common_modalities", "BinaryCarver._aggregator", "ContinuousCarver._aggregator"]
    for spec in scope:
        fi = repo.find_function(spec)
        pair_calls = [c for c in ast.walk(fi.node) if isinstance(c, ast.Call) and call_name(c) in ("groupby", "crosstab")]
        bad = []
        for c in pair_calls:
            operands = list(c.args) + [k.value for k in c.keywords]
            if isinstance(c.func, ast.Attribute):
                operands.append(c.func.value)
            for o in operands:
                for n in ast.walk(o):
                    if isinstance(n, ast.Attribute) and n.attr in ("values", "array") or (isinstance(n, ast.Call) and call_name(n) in ("to_numpy", "tolist", "to_list", "list", "array", "reset_index")):
                        bad.append(n)
        # the pairing itself is one pandas call that receives both the target and the feature (the
        # target grouped by the feature, or their cross table): row positions collected on one side
        # (`groupby(..).indices`) and used to index the other pair rows by position
        target = "y"
        paired = []
        for c in pair_calls:
            names = {n.id for o in (list(c.args) + [k.value for k in c.keywords] + ([c.func.value] if isinstance(c.func, ast.Attribute) else [])) for n in ast.walk(o) if isinstance(n, ast.Name)}
            if target in names and names - {target}:
                paired.append(c)
        positional = [n for n in ast.walk(fi.node) if isinstance(n, ast.Attribute) and n.attr == "indices"]
        ok = bool(pair_calls) and not bad and bool(paired) and not positional
        why = ""
        if not ok:
            if not pair_calls:
                why = "no groupby/crosstab pairing found"
            elif bad:
                why = f"`{short(bad[0])}` drops the index: rows are paired by position, which breaks for permuted / relabelled indices"
            elif positional:
                why = f"`{short(positional[0])}` are row positions: indexing the target with them pairs rows by position (or by label on an integer index)"
            else:
                why = "no groupby / crosstab call receives both the target and the feature: they are paired outside pandas' index alignment"
        ctx.ob(rule, construct(fi, "feature and target are paired through index-aligned pandas operations"), ok, loc(fi, (bad or positional or [None])[0]), why)


def check_row_order_free(ctx, rule: str):
    """The order of categorical modalities must be a function of (modality, target rate) only: a
    first-appearance order (groupby(sort=False), unique, drop_duplicates, dict.fromkeys on the rows)
    that survives into the ranking makes ties depend on the order of the rows."""
    repo = ctx.repo
    ft = repo.find_function(f"{F_BASE}::target_rate")
    gb = [c for c in calls(ft, "groupby")]
    ok = bool(gb)
    for c in gb:
        sv = kwarg(c, "sort")
        if sv is not None and const_value(sv) is not True:
            ok = False
    first_seen = [c for c in ast.walk(ft.node) if isinstance(c, ast.Call) and call_name(c) in ("unique", "drop_duplicates", "fromkeys", "factorize")]
    ok = ok and not first_seen
    sv = [c for c in calls(ft, "sort_values")]
    ok = ok and len(sv) == 1
    ctx.ob(rule, construct(ft, "ties between equal target rates are broken by the modality itself, not by row order"), ok, loc(ft, gb[0] if gb else None),
           "" if ok else "groupby(sort=False) / first-appearance de-duplication feeds a stable sort: modalities with equal target rates are ordered by where they first appear, so permuting the rows changes the order (and the carved groups)")
    fi = repo.find_function(f"{F_QUAL}::CategoricalDiscretizer.fit")
    defs = {}
    for n in walk_no_nested(fi.node):
        if isinstance(n, ast.Assign) and isinstance(n.targets[0], ast.Name):
            defs.setdefault(n.targets[0].id, n.value)
    no = defs.get("new_order")
    ok = no is not None and unparse(no) == "list(target_rates[feature])"
    ctx.ob(rule, construct(fi, "the categorical order is exactly the order of the target-rate table"), ok, loc(fi, no))


def check_select_nonempty(ctx, rule: str, select_fn=lambda fi: True):
    """numpy.select raises ValueError on an empty condition list: a call whose condition list is
    built by a comprehension (possibly empty) must be under a non-emptiness test of that list or of
    the list it is built from."""
    repo = ctx.repo
    n = 0
    for fi in repo.all_functions():
        if "/selectors/" in fi.module.relpath or not select_fn(fi):
            continue
        cfg = None
        for c in walk_no_nested(fi.node):
            if not (isinstance(c, ast.Call) and isinstance(c.func, ast.Name) and c.func.id == "select" and c.args):
                continue
            sym = repo.resolve_name(fi.module, "select")
            if not (isinstance(sym, External) and sym.dotted.startswith("numpy")):
                continue
            n += 1
            cfg = cfg or cfg_of(ctx, fi)
            names = set()
            a0 = c.args[0]
            defs = single_defs(fi.node)
            if isinstance(a0, ast.Name):
                names.add(a0.id)
                d = defs.get(a0.id)
                if d is None:
                    from .carver import dominating_def
                    d = dominating_def(cfg, fi.node, a0.id, c)
                if isinstance(d, (ast.ListComp, ast.GeneratorExp)) and not d.generators[0].ifs and isinstance(d.generators[0].iter, ast.Name):
                    names.add(d.generators[0].iter.id)  # same length as its source list
            guarded = False
            for t, pol in _flatten_conditions(cfg.path_conditions(c)):
                cc = cmp_canon(t)
                if pol and cc and cc[0] == "0" and cc[1] == "<" and any(cc[2] == f"len({nm})" for nm in names):
                    guarded = True
                if pol and cc and cc[1] == "!=" and "0" in (cc[0], cc[2]) and any(f"len({nm})" in (cc[0], cc[2]) for nm in names):
                    guarded = True
                if pol and isinstance(t, ast.Name) and t.id in names:
                    guarded = True
                # reached only when `len(L) == 0` / `len(L) < 1` is false (an early continue / return)
                if not pol and cc and cc[1] == "==" and "0" in (cc[0], cc[2]) and any(f"len({nm})" in (cc[0], cc[2]) for nm in names):
                    guarded = True
                if not pol and cc and cc[1] == "<" and cc[2] == "1" and any(cc[0] == f"len({nm})" for nm in names):
                    guarded = True
            ctx.ob(rule, construct(fi, f"select({short(a0, 30)}, ...) runs only when the condition list is not empty"), guarded, loc(fi, c),
                   "" if guarded else "numpy.select raises ValueError (not AssertionError) on an empty condition list, e.g. when nothing has to be grouped")
    return n


SENTINEL_EXCEPTIONS = {
    ("QualitativeDiscretizer._prepare_data", "StringDiscretizer", "str_nan"):
        "the converter only records string forms; with a custom sentinel a stray '__NAN__' leader is never observed afterwards and is merged like any unobserved modality (checked with custom sentinels during the build; no property clause breaks)",
    ("ChainedDiscretizer._prepare_data", "StringDiscretizer", "str_nan"): "same as QualitativeDiscretizer._prepare_data",
    ("MulticlassCarver.fit", "BinaryCarver", "str_nan"): "forwarded through **self.kwargs (checked by C12 R-forward-all)",
    ("MulticlassCarver.fit", "BinaryCarver", "str_default"): "forwarded through **self.kwargs (checked by C12 R-forward-all)",
}


def check_forward_sentinels(ctx, rule: str):
    """Every discretizer built inside another discretizer / carver must be given the outer object's
    str_nan / str_default whenever its constructor takes them: fit-time code writes the sentinel of the
    inner object, transform-time code of the outer object looks for its own."""
    repo = ctx.repo
    classes = {c.name: c for c in repo.subclasses("BaseDiscretizer")}

    def accepts(cls, name: str) -> bool:
        init = repo.lookup_method(cls, "__init__")
        if init is None:
            return False
        if name in init.params:
            return True
        return any(isinstance(c, ast.Call) and call_name(c) == "get" and c.args and const_value(c.args[0]) == name and "kwargs" in unparse(c.func.value) for c in ast.walk(init.node))

    n = 0
    for fi in repo.all_functions():
        if fi.cls is None or fi.cls.name not in classes:
            continue
        for c in walk_no_nested(fi.node):
            if not (isinstance(c, ast.Call) and isinstance(c.func, ast.Name) and c.func.id in classes):
                continue
            inner = classes[c.func.id]
            for sent in ("str_nan", "str_default"):
                if not accepts(inner, sent) or not accepts(fi.cls, sent):
                    continue
                n += 1
                v = kwarg(c, sent)
                key = (fi.qualname, inner.name, sent)
                cons = construct(fi, f"{inner.name}(...) receives {sent}=self.{sent}")
                if v is not None and unparse(v) == f"self.{sent}":
                    ctx.ob(rule, cons, True, loc(fi, c))
                elif key in SENTINEL_EXCEPTIONS:
                    ctx.ob(rule, cons, True, loc(fi, c), "exception: " + SENTINEL_EXCEPTIONS[key])
                else:
                    ctx.ob(rule, cons, False, loc(fi, c),
                           f"the inner {inner.name} falls back to its default {sent}: with a custom {sent} the fitted orders use another sentinel than the one transform looks for")
    return n
