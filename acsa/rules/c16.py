"""C16 -- summary() and history() truthfully describe the fitted object."""
from __future__ import annotations

import ast

from ..core import AnalysisError, call_name, unparse, walk_no_nested
from ..exprs import cmp_canon, conjuncts, inline, single_defs
from ..selftest import B, M
from .common import F_BASE, F_BC, calls, cfg_of, construct, loc, short
from .grouped import _flatten_conditions

EXPLANATION = (
    "Decides: in R-summary-scope also: in the loop over the (value, label) pairs of the label table no test reads the label (a row skipped on its label hides every member of the default group when labels are strings); the update_discretizer rules of C17 (R-edit-semantics, R-labels-refreshed, R-mode-first: summary() describes what transform does after an edit); "
    "R-summary-scope (every loop of summary() that emits rows iterates the requested "
    "features or filters on membership in them, so summary(feature) holds rows of that feature only; "
    "the requested set is self.features or [feature], asserted to be a kept feature); "
    "R-single-table (summary takes labels from self.labels_per_values, the table transform uses, and "
    "raw labels from _get_labels_per_values only; missing values are listed according to "
    "features_dropna[feature], the per-feature flag transform uses and update_discretizer edits); R-history-complete (in _test_viability the "
    "historization call is executed on every iteration before the loop can break or continue, the raw "
    "distribution is historized before the search, and the 'not checked' tail is exactly "
    "associations_xagg[n_combination + 1:] of the accepted combination; the order applied and stored in "
    "values_orders is the accepted combination's); R-history-fields (each "
    "history record carries combination, the sort_by value, viability and message); R-measure-formula (the "
    "association stored with each combination is the documented formula, with n the total of the very table "
    "that was grouped); optional `feature` arguments are tested with `is None` (0 and '' are column labels)."
    " Also a stale-cache instance of R-single-table (a table read by summary()/history() that fit() computes must be recomputed by update_discretizer) and R-forward-sentinels (summary() hides str_default / str_nan by name: every inner discretizer must have been given the same ones)."
)
NOT_DECIDED = "agreement of summary contents with transform outputs on data"
FLOORS = {"R-summary-scope": 7, "R-measure-formula": 4, "R-single-table": 6, "R-forward-sentinels": 8, "R-history-complete": 6, "R-history-fields": 2, "R-readonly-queries": 30}


def _emits(node, sink="summaries"):
    for n in ast.walk(node):
        if isinstance(n, ast.AugAssign) and isinstance(n.target, ast.Name) and n.target.id == sink:
            yield n
        elif isinstance(n, ast.Call) and isinstance(n.func, ast.Attribute) and n.func.attr in ("append", "extend") and unparse(n.func.value) == sink:
            yield n


def rule_summary_scope(ctx):
    R = "R-summary-scope"
    fi = ctx.repo.find_function(f"{F_BASE}::BaseDiscretizer.summary")
    cfg = cfg_of(ctx, fi)
    # the row sink: the local list that is turned into the summary frame (DataFrame(<sink>))
    sink = "summaries"
    for c in ast.walk(fi.node):
        if isinstance(c, ast.Call) and call_name(c) == "DataFrame" and c.args and isinstance(c.args[0], ast.Name):
            sink = c.args[0].id
            break
    emits = list(_emits(fi.node, sink))
    if not emits:
        raise AnalysisError("summary(): row sink `summaries` not found")
    for e in emits:
        loops = [l for l in cfg.enclosing_loops(e) if isinstance(l, ast.For)]
        outer = loops[-1] if loops else None
        ok = False
        why = "row emitted outside any loop over features"
        if outer is not None:
            var = unparse(outer.target)
            if unparse(outer.iter) == "requested_features":
                ok = True
            else:
                conds = _flatten_conditions(cfg.path_conditions(e))
                ok = any(pol and cmp_canon(t) == (var, "in", "requested_features") for t, pol in conds)
                why = f"loop over `{unparse(outer.iter)}` emits rows without testing `{var} in requested_features`"
        ctx.ob(R, construct(fi, f"rows emitted in the loop over {unparse(outer.iter) if outer is not None else '?'} are restricted to the requested features"), ok, loc(fi, e), "" if ok else why)
    # the extra row for missing values merged into a group: str_nan is looked for among ALL values of
    # the feature (keys of the label table, values() / contains() of the order), never among the
    # leaders only (`str_nan in order`): a merged str_nan is no leader any more
    sdefs = single_defs(fi.node)
    nan_tests = []
    for n in walk_no_nested(fi.node):
        if isinstance(n, ast.If):
            for c in conjuncts(n.test):
                cc = cmp_canon(c)
                if cc and cc[0] == "self.str_nan" and cc[1] == "in" and isinstance(c, ast.Compare):
                    nan_tests.append((n, unparse(inline(fi.node, c.comparators[0], defs=sdefs)).replace(" ", "")))
                if isinstance(c, ast.Call) and call_name(c) == "contains" and "str_nan" in unparse(c):
                    nan_tests.append((n, "<contains>"))
    emitting = [(n, t) for n, t in nan_tests if any(True for _ in _emits(n, sink))]
    okn = bool(emitting) and all(
        t == "<contains>" or t.endswith(".values()") or "labels_per_values" in t or "_get_labels_per_values" in t for _, t in emitting)
    ctx.ob(R, construct(fi, "missing values merged into a group are still listed: str_nan is searched among all values of the feature"), okn, loc(fi, emitting[0][0] if emitting else None),
           "" if okn else f"the test is `self.str_nan in {[t for _, t in emitting]}`: membership in a GroupedList looks at the leaders only, so a str_nan that was merged into another group is not found and its row disappears from the summary")
    # requested_features is self.features, or [feature] for a kept feature
    assigns = [n for n in walk_no_nested(fi.node) if isinstance(n, ast.Assign) and unparse(n.targets[0]) == "requested_features"]
    vals = sorted(unparse(a.value) for a in assigns)
    ok = vals == ["[feature]", "self.features[:]"] or vals == ["[feature]", "list(self.features)"]
    guard = any(cmp_canon(c) == ("feature", "in", "self.features") for a in walk_no_nested(fi.node) if isinstance(a, ast.Assert) for c in conjuncts(a.test))
    ctx.ob(R, construct(fi, "requested features = all kept features, or the one kept feature asked for"), ok and guard, loc(fi),
           "" if (ok and guard) else f"assignments: {vals}, membership assertion: {guard}")


def rule_summary_rows_by_value(ctx, R="R-summary-scope"):
    """In the loop over the (value, label) pairs of the label table a row is skipped on a test of the
    *value* only (the kept-NaN sentinel, a raw number, the default sentinel itself): a test that reads
    the *label* removes every value that shares it -- the members of the default group are labelled
    str_default when output_dtype='str', so `str_default in (value, label)` hides all of them while
    transform still outputs that label."""
    fi = ctx.repo.find_function(f"{F_BASE}::BaseDiscretizer.summary")
    cfg = cfg_of(ctx, fi)
    sink = "summaries"
    for c in ast.walk(fi.node):
        if isinstance(c, ast.Call) and call_name(c) == "DataFrame" and c.args and isinstance(c.args[0], ast.Name):
            sink = c.args[0].id
            break
    n = 0
    for e in _emits(fi.node, sink):
        for l in cfg.enclosing_loops(e):
            if isinstance(l, ast.For) and isinstance(l.target, ast.Tuple) and len(l.target.elts) == 2 and isinstance(l.iter, ast.Call) and call_name(l.iter) == "items" and all(isinstance(x, ast.Name) for x in l.target.elts):
                label = l.target.elts[1].id
                # every test in the body of that loop decides whether / how a row is emitted (nested guard clauses included)
                tests = [x.test for x in ast.walk(l) if isinstance(x, (ast.If, ast.IfExp, ast.While))] + [i for x in ast.walk(l) if isinstance(x, ast.comprehension) for i in x.ifs]
                bad = [t for t in tests if any(isinstance(x, ast.Name) and x.id == label for x in ast.walk(t))]
                n += 1
                ctx.ob(R, construct(fi, "rows of the label table are skipped on tests of the value, never of its label"), not bad, loc(fi, bad[0] if bad else e),
                       "" if not bad else f"the row is emitted under a test that reads the label (`{unparse(bad[0])[:70]}`): every value carrying that label (the members of the default group when labels are strings) disappears from summary() although transform outputs it")
    if n == 0:
        raise AnalysisError("summary(): no row emitted in a loop over (value, label) pairs (anchor vanished)")


def rule_summary_number_filter(ctx, R="R-summary-scope"):
    """Raw numbers among the values of a qualitative feature are listed by their string form only: the
    filter covers numpy AND builtin numbers (a JSON round trip turns numpy.int64 into int)."""
    fi = ctx.repo.find_function(f"{F_BASE}::BaseDiscretizer.summary")
    tested = set()
    for c in ast.walk(fi.node):
        if isinstance(c, ast.Call) and call_name(c) == "isinstance" and len(c.args) == 2:
            t = c.args[1]
            for e in (t.elts if isinstance(t, ast.Tuple) else [t]):
                tested.add(unparse(e))
    need = {"floating", "float", "integer", "int"}
    ok = need <= tested
    ctx.ob(R, construct(fi, "raw numbers of qualitative features are skipped whatever their flavour (numpy or builtin)"), ok, loc(fi),
           "" if ok else f"isinstance tests cover {sorted(tested)}: missing {sorted(need - tested)} -- after a JSON round trip the values are builtin numbers and would be listed twice ([3, '3'])")


def rule_single_table(ctx):
    R = "R-single-table"
    fi = ctx.repo.find_function(f"{F_BASE}::BaseDiscretizer.summary")
    cfg = cfg_of(ctx, fi)
    # the (value, label) pairs listed come from self.labels_per_values[feature]
    loops = [n for n in walk_no_nested(fi.node) if isinstance(n, ast.For) and "labels_per_values[" in unparse(n.iter) and unparse(n.iter).endswith(".items()")]
    outer = [unparse(l.target) for l in cfg.enclosing_loops(loops[0]) if isinstance(l, ast.For)] if loops else []
    ok = len(loops) == 1 and any(unparse(loops[0].iter) == f"self.labels_per_values[{v}].items()" for v in outer)
    ctx.ob(R, construct(fi, "listed (value, label) pairs are self.labels_per_values[feature].items()"), ok, loc(fi, loops[0] if loops else None))
    srcs = {call_name(c) for c in ast.walk(fi.node) if isinstance(c, ast.Call) and "label" in call_name(c).lower()}
    other = {s for s in srcs if s not in ("_get_labels_per_values",)}
    lab = [n for n in ast.walk(fi.node) if isinstance(n, ast.Dict) and any(isinstance(k, ast.Constant) and k.value == "label" for k in n.keys)]
    ok2 = True
    for d in lab:
        for k, v in zip(d.keys, d.values):
            if isinstance(k, ast.Constant) and k.value == "label":
                t = unparse(inline(fi.node, v, defs=single_defs(fi.node)))
                # the label variable of the (value, label) loop, or a direct read of the fitted table
                lv = {unparse(l.target.elts[1]) for l in loops if isinstance(l.target, ast.Tuple) and len(l.target.elts) == 2}
                ok2 = ok2 and (t in lv or t == "label" or t.startswith("self.labels_per_values["))
    ctx.ob(R, construct(fi, "every 'label' cell is read from self.labels_per_values"), ok2 and not other and bool(lab), loc(fi),
           "" if (ok2 and not other) else f"other label sources: {sorted(other)}")


def rule_nan_flag_source(ctx):
    """summary and transform decide whether missing values are shown / kept with the same
    per-feature flag (features_dropna, which update_discretizer edits), not with the constructor's
    global dropna."""
    R = "R-single-table"
    fi = ctx.repo.find_function(f"{F_BASE}::BaseDiscretizer.summary")
    bad = [n for n in ast.walk(fi.node) if isinstance(n, ast.Attribute) and n.attr == "dropna" and isinstance(n.value, ast.Name) and n.value.id == "self"]
    uses = [n for n in ast.walk(fi.node) if isinstance(n, ast.Subscript) and unparse(n.value) == "self.features_dropna"]
    cfg_s = cfg_of(ctx, fi)

    def loop_vars(node):
        return {unparse(l.target) for l in cfg_s.enclosing_loops(node) if isinstance(l, ast.For)}

    # indexed by the feature being listed: the variable of an enclosing loop over features
    ok = not bad and bool(uses) and all(unparse(u.slice) in loop_vars(u) for u in uses)
    ctx.ob(R, construct(fi, "missing values are listed according to self.features_dropna[feature], the flag transform uses"), ok, loc(fi, bad[0] if bad else None),
           "" if ok else "summary reads the constructor's global dropna: after update_discretizer groups the missing values of a feature, summary hides them while transform labels them")
    ft = ctx.repo.find_function(f"{F_BASE}::BaseDiscretizer.transform")
    ok = any(isinstance(n, ast.For) and unparse(n.iter) == "self.features_dropna.items()" for n in walk_no_nested(ft.node)) and not any(
        isinstance(n, ast.Attribute) and n.attr == "dropna" and isinstance(n.value, ast.Name) and n.value.id == "self" for n in ast.walk(ft.node))
    ctx.ob(R, construct(ft, "transform restores missing values according to self.features_dropna"), ok, loc(ft))


def rule_history_complete(ctx):
    R = "R-history-complete"
    fi = ctx.repo.find_function(f"{F_BC}::BaseCarver._test_viability")
    cfg = cfg_of(ctx, fi)
    hist = calls(fi, "_historize_viability_test")
    loops = [n for n in walk_no_nested(fi.node) if isinstance(n, ast.For) and "associations_xagg" in unparse(n.iter)]
    if len(hist) != 1 or len(loops) != 1:
        raise AnalysisError("_test_viability: anchors (one combination loop, one historization call) not found")
    h, loop = hist[0], loops[0]
    inside = loop in cfg.enclosing_loops(h)
    uncond = not [c for c in cfg.path_conditions(h)]
    breaks = [n for n in ast.walk(loop) if isinstance(n, (ast.Break, ast.Continue, ast.Return))]
    hn = cfg.node_of(h)
    before = all(cfg.dominates(hn, cfg.node_of(b)) for b in breaks)
    ok = inside and uncond and before
    ctx.ob(R, construct(fi, "every tested combination is historized before the loop breaks / continues / returns"), ok, loc(fi, h),
           "" if ok else f"inside loop={inside}, unconditional={uncond}, dominates exits={before}")
    kws = {k.arg: unparse(k.value) for k in h.keywords}
    ok = kws.get("association") == unparse(loop.target.elts[1]) if isinstance(loop.target, ast.Tuple) else False
    ok = ok and kws.get("n_combination") == unparse(loop.target.elts[0]) and kws.get("associations_xagg") == "associations_xagg" and any(k.arg is None and unparse(k.value) == "test_results" for k in h.keywords)
    ctx.ob(R, construct(fi, "the record is the current combination, its rank and its test results"), ok, loc(fi, h))
    # raw distribution historized before the search
    fc = ctx.repo.find_function(f"{F_BC}::BaseCarver._carve_feature")
    cfg2 = cfg_of(ctx, fc)
    raw = calls(fc, "_historize_viability_test")
    best = calls(fc, "_get_best_combination")
    ok = len(raw) == 1 and len(best) == 1 and cfg2.before(raw[0], best[0])
    ctx.ob(R, construct(fc, "raw distribution historized before the search"), ok, loc(fc, raw[0] if raw else None))
    # 'not checked' tail
    fh = ctx.repo.find_function(f"{F_BC}::BaseCarver._historize_viability_test")
    cfg3 = cfg_of(ctx, fh)
    tails = [n for n in walk_no_nested(fh.node) if isinstance(n, ast.Assign) and unparse(n.targets[0]) == "associations_not_checked" and isinstance(n.value, ast.Subscript)]
    ok = False
    if len(tails) == 1:
        sl = tails[0].value.slice
        conds = cfg3.path_conditions(tails[0])
        ok = (isinstance(sl, ast.Slice) and sl.upper is None and sl.step is None and sl.lower is not None
              and unparse(sl.lower).replace(" ", "") in ("n_combination+1", "1+n_combination")
              and unparse(tails[0].value.value) == "associations_xagg"
              and len(conds) == 1 and conds[0][1] and unparse(conds[0][0]) == "viability")
    ctx.ob(R, construct(fh, "'Not checked' entries = the combinations ranked after the accepted one"), ok, loc(fh, tails[0] if tails else None))


def rule_history_fields(ctx):
    R = "R-history-fields"
    fh = ctx.repo.find_function(f"{F_BC}::BaseCarver._historize_viability_test")
    dicts = [n for n in ast.walk(fh.node) if isinstance(n, ast.Dict) and any(isinstance(k, ast.Constant) and k.value == "viability" for k in n.keys)]
    ok = False
    if len(dicts) == 1:
        d = dicts[0]
        keys = {(k.value if isinstance(k, ast.Constant) else unparse(k)): unparse(v) for k, v in zip(d.keys, d.values)}
        ok = {"combination", "self.sort_by", "viability", "viability_message"} <= set(keys) and keys["self.sort_by"] == "asso[self.sort_by]" and keys["viability"] == "viab" and keys["viability_message"] == "msg"
    ctx.ob(R, construct(fh, "record = {combination, <sort_by>: its association value, viability, viability_message, ...}"), ok, loc(fh, dicts[0] if dicts else None))
    # raw values of a tested group: carving-level modality -> members in the labels order -> raw values
    ok = False
    if len(dicts) == 1:
        d = dicts[0]
        comb = [v for k, v in zip(d.keys, d.values) if isinstance(k, ast.Constant) and k.value == "combination"]
        if comb and isinstance(comb[0], ast.ListComp) and isinstance(comb[0].elt, ast.ListComp):
            inner = comb[0].elt
            gens = inner.generators
            if len(gens) == 3:
                m, g, v = [unparse(x.target) for x in gens]
                ok = (unparse(gens[0].iter) in ("asso['index_to_groupby'].keys()", "asso['index_to_groupby']")
                      and unparse(gens[1].iter) == f"order.get({m}, {m})"
                      and unparse(gens[2].iter) == f"self.values_orders[feature].get({g}, {g})"
                      and unparse(inner.elt) == v
                      and [cmp_canon(c) for c in gens[2].ifs + gens[1].ifs + gens[0].ifs] in ([(f"asso['index_to_groupby'][{m}]", "==", "final_group")], [("final_group", "==", f"asso['index_to_groupby'][{m}]")]))
    ctx.ob(R, construct(fh, "a historized group lists the raw values of its modalities: labels-level members first, then their raw values"), ok, loc(fh),
           "" if ok else "expanding through values_orders before the carving order loses the raw values of modalities merged at an earlier step")


def rule_viable_is_fitted(ctx):
    """The combination historized as viable is the one that becomes the fitted grouping."""
    R = "R-history-complete"
    fa = ctx.repo.find_function(f"{F_BC}::BaseCarver._get_best_association")
    cfg = cfg_of(ctx, fa)
    ap = calls(fa, "order_apply_combination")
    ok = False
    if len(ap) == 1:
        conds = _flatten_conditions(cfg.path_conditions(ap[0]))
        ok = [unparse(a) for a in ap[0].args] == ["order", "best_association['combination']"] and [(cmp_canon(t), pol) for t, pol in conds] == [(("best_association", "is not", "None"), True)]
        par = cfg.parent(ap[0])
        ok = ok and isinstance(par, ast.Assign) and unparse(par.targets[0]) == "order"
    rets = [r for r in walk_no_nested(fa.node) if isinstance(r, ast.Return)]
    ok = ok and len(rets) == 1 and unparse(rets[0].value) == "(best_association, order)"
    ctx.ob(R, construct(fa, "the order returned is the accepted (historized viable) combination applied to the order"), ok, loc(fa))
    fc = ctx.repo.find_function(f"{F_BC}::BaseCarver._carve_feature")
    up = calls(fc, "_update_orders")
    cfg2 = cfg_of(ctx, fc)
    ok = len(up) == 1 and [unparse(a) for a in up[0].args] == ["feature", "order", "labels_orders"]
    if ok:
        conds = _flatten_conditions(cfg2.path_conditions(up[0]))
        ok = [(cmp_canon(t), pol) for t, pol in conds] == [(("best_combination", "is not", "None"), True)]
        un = [n for n in walk_no_nested(fc.node) if isinstance(n, ast.Assign) and isinstance(n.targets[0], ast.Tuple) and unparse(n.value) == "best_combination"]
        ok = ok and len(un) == 1 and unparse(un[0].targets[0].elts[0]) == "order" and cfg2.before(un[0], up[0])
    ctx.ob(R, construct(fc, "values_orders are updated with exactly that order"), ok, loc(fc))


def _self_attrs(fn_node, store: bool):
    out = {}
    for n in walk_no_nested(fn_node):
        if isinstance(n, ast.Attribute) and isinstance(n.value, ast.Name) and n.value.id == "self":
            if store and isinstance(n.ctx, ast.Store):
                out.setdefault(n.attr, n)
            elif not store and isinstance(n.ctx, ast.Load):
                out.setdefault(n.attr, n)
    return out


def rule_no_stale_cache(ctx):
    """summary() / history() describe the *current* fitted state: a table they read that fit() computes
    (re-binds) from the orders must be recomputed by update_discretizer too, otherwise a manual edit
    leaves the description behind the object (labels_per_values is: R-labels-refreshed)."""
    R = "R-single-table"
    repo = ctx.repo
    fit = repo.find_function(f"{F_BASE}::BaseDiscretizer.fit")
    upd = repo.find_function(f"{F_BASE}::BaseDiscretizer.update_discretizer")
    computed = {}
    for n in walk_no_nested(fit.node):
        if isinstance(n, (ast.Assign, ast.AnnAssign)):
            tgts = n.targets if isinstance(n, ast.Assign) else [n.target]
            for t in tgts:
                if isinstance(t, ast.Attribute) and isinstance(t.value, ast.Name) and t.value.id == "self" and n.value is not None and not isinstance(n.value, ast.Constant):
                    computed.setdefault(t.attr, n)
    refreshed = set(_self_attrs(upd.node, store=True))
    for q in ("summary", "history"):
        fq = repo.find_function(f"{F_BASE}::BaseDiscretizer.{q}")
        reads = _self_attrs(fq.node, store=False)
        stale = sorted(a for a in reads if a in computed and a not in refreshed)
        ctx.ob(R, construct(fq, f"{q}() reads no table computed at fit that update_discretizer leaves as it was"), not stale, loc(fq, reads[stale[0]] if stale else None),
               "" if not stale else f"self.{stale[0]} is computed in fit ({loc(fit, computed[stale[0]])}) and never recomputed by update_discretizer: after a manual edit {q}() describes the object as it was before the edit")


def check(ctx):
    from . import c07

    rule_no_stale_cache(ctx)
    from . import quant

    quant.check_forward_sentinels(ctx, "R-forward-sentinels")  # summary() hides str_default / str_nan by name: the inner discretizers must have used the same ones
    c07.rule_readonly_queries(ctx)
    rule_viable_is_fitted(ctx)
    rule_summary_scope(ctx)
    rule_single_table(ctx)
    rule_nan_flag_source(ctx)
    rule_history_complete(ctx)
    rule_history_fields(ctx)
    rule_summary_number_filter(ctx)
    rule_summary_rows_by_value(ctx)
    from . import c17

    c17.rule_update(ctx)  # summary() reads features_dropna and labels_per_values: an edit must leave them describing what transform does
    from . import carver
    from .truthiness import check_optional_by_none

    check_optional_by_none(ctx, "R-summary-scope", [ctx.repo.find_function(f"{F_BASE}::BaseDiscretizer.summary"), ctx.repo.find_function(f"{F_BASE}::BaseDiscretizer.history")])
    carver.check_measure_formula(ctx, "R-measure-formula")


MUTANTS = [
    M("D5-reverted: NaN rows of other quantitative features leak", [(F_BASE, "            if feature in requested_features and self.str_nan in raw_labels_per_values[feature]:", "            if self.str_nan in raw_labels_per_values[feature]:")], "R-summary-scope", quick=True),
    M("summary loops over all features", [(F_BASE, "        for feature in requested_features:\n            # adding each value/label", "        for feature in self.features:\n            # adding each value/label")], "R-summary-scope"),
    M("summary accepts dropped features", [(F_BASE, "            assert feature in self.features, (\n                f\"Discretization of feature {feature} was not \" \"requested or it has been dropped.\"\n            )\n", "")], "R-summary-scope", "requested features ="),
    M("NaN row searched among the leaders only", [(F_BASE, "            if feature in requested_features and self.str_nan in raw_labels_per_values[feature]:", "            if feature in requested_features and self.str_nan in self.values_orders[feature]:")], "R-summary-scope", "merged into a group"),
    M("summary(feature) tests the label by truthiness", [(F_BASE, "        requested_features = self.features[:]\n        if feature is not None:", "        requested_features = self.features[:]\n        if feature:")], "R-summary-scope", "is None"),
    M("n_obs taken once from the table with the missing-value row", [(F_BC, "        n_obs = xagg.apply(sum).sum()  # number of observations for xtabs\n        associations_xagg = [\n            self._association_measure(grouped_xagg, n_obs=n_obs)", "        associations_xagg = [\n            self._association_measure(grouped_xagg, n_obs=self._n_obs)")], "R-measure-formula", "n_obs"),
    M("D25-reverted: summary reads the global dropna", [(F_BASE, "                if not (not self.features_dropna[feature] and value == self.str_nan):", "                if not (not self.dropna and value == self.str_nan):")], "R-single-table", "features_dropna", quick=True),
    M("summary recomputes labels with the float dtype", [(F_BASE, "            for value, label in self.labels_per_values[feature].items():", "            for value, label in self._get_labels_per_values('float')[feature].items():")], "R-single-table"),
    M("break before historization", [(F_BC, "            # historizing combinations and tests\n            self._historize_viability_test(", "            if best_association is not None:\n                break\n            # historizing combinations and tests\n            self._historize_viability_test(")], "R-history-complete", "every tested", quick=True),
    M("only viable combinations historized", [(F_BC, "            # historizing combinations and tests\n            self._historize_viability_test(\n                feature=feature,\n                association=association,\n                order=order,\n                n_combination=n_combination,\n                associations_xagg=associations_xagg,\n                dropna=dropna,\n                verbose=self.verbose,\n                **test_results,\n            )\n",
       "            # historizing combinations and tests\n            if train_viable:\n                self._historize_viability_test(\n                    feature=feature,\n                    association=association,\n                    order=order,\n                    n_combination=n_combination,\n                    associations_xagg=associations_xagg,\n                    dropna=dropna,\n                    verbose=self.verbose,\n                    **test_results,\n                )\n")], "R-history-complete", "every tested"),
    M("not-checked tail includes the accepted combination", [(F_BC, "associations_not_checked = associations_xagg[n_combination + 1 :]", "associations_not_checked = associations_xagg[n_combination:]")], "R-history-complete", "Not checked"),
    M("fitted grouping taken from the best-ranked instead of the accepted combination", [(F_BC, "            order = order_apply_combination(order, best_association[\"combination\"])", "            order = order_apply_combination(order, associations_xagg[0][\"combination\"])")], "R-history-complete", "accepted"),
    M("raw distribution not historized", [(F_BC, "            self._historize_viability_test(feature, raw_association, order)\n", "")], "R-history-complete", "raw distribution"),
    M("history expands raw values before the carving order", [(F_BC, "                        for group_modality in order.get(modality, modality)\n                        for value in self.values_orders[feature].get(group_modality, group_modality)\n", "                        for group_modality in self.values_orders[feature].get(modality, modality)\n                        for value in order.get(group_modality, group_modality)\n")], "R-history-fields", "raw values"),
    M("history stores the best value instead of the combination's", [(F_BC, "                self.sort_by: asso[self.sort_by],", "                self.sort_by: association[self.sort_by],")], "R-history-fields"),
]
BENIGN = [
    B("nan pass restricted by iterating requested features", [(F_BASE, "        for feature in self.quantitative_features:\n            # initiating feature summary (no value/label)\n            feature_summary = {\"feature\": feature, \"dtype\": self.input_dtypes[feature]}\n            # if there are nans -> if already added it will be dropped afterwards (unique content)\n            if feature in requested_features and self.str_nan in raw_labels_per_values[feature]:",
       "        for feature in requested_features:\n            # initiating feature summary (no value/label)\n            feature_summary = {\"feature\": feature, \"dtype\": self.input_dtypes[feature]}\n            # if there are nans -> if already added it will be dropped afterwards (unique content)\n            if feature in self.quantitative_features and self.str_nan in raw_labels_per_values[feature]:")]),
    B("tail slice written 1 + n", [(F_BC, "associations_not_checked = associations_xagg[n_combination + 1 :]", "associations_not_checked = associations_xagg[1 + n_combination :]")]),
    B("summaries appended", [(F_BASE, "                                    summaries += [feature_summary]\n", "                                    summaries.append(feature_summary)\n")]),
]
