"""C03 -- grouping preserves each feature's order (contiguity, monotone transform)."""
from __future__ import annotations

import ast

from ..core import unparse
from ..selftest import B, M
from .common import F_BASE, F_BC, F_QUAL, F_QUAN, calls, construct, loc
from . import c04, c05, c07, carver, quant

EXPLANATION = (
    "Decides: R-leader-position (replace_group_leader keeps the renamed group at its position in the order); R-position-truthiness (GroupedList never tests a position by truthiness: position 0 is the first group of the order); "
    "R-neighbour-merge (abstract interpretation of find_closest_modality over 'offset from "
    "idx': every returned value is idx-1 or idx+1, the constant 1 only under idx == 0, the last bucket "
    "merges left; find_common_modalities groups order[discarded] into order[that neighbour], adds the "
    "counts and removes exactly the discarded column); R-boundaries-sorted-unique-inf; "
    "R-leader-is-max (the leader of merged quantiles is the largest non-missing boundary); "
    "R-interval-lookup (data <= leader, masks and labels aligned, fitted order) and R-total-cover; "
    "R-categorical-order (modalities sorted by increasing training target rate, NaN last, the pure "
    "sort_by result is stored); R-contiguous-groups (every enumerated group is the slice "
    "order[a:b]; combinations are applied with group_list(group, group[0]), which keeps the first "
    "element of the slice as leader in place); R-index-kept (labels computed from plain lists are stored with "
    "index=X.index, so each row gets the label of its own value); R-qualitative-map (labels of qualitative "
    "values are applied by one simultaneous per-column replace, never value by value, where a label equal "
    "to another raw value would be replaced again); R-label-alignment; R-readonly-queries (summary / to_json "
    "/ the label-table builder leave the fitted state untouched); R-value-truthiness (no `value or default` "
    "on data: a boundary equal to 0.0 is a value)."
)
NOT_DECIDED = "monotonicity of the fitted step function on actual boundaries (follows from the above given sortedness; the numeric boundaries are runtime values)"
FLOORS = {"R-neighbour-merge": 4, "R-boundaries-sorted-unique-inf": 4, "R-leader-is-max": 1, "R-interval-lookup": 2, "R-total-cover": 3, "R-categorical-order": 5, "R-comutation": 6, "R-contiguous-groups": 12, "R-index-kept": 1, "R-value-truthiness": 1, "R-qualitative-map": 1, "R-label-alignment": 2, "R-readonly-queries": 3, "R-position-truthiness": 1, "R-leader-position": 1}


def rule_apply_combination(ctx):
    fi = ctx.repo.find_function(f"{F_BC}::order_apply_combination")
    gl = calls(fi, "group_list")
    ok = len(gl) == 1 and [unparse(a) for a in gl[0].args] == ["combi", "combi[0]"] and unparse(gl[0].func.value) == "order_copy"
    cp = any(isinstance(n, ast.Assign) and unparse(n.targets[0]) == "order_copy" and unparse(n.value) == "GroupedList(order)" for n in ast.walk(fi.node))
    ctx.ob("R-contiguous-groups", construct(fi, "a combination is applied on a copy with group_list(group, group[0])"), ok and cp, loc(fi))


def check(ctx):
    quant.check_neighbour_merge(ctx, "R-neighbour-merge")
    quant.check_boundaries(ctx, "R-boundaries-sorted-unique-inf")
    quant.check_leader_is_max(ctx, "R-leader-is-max")
    c04.rule_interval_lookup(ctx)
    c05.rule_total_cover(ctx)
    quant.check_categorical_order(ctx, "R-categorical-order")
    from .grouped import check_comutation

    check_comutation(ctx, "R-comutation")  # a user ranking goes through the GroupedList constructor: kept as given
    carver.check_enum_bounds(ctx, "R-contiguous-groups")
    rule_apply_combination(ctx)
    c07.rule_index_kept(ctx)
    from .truthiness import check_or_default

    check_or_default(ctx, "R-value-truthiness", [f for f in ctx.repo.all_functions() if "/selectors/" not in f.module.relpath])
    c04.rule_qualitative_map(ctx)
    c04.rule_label_alignment(ctx)
    c07.rule_readonly_queries(ctx)


MUTANTS = [
    M("D4-reverted: boundaries sorted but not de-duplicated", [(F_QUAN, "    return list(\n        unique(\n            np_find_quantiles(", "    return list(\n        sorted(\n            np_find_quantiles(")], "R-boundaries-sorted-unique-inf", "unique", quick=True),
    M("closest modality two buckets away", [(F_QUAL, "        # identifying smallest modality in terms of frequency\n        idx_closest_modality = idx + 1", "        # identifying smallest modality in terms of frequency\n        idx_closest_modality = idx + 2")], "R-neighbour-merge", "previous or the next", quick=True),
    M("first bucket merged with the last", [(F_QUAL, "    if idx == 0:\n        return 1", "    if idx == 0:\n        return frequencies.shape[0] - 1")], "R-neighbour-merge", "previous or the next"),
    M("last bucket merges right", [(F_QUAL, "    if idx == frequencies.shape[0] - 1:\n        return idx - 1", "    if idx == frequencies.shape[0] - 1:\n        return idx + 1")], "R-neighbour-merge", "first bucket"),
    M("most frequent neighbour anywhere in the order", [(F_QUAL, "        kept_idx = find_closest_modality(\n            discarded_idx,\n            stats[0, :] / len_df,\n            stats[1, :] / stats[0, :],\n            min_freq,\n        )", "        kept_idx = int(np.argmax(stats[0, :]))")], "R-neighbour-merge", "order.group"),
    M("kept column removed instead of the discarded one", [(F_QUAL, "        stats = stats[:, np.arange(stats.shape[1]) != discarded_idx]", "        stats = stats[:, np.arange(stats.shape[1]) != kept_idx]")], "R-neighbour-merge", "absorbs"),
    M("leader of merged quantiles is the smallest", [(F_BASE, "                    kept_value = max(which_to_keep)", "                    kept_value = min(which_to_keep)")], "R-leader-is-max", quick=True),
    M("interval test strict", [(F_BASE, "values_to_group = [df_feature <= value for value in feature_values if value != str_nan]", "values_to_group = [df_feature < value for value in feature_values if value != str_nan]")], "R-total-cover", "right-closed"),
    M("+inf boundary dropped", [(F_QUAN, "    order = GroupedList(quantiles + [inf])", "    order = GroupedList(quantiles)")], "R-boundaries-sorted-unique-inf", "inf"),
    M("categorical order descending", [(F_QUAL, "            target_rate, y=y, ascending=True, axis=0", "            target_rate, y=y, ascending=False, axis=0")], "R-categorical-order", "increasing"),
    M("categorical order not applied", [(F_QUAL, "            self.values_orders.update({feature: order.sort_by(new_order)})", "            self.values_orders.update({feature: order})")], "R-categorical-order", "applied"),
    M("NaN stays at its target-rate rank", [(F_QUAL, "            if self.str_nan in new_order:\n                new_order.remove(self.str_nan)\n                new_order += [self.str_nan]\n", "")], "R-categorical-order", "missing-value"),
    M("a boundary equal to 0.0 is taken for a missing label", [(F_BASE, "                    labels_to_quantiles[feature][label_discarded]\n                    if label_discarded != str_nan\n                    else str_nan\n", "                    labels_to_quantiles[feature].get(label_discarded) or str_nan\n")], "R-value-truthiness", "convert_to_values"),
    M("summary overwrites the fitted label table", [(F_BASE, "        labels_per_values: dict[str, dict[Any, Any]] = {}\n\n        # iterating over each feature", "        labels_per_values: dict[str, dict[Any, Any]] = self.labels_per_values\n\n        # iterating over each feature")], "R-readonly-queries"),
    M("qualitative labels applied one value at a time (replacements chain)", [(F_BASE, "        X = X.replace(\n            {\n                feature: label_per_value\n                for feature, label_per_value in self.labels_per_values.items()\n                if feature in self.qualitative_features\n            }\n        )\n", "        for feature in self.qualitative_features:\n            for value, label in self.labels_per_values[feature].items():\n                X.loc[X[feature] == value, feature] = label\n")], "R-qualitative-map"),
    M("groups are every other element", [(F_BC, "                combination = list(order[start_idx:next_idx])", "                combination = list(order[start_idx:next_idx:2])")], "R-contiguous-groups", "contiguous slice"),
    M("combination applied with the last element as leader", [(F_BC, "        order_copy.group_list(combi, combi[0])", "        order_copy.group_list(combi, combi[-1])")], "R-contiguous-groups", "applied on a copy"),
]
BENIGN = [
    B("neighbour written as -1 + idx is avoided; middle case returns directly", [(F_QUAL, "    # finding the closest value\n    return idx_closest_modality", "    # finding the closest value\n    chosen = idx_closest_modality\n    return chosen")]),
]
