"""C10 -- features are processed independently; parallel equals sequential."""
from __future__ import annotations

import ast
from typing import Dict, List, Optional, Tuple

from ..core import AnalysisError, FunctionInfo, call_name, unparse, walk_no_nested
from ..exprs import cmp_canon
from ..selftest import B, M
from .common import F_BASE, F_BC, F_QUAN, F_TYPE, cfg_of, concrete_classes, construct, discretizer_classes, loc, path_str, short

EXPLANATION = (
    "Decides: R-adjacency-order (the grouped tables of the carvers keep the feature's order -- never a lexicographic order nor the hash order of a set, which changes with PYTHONHASHSEED); and, at each of the n_jobs dispatch sites: R-seq-par-agree (the sequential branch and the Pool "
    "branch call the same module-level function with, after binding positional tuples / partial "
    "keywords through the function's signature, the same argument expressions, over the same feature "
    "list); R-pool-keyed (results are consumed only by destructuring the feature key out of each "
    "element, never by position against the input list; lazy imap results are drained and async "
    "results fetched inside the `with Pool` block); R-worker-pure (effect analysis: pool workers write "
    "no global and mutate no argument other than their own per-feature column, a pickled copy in the "
    "pool); R-no-iter-mutation (no loop iterates a self list that its body mutates, directly or "
    "through a called method: the carving loop and the removal loops iterate copies); R-key-local "
    "(inside per-feature code every access to a per-feature dict uses the current feature as key; the "
    "carving of a feature rebinds no attribute of self; no frame-wide replace inside a per-feature loop); "
    "R-per-feature-objects (a per-feature table filled in a loop over the features receives one object per feature: a "
    "mutable object built once before the loop and stored under every key would be shared); R-default-formula (unknown "
    "values are sent to the default group through a per-column map {feature: {value: str_default}}, never one pooled map)."
)
NOT_DECIDED = "multiprocessing's own behaviour; effect of the hash seed beyond iteration order"
FLOORS = {"R-order-statistic": 4, "R-seq-par-agree": 3, "R-pool-keyed": 6, "R-worker-pure": 3, "R-no-iter-mutation": 3, "R-key-local": 8, "R-per-feature-objects": 12, "R-default-formula": 2, "R-adjacency-order": 3}

LV = "<feature>"


def _dispatch_sites(repo) -> List[Tuple[FunctionInfo, ast.If]]:
    out = []
    for fi in repo.all_functions():
        for n in walk_no_nested(fi.node):
            if isinstance(n, ast.If) and "n_jobs" in unparse(n.test) and any(isinstance(c, ast.Call) and call_name(c) == "Pool" for c in ast.walk(n)):
                out.append((fi, n))
    return out


def _seq_branch(node: ast.If) -> Tuple[List[ast.stmt], List[ast.stmt]]:
    cc = cmp_canon(node.test)
    # n_jobs <= 1 / n_jobs < 2 / n_jobs == 1  => body is sequential
    if cc and "n_jobs" in cc[0] and cc[1] in ("<=", "<", "=="):
        return node.body, node.orelse
    if cc and "n_jobs" in cc[2] and cc[1] in ("<", "<="):  # 1 < n_jobs  => body is parallel
        return node.orelse, node.body
    raise AnalysisError(f"dispatch test not understood: {unparse(node.test)}")


def _bind(fi: FunctionInfo, pos: List[ast.expr], kw: Dict[str, ast.expr], loopvar: Optional[str], lead: List[str] = ()) -> Dict[str, str]:
    params = [p for p in fi.params]
    out: Dict[str, str] = {}
    i = 0
    for name in lead:
        out[params[i]] = name
        i += 1
    for e in pos:
        if i < len(params):
            out[params[i]] = _norm(e, loopvar)
        i += 1
    for k, v in kw.items():
        out[k] = _norm(v, loopvar)
    return out


def _norm(e: ast.expr, loopvar: Optional[str]) -> str:
    class Ren(ast.NodeTransformer):
        def visit_Name(self, n):
            if loopvar is not None and n.id == loopvar:
                return ast.copy_location(ast.Name(id=LV, ctx=n.ctx), n)
            return n
    import copy

    return unparse(Ren().visit(copy.deepcopy(e)))


def _local_partial(repo, fi, name: str):
    """``name = partial(worker, *pos, **kw)`` defined once in the function -> (worker, pos, kw)."""
    from ..exprs import single_defs

    d = single_defs(fi.node).get(name)
    if isinstance(d, ast.Call) and call_name(d) == "partial" and d.args and isinstance(d.args[0], ast.Name):
        sym = repo.resolve_name(fi.module, d.args[0].id)
        if isinstance(sym, FunctionInfo):
            return sym, list(d.args[1:]), {k.arg: k.value for k in d.keywords if k.arg}
    return None


def _find_seq_call(repo, fi, stmts):
    """(worker FunctionInfo, bindings, iterable text) of the sequential branch."""
    for st in stmts:
        for n in ast.walk(st):
            if isinstance(n, (ast.ListComp, ast.GeneratorExp)) and isinstance(n.elt, ast.Call) and isinstance(n.elt.func, ast.Name):
                sym = repo.resolve_name(fi.module, n.elt.func.id)
                if not isinstance(sym, FunctionInfo) and len(n.generators) == 1 and not n.generators[0].ifs:
                    lp = _local_partial(repo, fi, n.elt.func.id)
                    if lp is not None:
                        w, ppos, pkw = lp
                        lv = unparse(n.generators[0].target)
                        b = {}
                        params = w.params
                        for i, e in enumerate(ppos):
                            b[params[i]] = _norm(e, None)
                        for k, v in pkw.items():
                            b[k] = _norm(v, None)
                        free = [p for p in params if p not in b]
                        for p_, e in zip(free, n.elt.args):
                            b[p_] = _norm(e, lv)
                        for k in n.elt.keywords:
                            if k.arg:
                                b[k.arg] = _norm(k.value, lv)
                        return w, b, unparse(n.generators[0].iter), n
                if isinstance(sym, FunctionInfo) and len(n.generators) == 1 and not n.generators[0].ifs:
                    lv = unparse(n.generators[0].target)
                    kw = {k.arg: k.value for k in n.elt.keywords if k.arg}
                    return sym, _bind(sym, list(n.elt.args), kw, lv), unparse(n.generators[0].iter), n
            # the builtin map(worker, features) / map(partial(worker, ...), features) / map(<local partial>, features)
            if isinstance(n, ast.Call) and isinstance(n.func, ast.Name) and n.func.id == "map" and len(n.args) == 2 and not n.keywords:
                f = n.args[0]
                pos, kw = [], {}
                if isinstance(f, ast.Call) and call_name(f) == "partial" and f.args:
                    pos = list(f.args[1:])
                    kw = {k.arg: k.value for k in f.keywords if k.arg}
                    f = f.args[0]
                sym = repo.resolve_name(fi.module, f.id) if isinstance(f, ast.Name) else None
                if not isinstance(sym, FunctionInfo) and isinstance(f, ast.Name):
                    lp = _local_partial(repo, fi, f.id)
                    if lp is not None:
                        sym, pos, kw = lp
                if isinstance(sym, FunctionInfo):
                    b = {}
                    for i, e in enumerate(pos):
                        b[sym.params[i]] = _norm(e, None)
                    for k, v in kw.items():
                        b[k] = _norm(v, None)
                    first_free = next((p_ for p_ in sym.params if p_ not in b), None)
                    if first_free is not None:
                        b[first_free] = LV
                        return sym, b, unparse(n.args[1]), n
            if isinstance(n, ast.For):
                for c in ast.walk(n):
                    if isinstance(c, ast.Call) and isinstance(c.func, ast.Name):
                        sym = repo.resolve_name(fi.module, c.func.id)
                        if isinstance(sym, FunctionInfo):
                            lv = unparse(n.target)
                            kw = {k.arg: k.value for k in c.keywords if k.arg}
                            return sym, _bind(sym, list(c.args), kw, lv), unparse(n.iter), n
    return None


def _find_par_call(repo, fi, stmts):
    for st in stmts:
        for n in ast.walk(st):
            if isinstance(n, ast.Call) and isinstance(n.func, ast.Attribute) and n.func.attr == "apply_async" and n.args:
                f = n.args[0]
                sym = repo.resolve_name(fi.module, f.id) if isinstance(f, ast.Name) else None
                if not isinstance(sym, FunctionInfo):
                    return ("unresolved", n)
                tup = n.args[1] if len(n.args) > 1 else None
                pos = list(tup.elts) if isinstance(tup, ast.Tuple) else []
                kwn = next((k.value for k in n.keywords if k.arg in ("kwds",)), None)
                kw = {}
                if isinstance(kwn, ast.Dict):
                    kw = {k.value: v for k, v in zip(kwn.keys, kwn.values) if isinstance(k, ast.Constant)}
                # enclosing comprehension
                comp = None
                for m in ast.walk(st):
                    if isinstance(m, (ast.ListComp, ast.GeneratorExp)) and m.elt is n:
                        comp = m
                if comp is None or len(comp.generators) != 1 or comp.generators[0].ifs:
                    return ("shape", n)
                lv = unparse(comp.generators[0].target)
                return sym, _bind(sym, pos, kw, lv), unparse(comp.generators[0].iter), n
            if isinstance(n, ast.Call) and isinstance(n.func, ast.Attribute) and n.func.attr in ("imap_unordered", "imap", "map") and len(n.args) == 2:
                f = n.args[0]
                pos, kw = [], {}
                if isinstance(f, ast.Call) and call_name(f) == "partial" and f.args:
                    pos = list(f.args[1:])
                    kw = {k.arg: k.value for k in f.keywords if k.arg}
                    f = f.args[0]
                sym = repo.resolve_name(fi.module, f.id) if isinstance(f, ast.Name) else None
                if not isinstance(sym, FunctionInfo) and isinstance(f, ast.Name):
                    lp = _local_partial(repo, fi, f.id)
                    if lp is not None:
                        sym, pos, kw = lp
                if not isinstance(sym, FunctionInfo):
                    return ("unresolved", n)
                params = sym.params
                # partial binds leading positionals; the mapped element goes to the first free parameter
                b = {}
                free = [p for p in params]
                for i, e in enumerate(pos):
                    b[params[i]] = _norm(e, None)
                for k, v in kw.items():
                    b[k] = _norm(v, None)
                first_free = next((p for p in params if p not in b), None)
                if first_free is None:
                    return ("shape", n)
                b[first_free] = LV
                return sym, b, unparse(n.args[1]), n
    return None


def rule_seq_par(ctx):
    R = "R-seq-par-agree"
    repo = ctx.repo
    sites = _dispatch_sites(repo)
    workers = []
    for fi, node in sites:
        seq, par = _seq_branch(node)
        s = _find_seq_call(repo, fi, seq)
        p = _find_par_call(repo, fi, par)
        c = construct(fi, "sequential and Pool branch run the same worker on the same arguments")
        if s is None or p is None or isinstance(p[0], str):
            ctx.ob(R, c, None, loc(fi, node), f"dispatch form not understood (sequential={s is not None}, parallel={p if p is None else p[0]})")
            continue
        (sf, sb, sit, _), (pf, pb, pit, _) = s, p
        diffs = []
        if sf.key != pf.key:
            diffs.append(f"worker {sf.qualname} vs {pf.qualname}")
        if sit != pit:
            diffs.append(f"iterates {sit} vs {pit}")
        for k in sorted(set(sb) | set(pb)):
            if sb.get(k) != pb.get(k):
                diffs.append(f"{k}: {sb.get(k)} vs {pb.get(k)}")
        ctx.ob(R, c, not diffs, loc(fi, node), "; ".join(diffs))
        workers.append((fi, node, sf, pf))
    ctx.analysed("dispatch_sites", [f.qualname for f, _ in sites])
    return workers


def rule_pool_keyed(ctx, workers):
    R = "R-pool-keyed"
    for fi, node, sf, pf in workers:
        cfg = cfg_of(ctx, fi)
        # result names: assigned (or +=) in both branches
        def assigned(stmts):
            out = set()
            for st in stmts:
                for n in ast.walk(st):
                    if isinstance(n, ast.Assign):
                        out |= {t.id for t in n.targets if isinstance(t, ast.Name)}
                    elif isinstance(n, ast.AugAssign) and isinstance(n.target, ast.Name):
                        out.add(n.target.id)
            return out
        seq, par = _seq_branch(node)
        names = assigned(seq) & assigned(par)
        if not names:
            ctx.ob(R, construct(fi, "results variable"), None, loc(fi, node), "no common result variable")
            continue
        res = sorted(names)[0]
        # uses after the dispatch
        uses = [n for n in walk_no_nested(fi.node) if isinstance(n, ast.Name) and n.id == res and isinstance(n.ctx, ast.Load) and n.lineno > node.end_lineno]
        bad = []
        for u in uses:
            par_ = cfg.parent(u)
            ok = False
            if isinstance(par_, ast.comprehension) and par_.iter is u and isinstance(par_.target, ast.Tuple) and len(par_.target.elts) == 2:
                ok = True
            if isinstance(par_, ast.For) and par_.iter is u and isinstance(par_.target, ast.Tuple) and len(par_.target.elts) == 2:
                ok = True
            if isinstance(par_, ast.Call) and call_name(par_) == "dict" and len(par_.args) == 1 and par_.args[0] is u and not par_.keywords:
                ok = True  # dict(pairs): keyed by the first component of each pair
            if not ok:
                bad.append(u)
        ctx.ob(R, construct(fi, f"`{res}` is consumed only by destructuring (feature, result) pairs"), not bad and bool(uses), loc(fi, bad[0] if bad else node),
               "" if not bad else f"positional use: {short(cfg.parent(bad[0]))} -- with imap_unordered / a changed feature list results would be attributed to the wrong feature")
        # the worker returns a (feature, result) pair whose first component is its feature parameter
        rets = [r for r in walk_no_nested(sf.node) if isinstance(r, ast.Return)]
        okr = bool(rets) and all(isinstance(r.value, ast.Tuple) and len(r.value.elts) == 2 and unparse(r.value.elts[0]) == sf.params[0] for r in rets)
        ctx.ob(R, construct(sf, "worker returns (its feature argument, result)"), okr, loc(sf))
        # laziness: imap drained / async fetched inside the with block
        withs = [w for st in par for w in ast.walk(st) if isinstance(w, ast.With)]
        okw = True
        why = ""
        for st in par:
            for n in ast.walk(st):
                if isinstance(n, ast.Call) and isinstance(n.func, ast.Attribute) and n.func.attr in ("imap_unordered", "imap"):
                    p_ = cfg.parent(n)
                    drained = isinstance(p_, ast.AugAssign) or (isinstance(p_, ast.Call) and call_name(p_) in ("list", "dict", "tuple", "sorted"))
                    inside = any(n in list(ast.walk(w)) for w in withs)
                    if not (drained and inside):
                        okw, why = False, "lazy imap iterator is not drained inside the `with Pool` block"
                if isinstance(n, ast.Call) and isinstance(n.func, ast.Attribute) and n.func.attr == "apply_async":
                    gets = [g for g in ast.walk(fi.node) if isinstance(g, ast.Call) and isinstance(g.func, ast.Attribute) and g.func.attr == "get" and not g.args]
                    if not gets or not all(any(g in list(ast.walk(w)) for w in withs) for g in gets):
                        okw, why = False, "async results are not fetched inside the `with Pool` block"
        ctx.ob(R, construct(fi, "pool results are materialised while the pool is alive"), okw, loc(fi, node), why)


def rule_worker_pure(ctx, workers):
    R = "R-worker-pure"
    eng = ctx.effects
    seen = set()
    for fi, node, sf, pf in workers:
        for w in (sf, pf):
            if w.key in seen:
                continue
            seen.add(w.key)
            summ = eng.summary(w)
            bad = []
            for e in summ.events:
                root = e.path[0]
                if root.startswith("glob:"):
                    bad.append(e)
                elif root.startswith("p:") and e.kind == "mut" and root[2:] not in ("df_feature",):
                    bad.append(e)
            has_global = any(isinstance(n, (ast.Global, ast.Nonlocal)) for n in ast.walk(w.node))
            for e in bad[:3]:
                ctx.ob(R, construct(w, f"{e.fn} mutates {path_str(e.path)}: {e.expr}"), False, e.where,
                       "in the pool the worker gets pickled copies, so this mutation happens in sequential mode only: results differ with n_jobs")
            if not bad:
                ctx.ob(R, construct(w, "worker writes no global and mutates no shared argument"), not has_global, loc(w))


def rule_no_iter_mutation(ctx):
    R = "R-no-iter-mutation"
    eng = ctx.effects
    repo = ctx.repo
    n = 0
    for ci in concrete_classes(repo):
        for name in {m for c in repo.mro(ci) for m in c.methods}:
            fi = repo.lookup_method(ci, name)
            if fi is None:
                continue
            for loop in [x for x in walk_no_nested(fi.node) if isinstance(x, ast.For)]:
                it = loop.iter
                if not (isinstance(it, ast.Attribute) and isinstance(it.value, ast.Name) and it.value.id == "self"):
                    continue
                attr = it.attr
                hit = None
                for c in ast.walk(loop):
                    if not isinstance(c, ast.Call) or not isinstance(c.func, ast.Attribute):
                        continue
                    f = c.func
                    if unparse(f.value) == f"self.{attr}" and f.attr in ("remove", "pop", "append", "insert", "extend", "clear", "sort", "reverse"):
                        hit = c
                    if isinstance(f.value, ast.Name) and f.value.id == "self":
                        m = repo.lookup_method(ci, f.attr)
                        if m is not None:
                            s = eng.summary(m, ci, None)
                            if any(e.kind == "mut" and e.path == ("self", attr) for e in s.events):
                                hit = c
                    if isinstance(f.value, ast.Call) and isinstance(f.value.func, ast.Name) and f.value.func.id == "super" and fi.cls is not None:
                        m = repo.lookup_method(ci, f.attr, after=fi.cls)
                        if m is not None:
                            s = eng.summary(m, ci, None)
                            if any(e.kind == "mut" and e.path == ("self", attr) for e in s.events):
                                hit = c
                n += 1
                key = construct(fi, f"[{ci.name}] for ... in self.{attr}")
                ctx.ob(R, key, hit is None, loc(fi, loop), "" if hit is None else f"`{short(hit)}` mutates self.{attr} while it is being iterated: the next feature is skipped")
    # the three removal loops iterate copies
    for spec in (f"{F_BC}::BaseCarver.fit",):
        fi = repo.find_function(spec)
        loops = [x for x in walk_no_nested(fi.node) if isinstance(x, ast.For) and any(isinstance(c, ast.Call) and call_name(c) in ("_carve_feature", "_remove_feature") for c in ast.walk(x))]
        for loop in loops:
            src = unparse(loop.iter)
            ok = "self.features" not in src or src.endswith("[:]")
            ctx.ob(R, construct(fi, f"loop calling {'/'.join(sorted({call_name(c) for c in ast.walk(loop) if isinstance(c, ast.Call) and call_name(c) in ('_carve_feature', '_remove_feature')}))} iterates a copy"), ok, loc(fi, loop))
    if n == 0:
        ctx.ob(R, "no loop iterates a self list directly", True, "")


PER_FEATURE = {"values_orders", "labels_orders", "label_orders", "xaggs", "xaggs_dev", "labels_per_values", "quantiles_labels", "labels_to_quantiles", "quantiles_to_labels", "input_dtypes", "_history", "features_dropna", "known_orders", "common_modalities", "yvals", "xtabs"}
KEY_SCOPE = [f"{F_BC}::BaseCarver._carve_feature", f"{F_BC}::BaseCarver._update_orders", f"{F_BASE}::convert_to_values", f"{F_BASE}::convert_to_labels",
             f"{F_BASE}::BaseDiscretizer._get_labels_per_values", f"{F_BASE}::transform_quantitative_feature", f"{F_BASE}::get_quantiles_labels",
             f"{F_BC}::BaseCarver._historize_viability_test", f"{F_BASE}::BaseDiscretizer._remove_feature"]


def rule_key_local(ctx):
    R = "R-key-local"
    for spec in KEY_SCOPE:
        fi = ctx.repo.find_function(spec)
        cfg = cfg_of(ctx, fi)
        bad = []
        n = 0
        for s in ast.walk(fi.node):
            key = None
            if isinstance(s, ast.Subscript):
                base = s.value
                key = s.slice
            elif isinstance(s, ast.Call) and isinstance(s.func, ast.Attribute) and s.func.attr in ("get", "pop") and s.args:
                base = s.func.value
                key = s.args[0]
            else:
                continue
            bname = base.attr if isinstance(base, ast.Attribute) else (base.id if isinstance(base, ast.Name) else None)
            if bname not in PER_FEATURE:
                continue
            n += 1
            # allowed keys: the name `feature` (parameter or loop variable over features)
            ok = isinstance(key, ast.Name) and key.id in ("feature",)
            if isinstance(key, ast.Name) and not ok:
                # another loop variable over a feature list of this function
                for l in cfg.enclosing_loops(s):
                    if isinstance(l, ast.For) and unparse(l.target) == key.id and "features" in unparse(l.iter):
                        ok = True
                par_comp = [g for c in ast.walk(fi.node) if isinstance(c, (ast.ListComp, ast.DictComp, ast.SetComp, ast.GeneratorExp)) for g in c.generators if unparse(g.target) == key.id and "features" in unparse(g.iter)]
                ok = ok or bool(par_comp)
            if not ok:
                bad.append(s)
        for b in bad[:3]:
            ctx.ob(R, construct(fi, f"per-feature table accessed with key `{short(b.slice if isinstance(b, ast.Subscript) else b.args[0], 40)}`"), False, loc(fi, b),
                   "per-feature code reads or writes another feature's entry: the result depends on which features are fitted together")
        if not bad:
            ctx.ob(R, construct(fi, f"all {n} accesses to per-feature tables use the current feature as key"), True, loc(fi))


def rule_feature_isolated(ctx):
    """Carving one feature changes nothing that the carving of another feature reads: the per-feature
    code rebinds no attribute of self (shared configuration such as max_n_mod), and inside a
    `for feature in ...` loop no operation is applied to the whole frame instead of the feature's column."""
    R = "R-key-local"
    repo, eng = ctx.repo, ctx.effects
    for cname in ("BinaryCarver", "ContinuousCarver"):
        ci = repo.find_class(cname)
        fi, summ = eng.method_summary(ci, "_carve_feature", None)
        writes = [e for e in summ.events if e.kind == "write" and e.path[0] == "self"]
        seen = set()
        for e in writes:
            if (e.fn, e.expr) in seen:
                continue
            seen.add((e.fn, e.expr))
            ctx.ob(R, f"{cname}._carve_feature::{e.fn}::rebinds {path_str(e.path)}::{e.expr}", False, e.where,
                   "per-feature code changes a shared attribute: features carved afterwards (hash-seed dependent order) see another configuration")
        if not writes:
            ctx.ob(R, f"{cname}._carve_feature::rebinds no attribute of self", True, loc(fi))
    n = 0
    for fi in repo.all_functions():
        if "/selectors/" in fi.module.relpath:
            continue
        cfg = None
        for c in walk_no_nested(fi.node):
            if not (isinstance(c, ast.Call) and isinstance(c.func, ast.Attribute) and c.func.attr in ("replace", "fillna", "where", "mask")):
                continue
            recv = c.func.value
            if not (isinstance(recv, ast.Name) and recv.id in ("x_copy", "X", "X_dev", "x_dev_copy")):
                continue
            cfg = cfg or cfg_of(ctx, fi)
            loops = [l for l in cfg.enclosing_loops(c) if isinstance(l, ast.For) and isinstance(l.target, ast.Name) and l.target.id == "feature"]
            if not loops:
                continue
            n += 1
            a0 = c.args[0] if c.args else None
            keyed = isinstance(a0, (ast.Dict, ast.DictComp)) and "feature" in unparse(a0.keys[0] if isinstance(a0, ast.Dict) and a0.keys else getattr(a0, "key", a0))
            ctx.ob(R, construct(fi, f"`{short(c, 60)}` inside the per-feature loop is restricted to the feature's column"), keyed, loc(fi, c),
                   "" if keyed else "a frame-wide operation inside a per-feature loop rewrites the other features' columns: the result depends on which features are fitted together")
    if n == 0:
        ctx.ob(R, "no frame-wide replace / fillna inside a per-feature loop", True, "")


def rule_no_cross_feature_condition(ctx):
    """A per-feature decision of transform must not depend on the other features: a flag computed by
    any / all / sum over the feature list from per-feature fitted state (`any(str_nan in labels[f] for
    f in features)`) makes the treatment of one feature depend on which other features are present."""
    R = "R-key-local"
    for spec in (f"{F_BASE}::BaseDiscretizer._transform_qualitative", f"{F_BASE}::BaseDiscretizer._transform_quantitative", f"{F_BASE}::BaseDiscretizer._check_new_values"):
        fi = ctx.repo.find_function(spec)
        flags = {}
        for n in walk_no_nested(fi.node):
            if isinstance(n, ast.Assign) and len(n.targets) == 1 and isinstance(n.targets[0], ast.Name):
                for c in ast.walk(n.value):
                    if isinstance(c, ast.Call) and isinstance(c.func, ast.Name) and c.func.id in ("any", "all", "sum", "max", "min") and c.args and isinstance(c.args[0], (ast.GeneratorExp, ast.ListComp)):
                        g = c.args[0]
                        it = unparse(g.generators[0].iter)
                        var = {x.id for x in ast.walk(g.generators[0].target) if isinstance(x, ast.Name)}
                        if "features" in it and any(isinstance(x, ast.Subscript) and var & {y.id for y in ast.walk(x.slice) if isinstance(y, ast.Name)} for x in ast.walk(g.elt)):
                            flags[n.targets[0].id] = c
        bad = []
        direct = []
        for n in walk_no_nested(fi.node):
            if isinstance(n, (ast.If, ast.IfExp)):
                for x in ast.walk(n.test):
                    if isinstance(x, ast.Name) and x.id in flags:
                        bad.append((n, x.id))
                    if isinstance(x, ast.Call) and isinstance(x.func, ast.Name) and x.func.id in ("any", "all") and x.args and isinstance(x.args[0], (ast.GeneratorExp, ast.ListComp)):
                        g = x.args[0]
                        var = {y.id for y in ast.walk(g.generators[0].target) if isinstance(y, ast.Name)}
                        if "features" in unparse(g.generators[0].iter) and any(isinstance(z, ast.Subscript) and var & {y.id for y in ast.walk(z.slice) if isinstance(y, ast.Name)} for z in ast.walk(g.elt)):
                            direct.append(n)
        ok = not bad and not direct
        ctx.ob(R, construct(fi, "no branch of the transformation tests an aggregate over the other features' fitted state"), ok, loc(fi, bad[0][0] if bad else (direct[0] if direct else None)),
               "" if ok else "the treatment of a feature (e.g. whether its missing values are filled) depends on whether ANOTHER feature had missing values at fit: fitting / transforming a subset of the features gives a different result for the same column")


def rule_no_multi_column_array(ctx):
    """A feature is handed to its worker as its own column: converting a multi-column selection to one
    numpy array (`X[cols].to_numpy()`, `.values`) gives all columns a common dtype (int64 next to a
    float column becomes float64: integers above 2**53 are rounded), so the fit of one feature depends
    on which others are fitted with it."""
    R = "R-key-local"
    bad = []
    n_sites = 0
    for fi in ctx.repo.all_functions():
        if "/discretizers/" not in fi.module.relpath and "/carvers/" not in fi.module.relpath:
            continue
        for n in ast.walk(fi.node):
            base = None
            if isinstance(n, ast.Call) and isinstance(n.func, ast.Attribute) and n.func.attr in ("to_numpy", "to_records", "to_dict") and n.func.attr == "to_numpy":
                base = n.func.value
            elif isinstance(n, ast.Attribute) and n.attr == "values" and isinstance(n.ctx, ast.Load):
                base = n.value
            elif isinstance(n, ast.Call) and isinstance(n.func, ast.Name) and n.func.id in ("asarray", "array") and n.args:
                base = n.args[0]
            if isinstance(base, ast.Subscript) and isinstance(base.slice, (ast.Attribute, ast.List, ast.Name)):
                key = unparse(base.slice)
                multi = isinstance(base.slice, ast.List) or key.endswith("features") or key in ("features", "columns", "cols")
                if multi:
                    n_sites += 1
                    bad.append((fi, n))
    ctx.ob(R, "discretizers / carvers::no multi-column selection is converted to a single numpy array", not bad, loc(bad[0][0], bad[0][1]) if bad else "",
           "" if not bad else f"`{short(bad[0][1], 70)}` in {bad[0][0].qualname}: the columns share one dtype after the conversion")


def _mutable_construction(e) -> bool:
    if isinstance(e, (ast.List, ast.Dict, ast.Set, ast.ListComp, ast.DictComp, ast.SetComp)):
        return True
    if isinstance(e, ast.Call) and isinstance(e.func, ast.Name) and (e.func.id in ("list", "dict", "set", "DataFrame", "Series") or e.func.id[:1].isupper()):
        return True
    return False


def rule_per_feature_objects(ctx):
    """A per-feature table (values_orders, labels_per_values ...) filled in a loop over the features
    must receive one object per feature: a mutable object built once before the loop and stored
    under every key is shared, so grouping / appending for one feature shows up in the others."""
    R = "R-per-feature-objects"
    repo = ctx.repo
    n = 0
    for fi in repo.all_functions():
        if "/selectors/" in fi.module.relpath:
            continue
        for loop in [x for x in walk_no_nested(fi.node) if isinstance(x, ast.For) and isinstance(x.target, ast.Name)]:
            key = loop.target.id
            inner_stores = {x.id for s_ in loop.body for x in ast.walk(s_) if isinstance(x, ast.Name) and isinstance(x.ctx, ast.Store)}
            stored = []  # (value expr, node)
            for c in [x for s_ in loop.body for x in ast.walk(s_)]:
                if isinstance(c, ast.Call) and isinstance(c.func, ast.Attribute) and c.func.attr == "update" and len(c.args) == 1 and isinstance(c.args[0], ast.Dict):
                    for k, v in zip(c.args[0].keys, c.args[0].values):
                        if isinstance(k, ast.Name) and k.id == key:
                            stored.append((v, c))
                elif isinstance(c, ast.Assign) and len(c.targets) == 1 and isinstance(c.targets[0], ast.Subscript) and isinstance(c.targets[0].slice, ast.Name) and c.targets[0].slice.id == key:
                    stored.append((c.value, c))
            for v, node in stored:
                n += 1
                shared = None
                if isinstance(v, ast.Name) and v.id not in inner_stores and v.id not in fi.params:
                    defs = [a.value for a in walk_no_nested(fi.node) if isinstance(a, ast.Assign) and any(isinstance(t, ast.Name) and t.id == v.id for t in a.targets)]
                    if defs and all(_mutable_construction(d) for d in defs):
                        shared = defs[0]
                ctx.ob(R, construct(fi, f"`{short(node)}`: one object per `{key}`"), shared is None, loc(fi, node),
                       "" if shared is None else f"`{v.id} = {short(shared)}` is built once, outside the loop over `{unparse(loop.iter)}`, and stored under every key: the features share one mutable object")
    if n == 0:
        raise AnalysisError("no per-feature store in a loop was found")


def check(ctx):
    from . import carver

    # the grouped tables keep the feature's order, never a set's hash order: a feature's result must not depend on the interpreter's hash seed
    carver.check_adjacency_order(ctx, "R-adjacency-order")
    rule_per_feature_objects(ctx)
    from . import c05

    c05.rule_default_formula(ctx)  # the replacement of unknown values is a per-column map
    rule_no_multi_column_array(ctx)
    rule_no_cross_feature_condition(ctx)
    from . import quant as _q

    _q.check_order_statistic(ctx, "R-order-statistic")  # the worker sees the whole column, deterministically
    rule_feature_isolated(ctx)
    workers = rule_seq_par(ctx)
    rule_pool_keyed(ctx, workers)
    rule_worker_pure(ctx, workers)
    rule_no_iter_mutation(ctx)
    rule_key_local(ctx)


MUTANTS = [
    M("every feature without a provided order receives the same GroupedList", [("AutoCarver/discretizers/utils/qualitative_discretizers.py", "        # adding known_values to each feature's order\n        for feature in self.features:\n            # checking for already known values of the feature\n            if feature in self.values_orders:\n                order = self.values_orders[feature]\n            # no known values for the feature\n            else:\n                order = GroupedList([])\n", "        empty_order = GroupedList([])\n        # adding known_values to each feature's order\n        for feature in self.features:\n            # checking for already known values of the feature\n            if feature in self.values_orders:\n                order = self.values_orders[feature]\n            # no known values for the feature\n            else:\n                order = empty_order\n                self.values_orders.update({feature: empty_order})\n")], "R-per-feature-objects", "one object per"),
    M("Pool branch passes another quantile count", [(F_QUAN, "                        q=self.q,\n", "                        q=self.q + 1,\n")], "R-seq-par-agree", "ContinuousDiscretizer.fit", quick=True),
    M("Pool branch fits on the caller's frame, sequential branch on the validated copy", [(F_QUAN, "                        X=x_copy[self.quantitative_features],\n", "                        X=X[self.quantitative_features],\n")], "R-seq-par-agree", "ContinuousDiscretizer.fit"),
    M("Pool branch transforms with the raw orders argument swapped", [(F_BASE, "                            feature,\n                            X[feature],\n                            self.values_orders,\n                            self.str_nan,\n                            self.labels_per_values,\n                            x_len,\n                        ),\n                    )", "                            feature,\n                            X[feature],\n                            self.values_orders,\n                            self.str_default,\n                            self.labels_per_values,\n                            x_len,\n                        ),\n                    )")], "R-seq-par-agree", "_transform_quantitative"),
    M("Pool branch of StringDiscretizer iterates another list", [(F_TYPE, "                        (feature, x_copy[feature], self.str_nan),\n                    )\n                    for feature in self.features", "                        (feature, x_copy[feature], self.str_nan),\n                    )\n                    for feature in self.qualitative_features")], "R-seq-par-agree", "StringDiscretizer.fit"),
    M("Pool branch reads the caller's frame instead of the copy", [(F_TYPE, "                        (feature, x_copy[feature], self.str_nan),", "                        (feature, X[feature], self.str_nan),")], "R-seq-par-agree", "StringDiscretizer.fit"),
    M("results zipped with the feature list", [(F_QUAN, "        self.values_orders.update({feature: order for (feature, order) in all_orders})", "        self.values_orders.update({feature: res[1] for feature, res in zip(self.quantitative_features, all_orders)})")], "R-pool-keyed", "consumed only", quick=True),
    M("worker returns the bare order, results zipped with the feature list", [(F_QUAN, "    return (feature, order)\n", "    return order\n"), (F_QUAN, "        self.values_orders.update({feature: order for (feature, order) in all_orders})", "        self.values_orders.update(dict(zip(self.quantitative_features, all_orders)))")], "R-pool-keyed", "ContinuousDiscretizer.fit"),
    M("imap result kept lazy beyond the pool", [(F_QUAN, "                all_orders += pool.imap_unordered(", "                all_orders = pool.imap_unordered(")], "R-pool-keyed", "materialised"),
    M("worker caches into the shared orders", [(F_BASE, "    # feature's labels associated to each quantile\n    feature_values = values_orders[feature]\n", "    # feature's labels associated to each quantile\n    feature_values = values_orders[feature]\n    labels_per_values[feature].update({str_nan: str_nan})\n")], "R-worker-pure", quick=True),
    M("worker appends the nan modality to the shared order", [(F_BASE, "        nan_value = feature_values.get_group(str_nan)\n", "        if not feature_values.contains(str_nan):\n            feature_values.append(str_nan)\n        nan_value = feature_values.get_group(str_nan)\n")], "R-worker-pure"),
    M("carving loop iterates self.features while removing", [(F_BC, "        all_features = self.features[:]  # (features are being removed from self.features)\n        for n, feature in enumerate(all_features):", "        all_features = self.features  # (features are being removed from self.features)\n        for n, feature in enumerate(self.features):")], "R-no-iter-mutation"),
    M("QualitativeDiscretizer removes while iterating", [("AutoCarver/discretizers/discretizers.py", "        all_features = self.features[:]  # features are being removed from self.features\n        for feature in all_features:", "        for feature in self.features:")], "R-no-iter-mutation", "QualitativeDiscretizer"),
    M("per-feature search clamps the shared max_n_mod", [(F_BC, "            # all possible consecutive combinations\n            combinations = consecutive_combinations(raw_order, self.max_n_mod, min_group_size=1)\n\n            # getting most associated combination", "            self.max_n_mod = min(self.max_n_mod, len(order))\n            # all possible consecutive combinations\n            combinations = consecutive_combinations(raw_order, self.max_n_mod, min_group_size=1)\n\n            # getting most associated combination")], "R-key-local", "rebinds"),
    M("rare values replaced frame-wide inside the per-feature loop", [("AutoCarver/discretizers/utils/qualitative_discretizers.py", "                x_copy.loc[x_copy[feature].isin(values_to_group), feature] = self.str_default\n", "                x_copy = x_copy.replace(values_to_group, self.str_default)\n")], "R-key-local", "restricted to the feature"),
    M("labels of one feature read with another feature's key", [(F_BASE, "    # feature's labels associated to each quantile\n    feature_values = values_orders[feature]\n", "    # feature's labels associated to each quantile\n    feature_values = values_orders[sorted(values_orders)[0]]\n")], "R-key-local", "transform_quantitative_feature"),
]
BENIGN = [
    B("per-feature call factored into one partial", [(F_QUAN, "        # storing ordering\n        all_orders = []\n", "        # storing ordering\n        all_orders = []\n        fit_one = partial(fit_feature, X=x_copy[self.quantitative_features], q=self.q, str_nan=self.str_nan)\n"), (F_QUAN, "                fit_feature(\n                    feature, X=x_copy[self.quantitative_features], q=self.q, str_nan=self.str_nan\n                )\n", "                fit_one(feature)\n"), (F_QUAN, "                    partial(\n                        fit_feature,\n                        X=x_copy[self.quantitative_features],\n                        q=self.q,\n                        str_nan=self.str_nan,\n                    ),\n", "                    fit_one,\n")]),
    B("sequential branch uses keywords in another order", [(F_QUAN, "                    feature, X=x_copy[self.quantitative_features], q=self.q, str_nan=self.str_nan\n", "                    feature, str_nan=self.str_nan, q=self.q, X=x_copy[self.quantitative_features]\n")]),
    B("sequential branch passes positionally", [(F_QUAN, "                    feature, X=x_copy[self.quantitative_features], q=self.q, str_nan=self.str_nan\n", "                    feature, x_copy[self.quantitative_features], self.q, self.str_nan\n")]),
    B("dispatch test inverted", [(F_TYPE, "        if self.n_jobs <= 1:\n            all_orders = [\n                fit_feature(feature, x_copy[feature], self.str_nan) for feature in self.features\n            ]\n        # asynchronous conversion each feature's value\n        else:\n", "        if self.n_jobs <= 1:\n            all_orders = [\n                fit_feature(feat, x_copy[feat], self.str_nan) for feat in self.features\n            ]\n        # asynchronous conversion each feature's value\n        else:\n")]),
    B("results consumed in a for loop with other names", [(F_QUAN, "        self.values_orders.update({feature: order for (feature, order) in all_orders})", "        for feat, fitted_order in all_orders:\n            self.values_orders.update({feat: fitted_order})")]),
]
