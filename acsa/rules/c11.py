"""C11 -- carving is invariant under information-preserving re-encodings."""
from __future__ import annotations

from ..selftest import B, M
from .common import F_BASE, F_BC, F_BIN, F_CONT, F_QUAL, F_QUAN
from . import c04, c07, quant

EXPLANATION = (
    "Decides: R-order-only (taint analysis: raw values of a quantitative feature -- in "
    "find_quantiles, np_find_quantiles and transform_quantitative_feature -- are only compared, "
    "counted, sorted, selected or passed to order statistics; arithmetic, averaging, rounding or "
    "isclose on them is a violation; counts and comparison results are not values); "
    "R-order-statistic (numpy.quantile with method lower/higher/nearest); R-label-injective (a lossy "
    "number format is not used as identity key unless distinctness is established: otherwise a shift "
    "x -> x + b changes how many groups collapse); R-aligned-pairs (feature and target are paired "
    "only through index-aligned pandas operations -- groupby, crosstab, boolean masks -- never "
    "positionally after .values / list()); R-index-kept (frames built from plain lists are stored "
    "with index=X.index); R-row-order-free (ties between equal target rates are broken by the modality, "
    "never by first appearance in the rows: target_rate groups with sorted keys before its stable sort); "
    "R-adjacency-order (grouped tables keep the feature's order, never the lexicographic order of label strings, "
    "which changes with the scale of the feature); R-viability-formula (adjacent rates are compared with isclose, "
    "not exactly: float means depend on the summation order of the rows); R-leader-is-max / R-value-truthiness "
    "(a boundary equal to 0.0 is a value like any other)."
    " Also R-qualitative-map (raw value -> label in one simultaneous replacement: a chain of replacements depends on whether a category is spelled like a label) and, in R-aligned-pairs, the target and the feature meet in one groupby / crosstab call (row positions from `.indices` are not labels)."
)
NOT_DECIDED = "the invariance itself on data (numerical equality of partitions); ties between equal target rates of categories"
FLOORS = {"R-nan-aware-lookup": 3, "R-order-only": 4, "R-order-statistic": 4, "R-label-injective": 1, "R-aligned-pairs": 4, "R-index-kept": 1, "R-row-order-free": 2, "R-adjacency-order": 3, "R-viability-formula": 1, "R-leader-is-max": 1, "R-value-truthiness": 1, "R-qualitative-map": 1}


def check(ctx):
    quant.check_order_only(ctx, "R-order-only")
    quant.check_order_statistic(ctx, "R-order-statistic")
    c04.rule_label_injective(ctx)
    quant.check_aligned_pairs(ctx, "R-aligned-pairs")
    c07.rule_index_kept(ctx)
    quant.check_row_order_free(ctx, "R-row-order-free")
    from . import carver
    from .truthiness import check_or_default

    carver.check_adjacency_order(ctx, "R-adjacency-order")
    carver.check_viability_formula(ctx, "R-viability-formula")
    quant.check_leader_is_max(ctx, "R-leader-is-max")
    check_or_default(ctx, "R-value-truthiness", [f for f in ctx.repo.all_functions() if "/selectors/" not in f.module.relpath])
    from . import c13

    c13.rule_nan_aware(ctx)  # value identity is exact equality: a tolerance depends on the scale of the feature
    c04.rule_qualitative_map(ctx)  # raw value -> label in one simultaneous replacement: a chain of replacements depends on whether a category is spelled like a label


MUTANTS = [
    M("D11-reverted: labels rounded to 4 significant digits", [(F_BASE, c04._D11_FIXED, "    # scientific formatting\n    formatted_list = [f\"{number:.3e}\" for number in a_list]\n")], "R-label-injective", quick=True),
    M("boundaries rounded", [(F_QUAN, "        quantiles += list(\n            quantile(\n                df_feature,", "        quantiles += list(\n            quantile(\n                df_feature.round(3),")], "R-order-only", "np_find_quantiles", quick=True),
    M("midpoint boundaries", [(F_QUAN, "        quantiles += [max(df_feature)]", "        quantiles += [(max(df_feature) + min(df_feature)) / 2]")], "R-order-only", "np_find_quantiles"),
    M("frequent values detected by closeness", [(F_QUAN, "                df_feature[(sub_indices == i) & (~in1d(df_feature, frequent_values))], q, len_df, []", "                df_feature[(sub_indices == i) & (~isclose(df_feature, frequent_values[0]))], q, len_df, []"), (F_QUAN, "from numpy import array, digitize, in1d, inf, isnan, linspace, quantile, unique", "from numpy import array, digitize, in1d, inf, isclose, isnan, linspace, quantile, unique")], "R-order-only", "np_find_quantiles"),
    M("interpolated quantiles", [(F_QUAN, "                method=\"lower\",\n", "                method=\"midpoint\",\n")], "R-order-statistic", "order statistics"),
    M("transform compares scaled values", [(F_BASE, "    values_to_group = [df_feature <= value for value in feature_values if value != str_nan]", "    scaled = df_feature / df_feature.max()\n    values_to_group = [scaled <= value for value in feature_values if value != str_nan]")], "R-order-only", "transform_quantitative_feature"),
    M("target paired positionally in target_rate", [(F_BASE, "    rates = y.groupby(x, dropna=dropna).mean().sort_values(ascending=ascending)", "    rates = y.groupby(x.values, dropna=dropna).mean().sort_values(ascending=ascending)")], "R-aligned-pairs", "target_rate"),
    M("crosstab on positional arrays", [(F_BIN, "                xtab = crosstab(X[feature], y)", "                xtab = crosstab(X[feature].values, y.values)")], "R-aligned-pairs", "BinaryCarver._aggregator"),
    M("continuous aggregate grouped by a list", [(F_CONT, "                yval = y.groupby(X[feature]).apply(lambda u: list(u))  # pylint: disable=W0108", "                yval = y.groupby(list(X[feature])).apply(lambda u: list(u))  # pylint: disable=W0108")], "R-aligned-pairs", "ContinuousCarver._aggregator"),
    M("target_rate groups in order of first appearance", [(F_BASE, "    rates = y.groupby(x, dropna=dropna).mean().sort_values(ascending=ascending)", "    rates = y.groupby(x, dropna=dropna, sort=False).mean().sort_values(ascending=ascending)")], "R-row-order-free", "target_rate"),
    M("re-grouped crosstab ordered by label strings", [(F_BC, "combi_xagg = xagg.groupby(groups, dropna=False, sort=False).sum()", "combi_xagg = xagg.groupby(groups, dropna=False).sum()")], "R-adjacency-order", "xagg_apply_order"),
    M("largest boundary 0.0 taken for 'no boundary'", [(F_BASE, "                if len(which_to_keep) > 0:\n                    kept_value = max(which_to_keep)\n                # case 1: there is only str_nan in the group (it was not grouped)\n                else:\n                    kept_value = group_to_discard[0]", "                kept_value = max(which_to_keep, default=None) or group_to_discard[0]")], "R-value-truthiness", "convert_to_values"),
    M("adjacent means compared exactly instead of isclose", [(F_BC, "            distinct_rates_train = not any(\n                isclose(train_rates[\"target_rate\"][1:], train_rates[\"target_rate\"].shift(1)[1:])\n            )", "            distinct_rates_train = all(train_rates[\"target_rate\"].diff()[1:] != 0)")], "R-viability-formula"),
    M("index=X.index dropped", [(F_BASE, "{feature: values for feature, values in all_transformed}, index=X.index\n", "{feature: values for feature, values in all_transformed}\n")], "R-index-kept"),
]
BENIGN = [
    B("quantile method nearest", [(F_QUAN, "                method=\"lower\",\n", "                method=\"nearest\",\n")]),
    B("share computed with shape", [(F_QUAN, "    new_q = round(len(df_feature) / len_df * q)", "    new_q = round(len(df_feature) / len_df * q)\n    _n = df_feature.shape[0] / len_df")]),
    B("masks compared the other way round", [(F_BASE, "    values_to_group = [df_feature <= value for value in feature_values if value != str_nan]", "    values_to_group = [value >= df_feature for value in feature_values if value != str_nan]")]),
]
