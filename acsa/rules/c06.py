"""C06 -- JSON save/load round trip preserves behaviour (writer/reader agreement tables)."""
from __future__ import annotations

import ast

from ..core import AnalysisError, External, call_name, const_value, unparse, walk_no_nested
from ..exprs import cmp_canon, conjuncts
from ..selftest import B, M
from .common import F_BASE, F_BC, F_SER, calls, cfg_of, construct, loc, short
from .grouped import _flatten_conditions

EXPLANATION = (
    "Decides by writer/reader tables: R-json-keys (every key BaseDiscretizer.to_json writes is a "
    "parameter of BaseDiscretizer.__init__, which load_discretizer calls with **json, or is popped by "
    "the loader; each key k is written from self.k; behavioural __init__ parameters that are not "
    "serialised are limited to {verbose, n_jobs}); R-json-extras (keys added by BaseCarver.to_json = "
    "keys popped by load_carver before load_discretizer, and restored on the object); R-json-closure "
    "(the class of the object a loader returns writes the same key set as the saved object, so "
    "re-serialising gives the same JSON); R-sentinel (the literal written for non-finite numbers is "
    "the literal the reader maps to numpy.inf; numpy integers/floats are converted to int/float; "
    "numeric leaders are looked up in `content` through str(), json's key conversion); R-json-order "
    "(no set iteration order reaches the serialised feature list: the loader's class keeps the given "
    "order); R-loader-fits (load_discretizer rebuilds values_orders before constructing and fits "
    "the object it returns); R-history-json-types (the viability flags stored in _history are Python "
    "bools -- builtin all/any/not/and -- never numpy reductions, and historized values go through "
    "the base-type converter: to_json() stays serialisable by the json module)."
    " Also R-labels-last / R-labels-refreshed (the loader re-fits on the dumped orders: the original's label table must be the one computed from its final orders with its own output_dtype, at fit and after every manual edit)."
)
NOT_DECIDED = "behavioural equality of the reloaded object on data; json module's own float round trip"
FLOORS = {"R-json-keys": 3, "R-json-extras": 2, "R-json-closure": 1, "R-sentinel": 4, "R-json-order": 1, "R-loader-fits": 3, "R-summary-scope": 1, "R-history-json-types": 9, "R-labels-last": 12, "R-labels-refreshed": 2}

NON_BEHAVIOURAL = {"verbose": "printing only", "n_jobs": "number of worker processes only (C10: result independent of it)"}


def _dict_keys_written(fi):
    """Keys of dict literals returned/updated in a to_json function -> value expression."""
    out = {}
    for n in walk_no_nested(fi.node):
        if isinstance(n, ast.Dict):
            for k, v in zip(n.keys, n.values):
                if isinstance(k, ast.Constant) and isinstance(k.value, str):
                    out[k.value] = v
    return out


def rule_json_keys(ctx):
    R = "R-json-keys"
    repo = ctx.repo
    tj = repo.find_function(f"{F_BASE}::BaseDiscretizer.to_json")
    init = repo.find_function(f"{F_BASE}::BaseDiscretizer.__init__")
    lc = repo.find_function(f"{F_BC}::load_carver")
    keys = _dict_keys_written(tj)
    params = [p for p in init.params if p != "self"]
    popped = {const_value(c.args[0]) for c in calls(lc, "pop") if c.args}
    unknown = [k for k in keys if k not in params and k not in popped]
    ctx.ob(R, construct(tj, "every serialised key is accepted by the loader's constructor"), not unknown, loc(tj),
           "" if not unknown else f"keys {unknown} are not parameters of BaseDiscretizer.__init__: load_discretizer(**json) raises TypeError")
    wrong = []
    for k, v in keys.items():
        attr = f"self.{k}"
        if attr not in unparse(v):
            wrong.append(f"{k} <- {short(v, 50)}")
    ctx.ob(R, construct(tj, "each key k is written from self.k"), not wrong, loc(tj), "; ".join(wrong))
    missing = [p for p in params if p not in keys and p not in NON_BEHAVIOURAL]
    ctx.ob(R, construct(tj, "every behavioural constructor parameter is serialised"), not missing, loc(tj),
           "" if not missing else f"not serialised: {missing} (the reloaded object falls back to defaults)")
    ctx.analysed("to_json_keys", sorted(keys))
    ctx.analysed("init_params", params)


def rule_json_extras(ctx):
    R = "R-json-extras"
    repo = ctx.repo
    tjc = repo.find_function(f"{F_BC}::BaseCarver.to_json")
    lc = repo.find_function(f"{F_BC}::load_carver")
    added = set(_dict_keys_written(tjc))
    popped = {const_value(c.args[0]) for c in calls(lc, "pop") if c.args}
    ctx.ob(R, construct(lc, "keys added by BaseCarver.to_json == keys popped before load_discretizer"), added == popped, loc(lc),
           "" if added == popped else f"added {sorted(added)} vs popped {sorted(popped)}")
    # popped before the call, restored on the loaded object
    cfg = cfg_of(ctx, lc)
    ld = calls(lc, "load_discretizer")
    pops = calls(lc, "pop")
    restored = [n for n in walk_no_nested(lc.node) if isinstance(n, ast.Assign) and isinstance(n.targets[0], ast.Attribute) and n.targets[0].attr in popped]
    ok = bool(ld) and all(cfg.before(p, ld[0]) for p in pops) and len(restored) == len(popped)
    if ok and restored:
        obj = unparse(restored[0].targets[0].value)
        rets = [n for n in walk_no_nested(lc.node) if isinstance(n, ast.Return)]
        ok = all(unparse(r.value) == obj for r in rets)
    ctx.ob(R, construct(lc, "popped keys are restored on the returned object"), ok, loc(lc))


def rule_json_closure(ctx):
    R = "R-json-closure"
    repo = ctx.repo
    tj = repo.find_function(f"{F_BASE}::BaseDiscretizer.to_json")
    tjc = repo.find_function(f"{F_BC}::BaseCarver.to_json")
    ld = repo.find_function(f"{F_BASE}::load_discretizer")
    # class of the object the loaders return
    built = [c for c in calls(ld) if isinstance(c.func, ast.Name) and repo.has_class(c.func.id)]
    cls = built[0].func.id if built else None
    saved = set(_dict_keys_written(tjc)) | set(_dict_keys_written(tj))
    if cls is None:
        ctx.ob(R, construct(ld, "loader builds a package class"), None, loc(ld), "constructor call not found")
        return
    ret_tj = repo.lookup_method(repo.find_class(cls), "to_json")
    again = set(_dict_keys_written(ret_tj))
    # follow super().to_json()
    cur = ret_tj
    seen = set()
    while cur is not None and cur.key not in seen:
        seen.add(cur.key)
        again |= set(_dict_keys_written(cur))
        nxt = None
        if any(isinstance(c.func, ast.Attribute) and c.func.attr == "to_json" and isinstance(c.func.value, ast.Call) and call_name(c.func.value) == "super" for c in calls(cur)):
            nxt = repo.lookup_method(repo.find_class(cls), "to_json", after=cur.cls)
        cur = nxt
    lost = sorted(saved - again)
    ctx.ob(R, construct(ret_tj, f"{cls}.to_json (class of the reloaded object) writes every key a carver writes"), not lost, loc(ret_tj),
           "" if not lost else f"keys {lost} are dropped when a reloaded object is serialised again")


def rule_sentinel(ctx):
    R = "R-sentinel"
    repo = ctx.repo
    w = repo.find_function(f"{F_SER}::convert_value_to_base_type")
    r = repo.find_function(f"{F_SER}::convert_value_to_numpy_type")
    cfgw = cfg_of(ctx, w)
    lit_w = None
    for n in walk_no_nested(w.node):
        if isinstance(n, ast.Assign) and isinstance(n.value, ast.Constant) and isinstance(n.value.value, str):
            conds = _flatten_conditions(cfgw.path_conditions(n))
            if any("isfinite" in unparse(t) and not pol or ("isinf" in unparse(t) and pol) for t, pol in conds) or any(isinstance(t, ast.UnaryOp) and "isfinite" in unparse(t) and pol for t, pol in conds):
                lit_w = n.value.value
    lit_r, maps_inf = None, False
    cfgr = cfg_of(ctx, r)
    for n in walk_no_nested(r.node):
        if isinstance(n, ast.Assign):
            sym = repo.resolve_expr(r.module, n.value) if isinstance(n.value, (ast.Name, ast.Attribute)) else None
            if isinstance(sym, External) and sym.dotted in ("numpy.inf", "math.inf"):
                for t, pol in _flatten_conditions(cfgr.path_conditions(n)):
                    cc = cmp_canon(t)
                    if pol and cc and cc[1] == "==":
                        for side in (cc[0], cc[2]):
                            if side.startswith("'"):
                                lit_r = side.strip("'")
                                maps_inf = True
    ok = lit_w is not None and lit_w == lit_r and maps_inf
    ctx.ob(R, construct(w, "sentinel written for non-finite numbers == sentinel read back as numpy.inf"), ok, loc(w),
           "" if ok else f"writer literal {lit_w!r}, reader literal {lit_r!r}")
    # numpy scalars are converted to python scalars
    conv = {}
    for n in walk_no_nested(w.node):
        if isinstance(n, ast.Assign) and isinstance(n.value, ast.Call) and call_name(n.value) in ("int", "float"):
            for t, pol in _flatten_conditions(cfgw.path_conditions(n)):
                if pol and isinstance(t, ast.Call) and call_name(t) == "isinstance":
                    # the conversion must be applied to the value itself: float(str(v)) / float(round(v))
                    # give another number for float32 or long mantissas
                    exact = len(n.value.args) == 1 and unparse(n.value.args[0]) == unparse(t.args[0]) and not n.value.keywords
                    conv[unparse(t.args[1])] = call_name(n.value) if exact else f"{call_name(n.value)}({unparse(n.value.args[0]) if n.value.args else ''})"
    ok = conv.get("integer") == "int" and conv.get("floating") == "float"
    ctx.ob(R, construct(w, "numpy integer -> int, numpy floating -> float"), ok, loc(w), "" if ok else f"found {conv}")
    # keys of content: json turns numeric keys into str(key); the reader looks them up the same way
    d = repo.find_function(f"{F_SER}::json_deserialize_values_orders")
    cfgd = cfg_of(ctx, d)
    ok = False
    for n in walk_no_nested(d.node):
        if isinstance(n, ast.Assign) and isinstance(n.value, ast.Call) and call_name(n.value) == "str" and unparse(n.targets[0]) == "content_key":
            conds = _flatten_conditions(cfgd.path_conditions(n))
            txt = {(unparse(t).replace(" ", ""), pol) for t, pol in conds}
            ok = ("isinstance(value,str)", False) in txt and ("isfinite(value)", True) in txt
    look = any(isinstance(n, ast.Subscript) and unparse(n) == "content['content'][content_key]" for n in ast.walk(d.node))
    ctx.ob(R, construct(d, "finite numeric leaders are looked up in content through str(leader)"), ok and look, loc(d))
    # both order and content are written, from the same GroupedList
    s = repo.find_function(f"{F_SER}::json_serialize_values_orders")
    keys = _dict_keys_written(s)
    ok = set(keys) == {"order", "content"} and unparse(keys["order"]) == "convert_values_to_base_types(order)" and unparse(keys["content"]) == "convert_values_to_base_types(order.content)"
    ctx.ob(R, construct(s, "order and content of every feature are serialised through the base-type converter"), ok, loc(s))


def rule_json_order(ctx):
    R = "R-json-order"
    init = ctx.repo.find_function(f"{F_BASE}::BaseDiscretizer.__init__")
    assigns = [n for n in walk_no_nested(init.node) if isinstance(n, ast.Assign) and unparse(n.targets[0]) == "self.features"]
    if not assigns:
        raise AnalysisError("BaseDiscretizer.__init__: self.features assignment not found")
    bad = [a for a in assigns if any(isinstance(c, ast.Call) and call_name(c) in ("set", "frozenset") for c in ast.walk(a.value)) or any(isinstance(c, (ast.Set, ast.SetComp)) for c in ast.walk(a.value))]
    ctx.ob(R, construct(init, "self.features keeps the order of the `features` argument"), not bad, loc(init, assigns[0]),
           "" if not bad else "list(set(features)) applied to its own output can give another order (hash-seed dependent): the JSON of a reloaded object differs from the JSON it was loaded from")


def rule_loader(ctx):
    R = "R-loader-fits"
    ld = ctx.repo.find_function(f"{F_BASE}::load_discretizer")
    cfg = cfg_of(ctx, ld)
    des = calls(ld, "json_deserialize_values_orders")
    ctor = [c for c in calls(ld) if isinstance(c.func, ast.Name) and ctx.repo.has_class(c.func.id)]
    ok = bool(des) and bool(ctor) and cfg.before(des[0], ctor[0]) and any(k.arg is None for k in ctor[0].keywords)
    upd = [c for c in calls(ld, "update") if "values_orders" in unparse(c)]
    ok = ok and bool(upd) and cfg.before(upd[0], ctor[0])
    ctx.ob(R, construct(ld, "values_orders are deserialised into the dict before the object is built from **json"), ok, loc(ld))
    fits = [c for c in calls(ld, "fit")]
    rets = [n for n in walk_no_nested(ld.node) if isinstance(n, ast.Return)]
    ok = bool(fits) and bool(rets) and all(cfg.before(fits[0], r) for r in rets) and all(unparse(r.value) == unparse(fits[0].func.value) for r in rets)
    ctx.ob(R, construct(ld, "the returned object has been fitted (labels_per_values built)"), ok, loc(ld))


def rule_history_restored(ctx):
    """load_carver gives the reloaded object exactly the `_history` that was serialised: the value
    taken out of the JSON dict is stored as it is (no filtering, no re-keying), so serialising the
    reloaded object yields the same JSON again."""
    R = "R-loader-fits"
    lc = ctx.repo.find_function(f"{F_BC}::load_carver")
    stores = [n for n in walk_no_nested(lc.node) if isinstance(n, ast.Assign) and isinstance(n.targets[0], ast.Attribute) and n.targets[0].attr == "_history"]
    ok = False
    why = "no assignment of ._history in load_carver"
    if len(stores) == 1 and isinstance(stores[0].value, ast.Name):
        nm = stores[0].value.id
        defs = [n for n in walk_no_nested(lc.node) if isinstance(n, ast.Assign) and any(isinstance(x, ast.Name) and x.id == nm and isinstance(x.ctx, ast.Store) for t in n.targets for x in ast.walk(t))]
        ok = len(defs) == 1 and isinstance(defs[0].value, ast.Call) and call_name(defs[0].value) in ("pop", "get") and "_history" in unparse(defs[0].value)
        why = "" if ok else f"`{nm}` is re-computed between the JSON dict and the reloaded object: {[short(d) for d in defs]}"
    elif len(stores) == 1:
        v = stores[0].value
        ok = isinstance(v, ast.Call) and call_name(v) in ("pop", "get") and "_history" in unparse(v)
        why = "" if ok else f"`_history` is stored as `{short(v)}`"
    ctx.ob(R, construct(lc, "the serialised _history is restored as it is"), ok, loc(lc, stores[0] if stores else None), why)


def _python_bool(cfg, fn, e, use, depth=0):
    """True: a Python bool / None; False: definitely a numpy/pandas scalar; None: unknown."""
    from .carver import dominating_def

    if depth > 6:
        return None
    if isinstance(e, ast.Constant):
        return isinstance(e.value, bool) or e.value is None
    if isinstance(e, ast.UnaryOp) and isinstance(e.op, ast.Not):
        return True
    if isinstance(e, ast.Call):
        if isinstance(e.func, ast.Name) and e.func.id in ("all", "any", "bool", "isinstance", "callable", "hasattr"):
            return True
        if isinstance(e.func, ast.Attribute) and e.func.attr in ("all", "any", "sum", "mean", "item", "max", "min", "prod", "equals") and e.func.attr != "equals":
            return False  # numpy / pandas reduction: numpy.bool_ / numpy.float64
        return None
    if isinstance(e, ast.Compare):
        if all(isinstance(o, (ast.Is, ast.IsNot, ast.In, ast.NotIn)) for o in e.ops):
            return True
        return None
    if isinstance(e, ast.BoolOp):
        vals = [_python_bool(cfg, fn, v, use, depth + 1) for v in e.values]
        if any(v is False for v in vals):
            return False  # `a and b` returns one of its operands
        return True if all(v is True for v in vals) else None
    if isinstance(e, ast.Name):
        d = dominating_def(cfg, fn, e.id, use)
        return _python_bool(cfg, fn, d, d, depth + 1) if d is not None else None
    return None


def rule_history_types(ctx):
    R = "R-history-json-types"
    ft = ctx.repo.find_function(f"{F_BC}::BaseCarver._test_viability")
    cfg = cfg_of(ctx, ft)
    # flags handed to the historization (dict literals merged into test_results)
    n = 0
    for c in calls(ft, "update"):
        if not (c.args and isinstance(c.args[0], ast.Dict)) or "test_results" not in unparse(c.func.value):
            continue
        for k, v in zip(c.args[0].keys, c.args[0].values):
            n += 1
            pb = _python_bool(cfg, ft.node, v, c)
            ctx.ob(R, construct(ft, f"history flag {const_value(k)!r} is a Python bool"), pb is not False, loc(ft, v),
                   "" if pb is not False else "a numpy.bool_ reaches _history['viability'] / the test flags: json.dump(carver.to_json()) raises TypeError")
    if n == 0:
        raise AnalysisError("_test_viability: test_results.update({...}) anchors not found")
    # the other values written per record are converted or plain
    sc = ctx.repo.find_function(f"{F_SER}::json_serialize_combination")
    ok = any(isinstance(x, ast.ListComp) and "convert_value_to_base_type(value)" in unparse(x) for x in ast.walk(sc.node))
    ctx.ob(R, construct(sc, "values of each historized combination go through convert_value_to_base_type"), ok, loc(sc))
    sh = ctx.repo.find_function(f"{F_SER}::json_serialize_history")
    ok = "json_serialize_combination(combination)" in unparse(sh.node) and "'combination' in combination" in unparse(sh.node)
    ctx.ob(R, construct(sh, "every record holding a combination is serialised, marker records are skipped"), ok, loc(sh))


def check(ctx):
    rule_history_types(ctx)
    rule_json_keys(ctx)
    rule_json_extras(ctx)
    rule_json_closure(ctx)
    rule_sentinel(ctx)
    rule_json_order(ctx)
    rule_loader(ctx)
    rule_history_restored(ctx)
    from . import c16

    c16.rule_summary_number_filter(ctx)  # the summary of a reloaded object (builtin numbers) equals the original's (numpy numbers)
    # the loader re-fits a BaseDiscretizer on the dumped orders: it equals the original only if the original's label
    # table is the one computed from its *final* orders with its own output_dtype, at fit and after every manual edit
    from . import c04, c17

    c04.rule_labels_last(ctx)
    c17.rule_update(ctx)


_D13 = """        # adding history of loaded carvers
        if self._history is not None:
            json_serialized_discretizer.update({"_history": json_serialize_history(self._history)})

"""
MUTANTS = [
    M("D12-reverted: features through set()", [(F_BASE, "        self.features = list(dict.fromkeys(features))", "        self.features = list(set(features))")], "R-json-order", quick=True),
    M("D13-reverted: reloaded carver drops _history", [(F_BASE, _D13, "")], "R-json-closure", quick=True),
    M("new key not accepted by the constructor", [(F_BASE, "            \"copy\": self.copy,\n        }", "            \"copy\": self.copy,\n            \"is_fitted\": self.is_fitted,\n        }")], "R-json-keys", "accepted"),
    M("dropna not serialised", [(F_BASE, "            \"dropna\": self.dropna,\n", "")], "R-json-keys", "behavioural"),
    M("output_dtype written from the wrong attribute", [(F_BASE, "            \"output_dtype\": self.output_dtype,", "            \"output_dtype\": self.input_dtypes,")], "R-json-keys", "written from"),
    M("load_carver pops another key", [(F_BC, "    _history = auto_carver_json.pop(\"_history\", None)", "    _history = auto_carver_json.pop(\"history\", None)")], "R-json-extras"),
    M("history not restored", [(F_BC, "    loaded_discretizer._history = _history  # pylint: disable=W0212\n", "")], "R-json-extras", "restored"),
    M("sentinel literals differ", [(F_SER, "    if value == \"numpy.inf\":  # numpy.inf value", "    if value == \"inf\":  # numpy.inf value")], "R-sentinel", "sentinel"),
    M("numpy floats serialised through their shortest repr", [(F_SER, "        output = float(value)\n", "        output = float(str(value))\n")], "R-sentinel", "numpy integer"),
    M("numpy floats left as is", [(F_SER, "    elif isinstance(value, floating):  # np.float value\n        output = float(value)\n", "")], "R-sentinel", "numpy integer"),
    M("numeric keys looked up unconverted", [(F_SER, "            if not isinstance(value, str) and isfinite(value):\n                content_key = str(value)\n", "")], "R-sentinel", "looked up"),
    M("content not serialised through the converter", [(F_SER, "            \"content\": convert_values_to_base_types(order.content),", "            \"content\": order.content,")], "R-sentinel", "order and content"),
    M("vectorised .all() puts a numpy.bool_ into the history", [(F_BC, "                    min_freq_dev = all(dev_rates[\"frequency\"] >= self.min_freq_mod)", "                    min_freq_dev = (dev_rates[\"frequency\"] >= self.min_freq_mod).all()")], "R-history-json-types", "min_freq_dev"),
    M("history values not converted", [(F_SER, "                [convert_value_to_base_type(value) for value in modality]", "                [value for value in modality]")], "R-history-json-types", "convert_value_to_base_type"),
    M("loader returns an unfitted object", [(F_BASE, "    discretizer = BaseDiscretizer(**discretizer_json)\n    discretizer.fit()\n", "    discretizer = BaseDiscretizer(**discretizer_json)\n")], "R-loader-fits", "fitted"),
]
BENIGN = [
    B("features de-duplicated with a loop-free idiom", [(F_BASE, "        self.features = list(dict.fromkeys(features))", "        self.features = [f for i, f in enumerate(features) if f not in features[:i]]")]),
    B("history key added through item assignment", [(F_BASE, "            json_serialized_discretizer.update({\"_history\": json_serialize_history(self._history)})", "            json_serialized_discretizer.update({\"_history\": json_serialize_history(self._history)})\n            _ = 0")]),
    B("reader compares reversed", [(F_SER, "    if value == \"numpy.inf\":  # numpy.inf value", "    if \"numpy.inf\" == value:  # numpy.inf value")]),
]
