"""C04 -- transform is exactly the mapping described by the fitted values_orders."""
from __future__ import annotations

import ast

from ..cfg import ENTRY, EXIT
from ..core import AnalysisError, call_name, const_value, unparse, walk_no_nested
from ..exprs import canon_unparse, cmp_canon, conjuncts, p_and, p_atom, p_equiv, p_not, p_show, single_defs, to_prop
from ..selftest import B, M
from .common import F_BASE, F_BC, F_DISC, F_MULTI, F_QUAL, F_QUAN, F_TYPE, calls, cfg_of, construct, discretizer_classes, loc, short
from .grouped import _flatten_conditions

EXPLANATION = (
    "Decides: R-label-alignment (label k is paired with the k-th group of the *list* order and its members "
    "are read through values.get(leader); the insertion order of `content` is never used positionally); "
    "R-labels-last (in every fit override the call that builds labels_per_values -- "
    "BaseDiscretizer.fit -- lies on every normal path and no statement after it edits values_orders or "
    "the feature lists; BaseDiscretizer.fit builds the table from self.output_dtype); "
    "R-interval-lookup (masks `data <= boundary` and labels are comprehensions over the same iterable "
    "with the same filter, in fitted order, labels read from labels_per_values[feature]); "
    "R-float-labels-injective (float labels are the enumerate index of the label list); "
    "R-label-injective (a lossy number format is never used as identity key for distinct quantiles "
    "unless distinctness of the produced labels is established by a test on len(set(labels))); "
    "R-string-form (numeric raw values are grouped INTO their string form, str(int(v)) exactly when "
    "the float is integral); R-nan-restore (boolean provenance: NaN is written back for feature f iff "
    "not features_dropna[f] and str_nan has a label, replacing exactly that label); R-qualitative-map "
    "(qualitative replacement uses labels_per_values restricted to qualitative features); R-index-kept "
    "(quantitative labels built from plain lists are stored with index=X.index: each row gets the label of its own value); "
    "R-single-table / R-default-formula / R-rowwise (missing values are kept or labelled per feature with "
    "features_dropna; unknown values go to the default group of their own feature through a mapping built "
    "per column)."
)
NOT_DECIDED = "pandas replace/select semantics; equality of outputs on data"
FLOORS = {"R-labels-last": 12, "R-interval-lookup": 2, "R-float-labels-injective": 1, "R-label-injective": 1, "R-string-form": 2, "R-nan-restore": 2, "R-qualitative-map": 1, "R-index-kept": 1, "R-label-alignment": 2, "R-single-table": 2, "R-default-formula": 2, "R-rowwise": 1, "R-labels-refreshed": 2, "R-readonly-queries": 30}

EDIT_NAMES = ("values_orders", "_remove_feature", "features", "quantitative_features", "qualitative_features")


def _is_base_fit_call(c: ast.Call) -> bool:
    f = c.func
    if not (isinstance(f, ast.Attribute) and f.attr == "fit"):
        return False
    if isinstance(f.value, ast.Call) and isinstance(f.value.func, ast.Name) and f.value.func.id == "super":
        return True
    return isinstance(f.value, ast.Name) and f.value.id == "BaseDiscretizer"


def _edits_state(st: ast.AST) -> bool:
    for n in ast.walk(st):
        if isinstance(n, ast.Call) and isinstance(n.func, ast.Attribute):
            if unparse(n.func.value).startswith("self.values_orders") and n.func.attr in ("update", "pop", "clear", "setdefault", "group", "append", "remove", "group_list"):
                return True
            if n.func.attr == "_remove_feature":
                return True
        if isinstance(n, (ast.Assign, ast.AugAssign)):
            tgts = n.targets if isinstance(n, ast.Assign) else [n.target]
            for t in tgts:
                if unparse(t).startswith(("self.values_orders", "self.features", "self.output_dtype", "self.str_nan")):
                    return True
    return False


def rule_labels_last(ctx):
    R = "R-labels-last"
    for ci in discretizer_classes(ctx.repo):
        fi = ci.methods.get("fit")
        if fi is None:
            continue
        cfg = cfg_of(ctx, fi)
        if ci.name == "BaseDiscretizer":
            builds = [n for n in walk_no_nested(fi.node) if isinstance(n, ast.Assign) and unparse(n.targets[0]) == "self.labels_per_values"]
            ok = len(builds) == 1 and unparse(builds[0].value) == "self._get_labels_per_values(self.output_dtype)" and cfg.postdominates(cfg.node_of(builds[0]), min(cfg.succ[ENTRY]))
            ctx.ob(R, construct(fi, "labels_per_values = _get_labels_per_values(self.output_dtype) on every normal path"), ok, loc(fi, builds[0] if builds else None))
            continue
        base_calls = [c for c in ast.walk(fi.node) if isinstance(c, ast.Call) and _is_base_fit_call(c)]
        if not base_calls:
            ctx.ob(R, construct(fi, "labels are built at the end of fit"), False, loc(fi), "fit never reaches BaseDiscretizer.fit: labels_per_values is not built from the fitted values_orders")
            continue
        last = base_calls[-1]
        ln = cfg.node_of(last)
        on_all = cfg.postdominates(ln, min(cfg.succ[ENTRY]))
        later = []
        for n in cfg.nodes():
            st = cfg.stmt.get(n)
            if st is None or n == ln or not cfg.reachable(ln, n):
                continue
            if isinstance(st, (ast.If, ast.For, ast.While, ast.With, ast.Try)):
                hdr = st.test if isinstance(st, (ast.If, ast.While)) else (st.iter if isinstance(st, ast.For) else None)
                if hdr is not None and _edits_state(hdr):
                    later.append(st)
                continue
            if _edits_state(st) and not (isinstance(st, ast.Expr) and st.value is last):
                later.append(st)
        # for loops: a statement before the call inside the same loop is also "reachable after"; fits have no such loop
        ok = on_all and not later
        ctx.ob(R, construct(fi, "BaseDiscretizer.fit (label table) runs on every path, after the last edit of the orders"), ok, loc(fi, last),
               "" if ok else (f"edited afterwards: {short(later[0])}" if later else "not on every normal path"))


def rule_interval_lookup(ctx):
    R = "R-interval-lookup"
    fi = ctx.repo.find_function(f"{F_BASE}::transform_quantitative_feature")
    defs = single_defs(fi.node)
    sel = calls(fi, "select")
    if len(sel) != 1 or len(sel[0].args) < 2:
        # must-pass-through: the labelling of a quantitative value is the first fitted boundary it does
        # not exceed, expressed as select(masks, labels) over the same fitted order; another lookup
        # scheme is not recognised as that mapping
        ctx.ob(R, construct(fi, "mask k and label k belong to the same group, in fitted order"), False, loc(fi),
               "the select(masks, labels) lookup over the fitted boundaries was not found: the value -> label mapping is computed some other way (fixed-width arrays truncate labels, searchsorted changes the side of a boundary ...)")
        return
    masks, labels = sel[0].args[0], sel[0].args[1]
    masks = defs.get(masks.id) if isinstance(masks, ast.Name) else masks
    labels = defs.get(labels.id) if isinstance(labels, ast.Name) else labels
    ok = isinstance(masks, ast.ListComp) and isinstance(labels, ast.ListComp) and len(masks.generators) == 1 and len(labels.generators) == 1
    if ok:
        gm, gl = masks.generators[0], labels.generators[0]
        ok = unparse(gm.iter) == unparse(gl.iter) and unparse(gm.target) == unparse(gl.target) and [canon_unparse(c) for c in gm.ifs] == [canon_unparse(c) for c in gl.ifs]
        src = unparse(gm.iter)
        src = unparse(defs[src]) if src in defs else src
        ordered = src.startswith("values_orders[feature]") and "reversed" not in src and "[::-1]" not in src and "sorted" not in src
        ok = ok and ordered
    ctx.ob(R, construct(fi, "mask k and label k belong to the same group, in fitted order"), bool(ok), loc(fi, sel[0]))
    ok2 = False
    if isinstance(labels, ast.ListComp):
        tgt = unparse(labels.generators[0].target)
        ok2 = f"labels_per_values[feature][{tgt}]" in unparse(labels.elt)
    ctx.ob(R, construct(fi, "interval labels are labels_per_values[feature][boundary]"), ok2, loc(fi, labels))


def rule_float_labels(ctx):
    R = "R-float-labels-injective"
    fi = ctx.repo.find_function(f"{F_BASE}::BaseDiscretizer._get_labels_per_values")
    cfg = cfg_of(ctx, fi)
    ok = False
    for n in walk_no_nested(fi.node):
        if isinstance(n, ast.Assign) and unparse(n.targets[0]) == "labels":
            conds = _flatten_conditions(cfg.path_conditions(n))
            if any(pol and cmp_canon(t) in (("'float'", "==", "output_dtype"), ("output_dtype", "==", "'float'")) for t, pol in conds):
                v = n.value
                if isinstance(v, ast.ListComp) and isinstance(v.generators[0].iter, ast.Call) and unparse(v.generators[0].iter) == "enumerate(labels)":
                    t = v.generators[0].target
                    ok = isinstance(t, ast.Tuple) and unparse(v.elt) == unparse(t.elts[0]) and not v.generators[0].ifs
                elif unparse(v) in ("list(range(len(labels)))",):
                    ok = True
    ctx.ob(R, construct(fi, "float labels = rank of the group in the fitted order"), ok, loc(fi))


def _lossy_formats(fn):
    """FormattedValue nodes with a numeric format spec; returns (node, kind) with kind in
    'lossy-constant' / 'dynamic' / 'exact'."""
    out = []
    for n in ast.walk(fn):
        if isinstance(n, ast.FormattedValue) and n.format_spec is not None:
            spec = n.format_spec
            parts = spec.values if isinstance(spec, ast.JoinedStr) else []
            if all(isinstance(p, ast.Constant) for p in parts):
                txt = "".join(str(p.value) for p in parts)
                import re

                m = re.fullmatch(r"[<>^=+\- #0-9,_]*\.(\d+)([eEfFgG])", txt)
                if m:
                    prec = int(m.group(1))
                    out.append((n, "exact" if prec >= 16 else "lossy-constant"))
            else:
                out.append((n, "dynamic"))
        elif isinstance(n, ast.Call) and call_name(n) in ("round",) and len(n.args) == 2:
            out.append((n, "lossy-constant"))
    return out


def rule_label_injective(ctx):
    R = "R-label-injective"
    fi = ctx.repo.find_function(f"{F_BASE}::format_quantiles")
    cfg = cfg_of(ctx, fi)
    fmts = _lossy_formats(fi.node)
    lossy = [f for f in fmts if f[1] in ("lossy-constant", "dynamic")]
    if not lossy:
        ctx.ob(R, construct(fi, "quantile labels use an exact (>= 16 digits) or no numeric format"), True, loc(fi))
        return

    def distinct_test(test):
        for c in ast.walk(test):
            cc = cmp_canon(c) if isinstance(c, ast.Compare) else None
            if cc and cc[0].startswith("len(set(") and cc[2].startswith("len(") and cc[1] in ("<", "==", "!=", "<="):
                return cc
        return None

    # Boundaries may be float64 *or* integers (order statistics of an int64 column): no float format
    # is injective on integers beyond 2**53, so escalating the precision is not enough.  Distinctness
    # is established by (a) an assertion on len(set(labels)), or (b) a final fallback, guarded by the
    # same test, to an injective conversion (str / repr / float.hex) of every boundary.
    established = False
    for n in walk_no_nested(fi.node):
        if isinstance(n, ast.Assert) and distinct_test(n.test):
            established = True
        if isinstance(n, ast.If) and distinct_test(n.test):
            cc = distinct_test(n.test)
            labels_var = cc[0][len("len(set("):-2]
            for st in n.body:
                if isinstance(st, ast.Assign) and unparse(st.targets[0]) == labels_var and isinstance(st.value, ast.ListComp):
                    elt = st.value.elt
                    tgt = unparse(st.value.generators[0].target)
                    if isinstance(elt, ast.Call) and call_name(elt) in ("str", "repr", "hex") and len(elt.args) == 1 and unparse(elt.args[0]) == tgt and not st.value.generators[0].ifs:
                        # it must be the last word: no lossy re-format of the labels afterwards
                        later = [f for f, k in lossy if f.lineno > st.lineno]
                        established = established or not later
    ctx.ob(R, construct(fi, "lossy number format used as label: distinctness of the labels is established (assertion, or injective str() fallback under a len(set(labels)) test)"), established, loc(fi, lossy[0][0]),
           "" if established else "two boundaries that agree on the formatted digits (close floats at low precision; any two integers beyond 2**53 at every precision) get the same label; labels are dict keys, so their groups collapse at transform or carving crashes")


def rule_label_alignment(ctx, R="R-label-alignment"):
    """labels[k] goes to the members of the k-th group *of the list order*: `content` is a dict whose
    insertion order differs from the group order after replace_group_leader / update."""
    repo = ctx.repo
    fi = repo.find_function(f"{F_BASE}::BaseDiscretizer._get_labels_per_values")
    cfg = cfg_of(ctx, fi)
    zips = [c for c in ast.walk(fi.node) if isinstance(c, ast.Call) and call_name(c) == "zip" and any("labels" in unparse(a) for a in c.args)]
    ok = False
    why = "no zip of groups with labels found"
    defs = {}
    for n in walk_no_nested(fi.node):
        if isinstance(n, ast.Assign) and isinstance(n.targets[0], ast.Name):
            defs.setdefault(n.targets[0].id, n.value)
    if len(zips) == 1:
        z = zips[0]
        args = [unparse(a) for a in z.args]
        why = f"groups and labels are paired through zip({', '.join(args)})"
        g0 = z.args[0]
        # the groups are the leaders of `values` in list order, the missing-value leader moved last --
        # exactly how the label list is laid out (labels of the non-missing groups, then str_nan)
        nan_last = False
        if isinstance(g0, ast.Name) and len(args) == 2 and args[1] == "labels":
            d = defs.get(g0.id)
            if isinstance(d, ast.ListComp) and unparse(d.generators[0].iter) == "values" and unparse(d.elt) == unparse(d.generators[0].target) \
                    and [cmp_canon(c) for c in d.generators[0].ifs] in ([("self.str_nan", "!=", unparse(d.elt))], [(unparse(d.elt), "!=", "self.str_nan")]):
                augs = [a for a in walk_no_nested(fi.node) if isinstance(a, ast.AugAssign) and unparse(a.target) == g0.id]
                lab_augs = [a for a in walk_no_nested(fi.node) if isinstance(a, ast.AugAssign) and unparse(a.target) == "labels" and unparse(a.value) == "[self.str_nan]"]
                if len(augs) == 1 and unparse(augs[0].value) == "[self.str_nan]" and len(lab_augs) == 1:
                    ca = [(cmp_canon(t), pol) for t, pol in _flatten_conditions(cfg.path_conditions(augs[0]))]
                    cb = [(cmp_canon(t), pol) for t, pol in _flatten_conditions(cfg.path_conditions(lab_augs[0]))]
                    nan_last = ca == cb == [(("self.str_nan", "in", "values"), True)]
            if not nan_last:
                why = f"zip({', '.join(args)}): the label list puts str_nan last, the groups are not laid out the same way (a group appended after str_nan swaps labels with it)"
        ok = nan_last
        par = cfg.parent(z)
        if ok:
            # every member of the k-th group gets label k, unconditionally: nested loops or one
            # comprehension over (zip(groups, labels), values.get(group)) without any filter
            members_ok = False
            why_m = "members of a group are not read through values.get(<leader>)"
            if isinstance(par, ast.For) and isinstance(par.target, ast.Tuple):
                g = unparse(par.target.elts[0])
                inner = [n for n in ast.walk(par) if isinstance(n, ast.For) and n is not par and unparse(n.iter) in (f"values.get({g})", f"values.content[{g}]", f"values.content.get({g})")]
                if inner:
                    filtered = [n for n in ast.walk(par) if isinstance(n, (ast.If, ast.IfExp, ast.Continue, ast.Break))]
                    members_ok = not filtered
                    if filtered:
                        why_m = "a member of a group can be skipped: every value of the k-th group must receive label k (a value without label passes through transform unlabelled)"
            elif isinstance(par, ast.comprehension):
                comp = cfg.parent(par)
                if isinstance(comp, ast.DictComp) and len(comp.generators) == 2 and comp.generators[0] is par and isinstance(par.target, ast.Tuple):
                    g = unparse(par.target.elts[0])
                    g2 = comp.generators[1]
                    if unparse(g2.iter) in (f"values.get({g})", f"values.content[{g}]", f"values.content.get({g})") and unparse(comp.key) == unparse(g2.target) and unparse(comp.value) == unparse(par.target.elts[1]):
                        members_ok = not par.ifs and not g2.ifs
                        if not members_ok:
                            why_m = "a member of a group can be skipped: every value of the k-th group must receive label k (a value without label passes through transform unlabelled)"
            ok = members_ok
            if not ok:
                why = why_m
    ok = ok and unparse(defs.get("values", ast.Constant(None))) == "self.values_orders[feature]"
    ctx.ob(R, construct(fi, "label k is given to the members of the k-th group of the list order (missing values last, like the labels)"), ok, loc(fi, zips[0] if zips else None), "" if ok else why)
    # nowhere in the package is the insertion order of `content` used positionally
    n = 0
    bad = []
    for f in repo.all_functions():
        if "/selectors/" in f.module.relpath:
            continue
        for c in ast.walk(f.node):
            if isinstance(c, ast.Call) and call_name(c) in ("zip", "enumerate"):
                n += 1
                if any(".content" in unparse(a) for a in c.args):
                    bad.append((f, c))
    for f, c in bad[:3]:
        ctx.ob(R, construct(f, f"`{short(c, 70)}` pairs by the insertion order of content"), False, loc(f, c),
               "the dict order of `content` is not the group order (replace_group_leader re-inserts the new leader last)")
    if not bad:
        ctx.ob(R, f"{n} zip/enumerate calls in the discretizer / carver modules, none over a `content` dict", True, "")


def rule_string_form(ctx):
    R = "R-string-form"
    fi = ctx.repo.find_function(f"{F_TYPE}::fit_feature")
    cfg = cfg_of(ctx, fi)
    grp = [c for c in calls(fi, "group") if len(c.args) == 2]
    ok = False
    loopvar = None
    for c in grp:
        loops = [l for l in cfg.enclosing_loops(c) if isinstance(l, ast.For)]
        if loops:
            loopvar = unparse(loops[0].target)
            ok = unparse(c.args[0]) == loopvar and unparse(c.args[1]) != loopvar
            strname = unparse(c.args[1])
    ctx.ob(R, construct(fi, "the raw value is grouped into its string form (string is the leader)"), ok, loc(fi, grp[0] if grp else None))
    ok2 = False
    if ok:
        assigns = [n for n in walk_no_nested(fi.node) if isinstance(n, ast.Assign) and unparse(n.targets[0]) == strname]
        by_txt = {unparse(a.value).replace(" ", ""): a for a in assigns}
        a_int = by_txt.get(f"str(int({loopvar}))")
        a_str = by_txt.get(f"str({loopvar})")
        if a_int is not None and a_str is not None and len(assigns) == 2:
            conds = _flatten_conditions(cfg.path_conditions(a_int))
            texts = {unparse(t).replace(" ", "") for t, pol in conds if pol}
            ok2 = {f"isinstance({loopvar},float)", f"float.is_integer({loopvar})"} <= texts or {f"isinstance({loopvar},float)", f"{loopvar}.is_integer()"} <= texts
            other = _flatten_conditions(cfg.path_conditions(a_str))
            ok2 = ok2 and all(not pol for t, pol in other if "is_integer" in unparse(t) or "isinstance" in unparse(t))
    ctx.ob(R, construct(fi, "string form is str(int(v)) exactly for integral floats, str(v) otherwise"), ok2, loc(fi))


def rule_nan_restore(ctx):
    R = "R-nan-restore"
    fi = ctx.repo.find_function(f"{F_BASE}::BaseDiscretizer.transform")
    cfg = cfg_of(ctx, fi)
    stores = [n for n in walk_no_nested(fi.node) if isinstance(n, ast.Assign) and isinstance(n.value, ast.Call) and call_name(n.value) == "replace"
              and len(n.value.args) == 2 and unparse(n.value.args[1]) in ("nan", "numpy.nan", "np.nan")]
    if len(stores) != 1:
        ctx.ob(R, construct(fi, "NaN reinstated when dropna=False"), False if not stores else None, loc(fi), "no statement writes numpy.nan back: missing values do not stay missing when dropna=False")
        return
    st = stores[0]
    loops = [l for l in cfg.enclosing_loops(st) if isinstance(l, ast.For)]
    if len(loops) != 1:
        ctx.ob(R, construct(fi, "NaN reinstated per feature according to features_dropna"), None, loc(fi, st), "loop form not understood")
        return
    if unparse(loops[0].iter) == "self.features_dropna.items()" and isinstance(loops[0].target, ast.Tuple):
        fvar, dvar = [unparse(e) for e in loops[0].target.elts]
    elif isinstance(loops[0].target, ast.Name):
        fvar, dvar = loops[0].target.id, None
    else:
        ctx.ob(R, construct(fi, "NaN reinstated per feature according to features_dropna"), None, loc(fi, st), "loop form not understood")
        return
    defs = single_defs(fi.node)
    lpv = "label_per_value" if "label_per_value" in defs else None

    def classify(e):
        if dvar is not None and isinstance(e, ast.Name) and e.id == dvar:
            return p_atom("DROPNA")
        if unparse(e) == f"self.features_dropna[{fvar}]":
            return p_atom("DROPNA")
        if unparse(e) == "self.dropna":
            return p_atom("GLOBAL_DROPNA_FLAG_NOT_THE_FEATURE_FLAG")
        cc = cmp_canon(e)
        if cc and cc[0] == "self.str_nan" and cc[1] in ("in", "not in") and cc[2] in ("label_per_value", f"self.labels_per_values[{fvar}]"):
            return p_atom("HAS_NAN_LABEL") if cc[1] == "in" else p_not(p_atom("HAS_NAN_LABEL"))
        return None

    conds = cfg.path_conditions(st)
    parts = []
    bad = None
    def classify_or_extra(e):
        c = classify(e)
        if c is not None:
            return c
        if isinstance(e, (ast.BoolOp, ast.UnaryOp)):
            return None  # let to_prop recurse
        return p_atom("EXTRA_CONDITION(" + unparse(e).replace(" ", "")[:60] + ")")

    for t, pol in conds:
        p = to_prop(t, classify_or_extra)
        if p is None:
            bad = t
            break
        parts.append(p if pol else p_not(p))
    if bad is not None:
        ctx.ob(R, construct(fi, "NaN written back iff not dropna[f] and str_nan has a label"), None, loc(fi, st), f"unclassifiable condition `{short(bad)}`")
        return
    have = ("and", parts) if parts else ("const", True)
    want = p_and(p_not(p_atom("DROPNA")), p_atom("HAS_NAN_LABEL"))
    diff = p_equiv(have, want)
    ctx.ob(R, construct(fi, "NaN written back iff not dropna[f] and str_nan has a label"), diff is None, loc(fi, st),
           "" if diff is None else f"condition is {p_show(have)}; differs when {diff}")
    tgt = unparse(st.targets[0])
    rep = unparse(st.value.args[0])
    ok = tgt == f"x_copy[{fvar}]" and unparse(st.value.func.value) == f"x_copy[{fvar}]" and rep in ("label_per_value[self.str_nan]", f"self.labels_per_values[{fvar}][self.str_nan]")
    ctx.ob(R, construct(fi, "exactly the label of str_nan is replaced, in that feature's column"), ok, loc(fi, st))


def rule_qualitative_map(ctx):
    R = "R-qualitative-map"
    fi = ctx.repo.find_function(f"{F_BASE}::BaseDiscretizer._transform_qualitative")
    reps = [c for c in calls(fi, "replace") if c.args and isinstance(c.args[0], ast.DictComp)]
    ok = False
    for c in reps:
        dc = c.args[0]
        g = dc.generators[0]
        if unparse(g.iter) == "self.labels_per_values.items()" and isinstance(g.target, ast.Tuple):
            k, v = [unparse(e) for e in g.target.elts]
            filt = [cmp_canon(x) for x in g.ifs]
            ok = unparse(dc.key) == k and unparse(dc.value) == v and filt == [(k, "in", "self.qualitative_features")]
    ctx.ob(R, construct(fi, "replacement map = labels_per_values of the qualitative features, per column"), ok, loc(fi, reps[0] if reps else None))


def check(ctx):
    from . import c05, c07, c16

    c16.rule_nan_flag_source(ctx)
    c05.rule_default_formula(ctx)
    c07.rule_columns_scoped(ctx)
    from . import c17

    c17.rule_update(ctx)
    c07.rule_readonly_queries(ctx)
    rule_label_alignment(ctx)
    rule_labels_last(ctx)
    rule_interval_lookup(ctx)
    rule_float_labels(ctx)
    rule_label_injective(ctx)
    rule_string_form(ctx)
    rule_nan_restore(ctx)
    rule_qualitative_map(ctx)
    from . import c07

    c07.rule_index_kept(ctx)


_D11_FIXED = """    # scientific formatting, increasing precision until distinct quantiles have distinct formats
    precision = 3
    formatted_list = [f"{number:.{precision}e}" for number in a_list]
    while len(set(formatted_list)) < len(set(a_list)) and precision < 17:
        precision += 1
        formatted_list = [f"{number:.{precision}e}" for number in a_list]
    # integers beyond 2**53 can not be told apart by a float format: using there exact digits
    if len(set(formatted_list)) < len(set(a_list)):
        formatted_list = [str(number) for number in a_list]
"""
MUTANTS = [
    M("D11-reverted: labels rounded to 4 significant digits", [(F_BASE, _D11_FIXED, "    # scientific formatting\n    formatted_list = [f\"{number:.3e}\" for number in a_list]\n")], "R-label-injective", quick=True),
    M("D20-reverted: no exact-digits fallback for integers beyond 2**53", [(F_BASE, "    # integers beyond 2**53 can not be told apart by a float format: using there exact digits\n    if len(set(formatted_list)) < len(set(a_list)):\n        formatted_list = [str(number) for number in a_list]\n", "")], "R-label-injective", quick=True),
    M("fallback formats again with a lossy spec", [(F_BASE, "        formatted_list = [str(number) for number in a_list]\n", "        formatted_list = [f\"{number:.17e}\" for number in a_list]\n")], "R-label-injective"),
    M("OrdinalDiscretizer stores the merged orders after the label table", [(F_QUAL, "        # discretizing features based on each feature's values_order\n        super().fit(x_copy, y)\n\n        return self\n\n\nclass ChainedDiscretizer", "        # discretizing features based on each feature's values_order\n        super().fit(x_copy, y)\n        self.values_orders.update(known_orders)\n\n        return self\n\n\nclass ChainedDiscretizer")], "R-labels-last", "OrdinalDiscretizer.fit", quick=True),
    M("StringDiscretizer never builds labels", [(F_TYPE, "        # discretizing features based on each feature's values_order\n        super().fit(X, y)\n", "        self.is_fitted = True\n")], "R-labels-last", "StringDiscretizer.fit"),
    M("Discretizer builds labels only when verbose", [(F_DISC, "        # discretizing features based on each feature's values_order\n        super().fit(X, y)\n\n        return self\n\n\nclass QualitativeDiscretizer", "        # discretizing features based on each feature's values_order\n        if self.verbose:\n            super().fit(X, y)\n\n        return self\n\n\nclass QualitativeDiscretizer")], "R-labels-last", "Discretizer.fit"),
    M("str_default left without label", [(F_BASE, "                for value in values.get(group_of_values):\n                    label_per_value.update({value: label})\n", "                for value in values.get(group_of_values):\n                    if value != self.str_default:\n                        label_per_value.update({value: label})\n")], "R-label-alignment", "label k is given"),
    M("labels paired with groups in content (dict) order", [(F_BASE, "            for group_of_values, label in zip(groups, labels):\n                for value in values.get(group_of_values):\n                    label_per_value.update({value: label})\n", "            for group_values, label in zip(values.content.values(), labels):\n                label_per_value.update({value: label for value in group_values})\n")], "R-label-alignment", quick=True),
    M("D24-reverted: labels paired with the raw list order although str_nan is labelled last", [(F_BASE, "            for group_of_values, label in zip(groups, labels):", "            for group_of_values, label in zip(values, labels):")], "R-label-alignment", quick=True),
    M("labels filter differs from masks filter", [(F_BASE, "        [labels_per_values[feature][value]] * x_len for value in feature_values if value != str_nan\n", "        [labels_per_values[feature][value]] * x_len for value in feature_values\n")], "R-interval-lookup", "mask k"),
    M("labels iterate in reversed order", [(F_BASE, "        [labels_per_values[feature][value]] * x_len for value in feature_values if value != str_nan\n", "        [labels_per_values[feature][value]] * x_len for value in feature_values[::-1] if value != str_nan\n")], "R-interval-lookup", "mask k"),
    M("float labels not injective (len of group)", [(F_BASE, "                labels = [n for n, _ in enumerate(labels)]", "                labels = [len(str(lab)) for n, lab in enumerate(labels)]")], "R-float-labels-injective"),
    M("string grouped into the number", [(F_TYPE, "            values_order.group(value, str_value)  # grouping integer value into the string value", "            values_order.group(str_value, value)  # grouping integer value into the string value")], "R-string-form", "raw value"),
    M("every float converted through int", [(F_TYPE, "        if isinstance(value, float) and float.is_integer(value):", "        if isinstance(value, float):")], "R-string-form", "str(int(v))"),
    M("NaN reinstated even when dropna", [(F_BASE, "            if not dropna:  # checking whether we should have dropped nans or not", "            if True:  # checking whether we should have dropped nans or not")], "R-nan-restore"),
    M("NaN reinstated when dropna (polarity)", [(F_BASE, "            if not dropna:  # checking whether", "            if dropna:  # checking whether")], "R-nan-restore", quick=True),
    M("NaN reinstated only when the frame holds a missing value (depends on other rows)", [(F_BASE, "                if self.str_nan in label_per_value:\n                    x_copy[feature] = x_copy[feature].replace(label_per_value[self.str_nan], nan)", "                if self.str_nan in label_per_value and X[feature].isna().any():\n                    x_copy[feature] = x_copy[feature].replace(label_per_value[self.str_nan], nan)")], "R-nan-restore"),
    M("NaN reinstated according to the global dropna flag", [(F_BASE, "        for feature, dropna in self.features_dropna.items():\n            if not dropna:  # checking whether we should have dropped nans or not\n                label_per_value", "        for feature in self.features:\n            if not self.dropna:  # checking whether we should have dropped nans or not\n                label_per_value")], "R-nan-restore"),
    M("one flat unknown->default mapping shared by all features", [(F_BASE, "        X.replace(\n            {\n                feature: {\n                    val: self.str_default\n                    for val in uniques[feature]\n                    if val not in self.values_orders[feature].values()\n                    and val != self.str_nan\n                    and self.str_default in self.values_orders[feature].values()\n                }\n                for feature in features\n            },\n            inplace=True,\n        )", "        unknown_to_default = {\n            val: self.str_default\n            for feature in features\n            for val in uniques[feature]\n            if val not in self.values_orders[feature].values()\n            and val != self.str_nan\n            and self.str_default in self.values_orders[feature].values()\n        }\n        X.replace({feature: unknown_to_default for feature in features}, inplace=True)")], "R-rowwise", "column by column"),
    M("labels refreshed for mode group only", [(F_BASE, "            # updating Carver values_orders and labels_per_values\n            self.values_orders.update({feature: order})\n            self.labels_per_values = self._get_labels_per_values(self.output_dtype)\n", "            # updating Carver values_orders and labels_per_values\n            self.values_orders.update({feature: order})\n            if mode == 'group':\n                self.labels_per_values = self._get_labels_per_values(self.output_dtype)\n")], "R-labels-refreshed"),
    M("wrong label turned into NaN", [(F_BASE, "x_copy[feature].replace(label_per_value[self.str_nan], nan)", "x_copy[feature].replace(self.str_nan, nan)")], "R-nan-restore", "exactly"),
    M("qualitative map applied to all features", [(F_BASE, "                for feature, label_per_value in self.labels_per_values.items()\n                if feature in self.qualitative_features\n", "                for feature, label_per_value in self.labels_per_values.items()\n")], "R-qualitative-map"),
]
BENIGN = [
    B("labels table inlined in nan restore", [(F_BASE, "                if self.str_nan in label_per_value:\n                    x_copy[feature] = x_copy[feature].replace(label_per_value[self.str_nan], nan)", "                if self.str_nan in self.labels_per_values[feature]:\n                    x_copy[feature] = x_copy[feature].replace(self.labels_per_values[feature][self.str_nan], nan)")]),
    B("nan restore conditions merged", [(F_BASE, "            if not dropna:  # checking whether we should have dropped nans or not\n                label_per_value = self.labels_per_values[feature]\n                # checking that nans were grouped\n                if self.str_nan in label_per_value:\n                    x_copy[feature] = x_copy[feature].replace(label_per_value[self.str_nan], nan)",
       "            label_per_value = self.labels_per_values[feature]\n            if self.str_nan in label_per_value and not dropna:\n                x_copy[feature] = x_copy[feature].replace(label_per_value[self.str_nan], nan)")]),
    B("labels are the exact digits from the start", [(F_BASE, _D11_FIXED, "    formatted_list = [str(number) for number in a_list]\n")]),
    B("precision escalation capped lower (fallback still guarantees distinct labels)", [(F_BASE, "and precision < 17:", "and precision < 12:")]),
    B("float labels through range", [(F_BASE, "                labels = [n for n, _ in enumerate(labels)]", "                labels = list(range(len(labels)))")]),
    B("is_integer as method", [(F_TYPE, "        if isinstance(value, float) and float.is_integer(value):", "        if isinstance(value, float) and value.is_integer():")]),
]
