"""C07 -- fit/transform coherence, row-wise purity, no side effects."""
from __future__ import annotations

import ast

from ..core import AnalysisError, call_name, kwarg, unparse, walk_no_nested
from ..flow import expr_tainted, tainted_names
from ..selftest import B, M
from .common import (
    F_BASE, F_BC, F_DISC, F_QUAL, F_QUAN, F_TYPE,
    cfg_of, concrete_classes, construct, discretizer_classes, loc, path_str, short,
)

EXPLANATION = (
    "Decides, for every concrete discretizer/carver class, on /repo's current sources: "
    "R-transform-readonly (no function reachable from transform writes or mutates anything reachable "
    "from self, under copy=True and copy=False); R-copy-true (with copy=True neither fit nor "
    "transform mutates the caller's X, y, X_dev, y_dev: every mutated frame descends from a fresh "
    "copy; internal objects get their literal copy= flag); R-fit-returns-self (every fit override "
    "returns self on all normal exits, as sklearn's fit_transform needs); R-fit-transform (no class "
    "overrides fit_transform, the base derives from TransformerMixin); R-index-kept (frames/series "
    "built from plain lists and stored into X carry index=X.index); R-rowwise (no cross-row "
    "aggregate has a data dependence into what transform stores or returns; a test on any()/all() of "
    "the rows may only guard assertions and writes restricted to exactly those rows; frame-wide "
    "replacements are keyed by feature, one column each); R-readonly-queries (summary, to_json and the "
    "label-table builder have no effect on self, so they cannot change what a later transform returns)."
)
NOT_DECIDED = "equality of frames on data; pandas' own copy-on-write semantics"
FLOORS = {"R-guard-first": 12, "R-transform-readonly": 24, "R-copy-true": 24, "R-fit-returns-self": 12, "R-index-kept": 1, "R-rowwise": 12, "R-fit-transform": 2, "R-readonly-queries": 30, "R-nan-assert": 3}

CALLER_DATA = ("p:X", "p:y", "p:X_dev", "p:y_dev")

# cross-row aggregates: their result depends on other rows than the current one
AGGREGATES = {
    "value_counts", "groupby", "quantile", "mean", "median", "rank", "shift", "cumsum", "cumprod", "cummax",
    "cummin", "sort_values", "crosstab", "sum", "std", "var", "mode", "nunique", "duplicated",
    "drop_duplicates", "corr", "describe", "idxmax", "idxmin", "argmax", "argmin", "argsort", "searchsorted",
    "percentile", "nanmean", "nanmedian", "cut", "qcut", "factorize", "get_dummies", "rolling", "expanding",
    "ewm", "diff", "pct_change", "min", "max", "count", "sample", "shuffle", "interpolate", "ffill", "bfill",
}


def rule_transform_readonly(ctx):
    eng = ctx.effects
    for ci in concrete_classes(ctx.repo):
        for cp in (True, False):
            fi, summ = eng.method_summary(ci, "transform", cp)
            bad = [e for e in summ.events if e.path[0] == "self"]
            seen = set()
            for e in bad:
                k = (e.fn, e.expr, e.path)
                if k in seen:
                    continue
                seen.add(k)
                ctx.ob("R-transform-readonly", f"{ci.name}.transform::{e.fn}::{e.kind} {path_str(e.path)}::{e.expr}", False, e.where,
                       "transform modifies fitted state; call chain: " + " | ".join(e.chain[:4]))
            if not bad:
                ctx.ob("R-transform-readonly", f"{ci.name}.transform[copy={cp}]::no effect on self", True, loc(fi))


def rule_copy_true(ctx):
    eng = ctx.effects
    for ci in concrete_classes(ctx.repo):
        for meth in ("fit", "transform"):
            fi, summ = eng.method_summary(ci, meth, True)
            bad = [e for e in summ.events if e.kind == "mut" and e.path[0] in CALLER_DATA]
            seen = set()
            for e in bad:
                k = (e.fn, e.expr, e.path)
                if k in seen:
                    continue
                seen.add(k)
                ctx.ob("R-copy-true", f"{ci.name}.{meth}[copy=True]::{e.fn}::mutates {path_str(e.path)[2:]}::{e.expr}", False, e.where,
                       "the caller's data is modified although copy=True; call chain: " + " | ".join(e.chain[:4]))
            if not bad:
                ctx.ob("R-copy-true", f"{ci.name}.{meth}[copy=True]::caller's X, y, X_dev, y_dev untouched", True, loc(fi))
            ctx.analysed("functions_reached", [f.qualname for f in eng.reachable(fi, ci, True)])


def rule_fit_returns_self(ctx):
    for ci in discretizer_classes(ctx.repo):
        fi = ci.methods.get("fit")
        if fi is None:
            continue
        cfg = cfg_of(ctx, fi)
        from ..cfg import EXIT

        bad = []
        for p in cfg.pred[EXIT]:
            st = cfg.stmt.get(p)
            if not cfg.is_reachable_from_entry(p):
                continue
            if isinstance(st, ast.Return) and isinstance(st.value, ast.Name) and st.value.id == "self":
                continue
            bad.append(st)
        ctx.ob("R-fit-returns-self", construct(fi, "every normal exit returns self"), not bad, loc(fi, bad[0] if bad else None),
               "" if not bad else f"exit without `return self`: {short(bad[0]) if bad[0] is not None else 'end of function'}")


def rule_fit_transform(ctx):
    repo = ctx.repo
    over = [c.name for c in discretizer_classes(repo) if "fit_transform" in c.methods]
    ctx.ob("R-fit-transform", "no discretizer class overrides fit_transform", not over, "", f"overridden in {over}" if over else "")
    base = repo.find_class("BaseDiscretizer")
    ext = repo.external_bases(base)
    ok = any(x.endswith("TransformerMixin") for x in ext)
    ctx.ob("R-fit-transform", "BaseDiscretizer derives from sklearn TransformerMixin (fit_transform = fit(X, y).transform(X))", ok, loc(base),
           "" if ok else f"bases: {ext}")


def rule_index_kept(ctx):
    eng = ctx.effects
    base = ctx.repo.find_class("BaseDiscretizer")
    fi_t = ctx.repo.lookup_method(base, "transform")
    n = 0
    for fi in eng.reachable(fi_t, base, None):
        params = set(fi.params)
        for node in walk_no_nested(fi.node):
            if not isinstance(node, ast.Assign):
                continue
            for t in node.targets:
                if not isinstance(t, ast.Subscript):
                    continue
                root = t.value
                while isinstance(root, (ast.Subscript, ast.Attribute)):
                    root = root.value
                if not (isinstance(root, ast.Name) and root.id in params):
                    continue
                v = node.value
                if isinstance(v, ast.Name):
                    from ..exprs import single_defs

                    v = single_defs(fi.node).get(v.id, v)
                if isinstance(v, ast.Call) and call_name(v) in ("DataFrame", "Series"):
                    n += 1
                    idx = kwarg(v, "index")
                    ok = idx is not None and unparse(idx) == f"{root.id}.index"
                    ctx.ob("R-index-kept", construct(fi, f"{call_name(v)}(...) stored into {root.id} carries index={root.id}.index"), ok, loc(fi, v),
                           "" if ok else "a frame built from plain lists gets a RangeIndex: rows are misaligned for any other index of X")
    if n == 0:
        ctx.ob("R-index-kept", "no frame built from lists is stored into X in transform", True, loc(fi_t))


def _is_aggregate(n: ast.AST) -> bool:
    return isinstance(n, ast.Call) and call_name(n) in AGGREGATES


def rule_rowwise(ctx):
    eng = ctx.effects
    base = ctx.repo.find_class("BaseDiscretizer")
    fi_t = ctx.repo.lookup_method(base, "transform")
    for fi in eng.reachable(fi_t, base, None):
        if fi.cls is not None and fi.cls.name == "GroupedList":
            continue  # works on fitted state, not on rows
        aggs = [n for n in walk_no_nested(fi.node) if _is_aggregate(n)]
        tainted = tainted_names(fi.node, _is_aggregate)
        bad = []
        for node in walk_no_nested(fi.node):
            # sinks: values stored into frames / returned / passed to select or replace
            if isinstance(node, ast.Assign) and any(isinstance(t, ast.Subscript) for t in node.targets):
                if expr_tainted(node.value, tainted, _is_aggregate):
                    bad.append(node)
            elif isinstance(node, ast.Return) and node.value is not None:
                if expr_tainted(node.value, tainted - set(fi.params), _is_aggregate):
                    # returning a frame that only *contains* tainted stores is caught at the store
                    if not (isinstance(node.value, ast.Name)):
                        bad.append(node)
            elif isinstance(node, ast.Call) and call_name(node) in ("select", "replace", "where", "mask", "map"):
                if any(expr_tainted(a, tainted, _is_aggregate) for a in list(node.args) + [k.value for k in node.keywords]):
                    bad.append(node)
        for b in bad:
            ctx.ob("R-rowwise", construct(fi, f"cross-row aggregate flows into {short(b, 70)}"), False, loc(fi, b),
                   "the label of a row would depend on other rows of the transformed frame")
        if not bad:
            ctx.ob("R-rowwise", construct(fi, f"{len(aggs)} aggregate call(s), none reaches a stored/returned value"), True, loc(fi))


def rule_columns_scoped(ctx):
    """Value replacements applied at transform are scoped to one fitted column each: a flat mapping
    {value: label} given to DataFrame.replace rewrites every column of the frame (other features,
    non-feature columns), so a row's label depends on which other values exist in the frame."""
    R = "R-rowwise"
    eng = ctx.effects
    base = ctx.repo.find_class("BaseDiscretizer")
    fi_t = ctx.repo.lookup_method(base, "transform")
    n = 0
    for fi in eng.reachable(fi_t, base, None):
        for c in walk_no_nested(fi.node):
            if not (isinstance(c, ast.Call) and isinstance(c.func, ast.Attribute) and c.func.attr == "replace" and c.args):
                continue
            recv = unparse(c.func.value)
            if "[" in recv:  # a single column / series: scoped by construction
                continue
            if recv not in fi.params and recv not in ("x_copy", "X"):
                continue
            n += 1
            a0 = c.args[0]
            ok = False
            if isinstance(a0, ast.DictComp) and len(c.args) == 1:
                g = a0.generators[0]
                key_is_feature = unparse(a0.key) in (unparse(g.target), unparse(g.target.elts[0]) if isinstance(g.target, ast.Tuple) else "")
                over_features = "features" in unparse(g.iter) or "labels_per_values" in unparse(g.iter)
                # the inner mapping is the feature's own: it mentions the feature variable, or is the
                # second component of the (feature, mapping) pairs being iterated
                fvar = unparse(a0.key)
                own = any(isinstance(x, ast.Name) and x.id == fvar for x in ast.walk(a0.value)) or (
                    isinstance(g.target, ast.Tuple) and len(g.target.elts) == 2 and unparse(a0.value) == unparse(g.target.elts[1]))
                nested = isinstance(a0.value, (ast.DictComp, ast.Name, ast.Subscript)) and own
                ok = key_is_feature and over_features and nested
            ctx.ob(R, construct(fi, f"{recv}.replace(...) maps values column by column ({{feature: {{value: label}}}})"), ok, loc(fi, c),
                   "" if ok else "a mapping that is not keyed by feature applies to every column of the frame")
    if n == 0:
        ctx.ob(R, "no frame-wide replace in the transform path", True, "")


def rule_aggregate_control(ctx):
    """A test on an aggregate of the frame (any / all over rows) may only guard assertions and writes
    restricted to the very rows the aggregate ranges over; anything else makes a row's label depend on
    whether *other* rows have the tested quality."""
    R = "R-rowwise"
    eng = ctx.effects
    base = ctx.repo.find_class("BaseDiscretizer")
    fi_t = ctx.repo.lookup_method(base, "transform")
    REDUCERS = {"any", "all"}
    for fi in eng.reachable(fi_t, base, None):
        if fi.cls is not None and fi.cls.name == "GroupedList":
            continue
        cfg = cfg_of(ctx, fi)
        params = set(fi.params)
        # row-derived names: parameters that are frames / columns, and whatever is computed from them
        seeds = {p for p in params if p in ("X", "x_copy", "df_feature", "x")} | ({"x_copy"} if fi.name == "transform" else set())
        rowish = tainted_names(fi.node, lambda n: False, seeds=seeds)

        def reduced(e):
            """(arg text) if e is any(<row-derived>) / <row-derived>.any() ..."""
            if isinstance(e, ast.Call):
                if isinstance(e.func, ast.Name) and e.func.id in REDUCERS and len(e.args) == 1 and expr_tainted(e.args[0], rowish, lambda n: False):
                    if isinstance(e.args[0], (ast.GeneratorExp, ast.ListComp)):
                        return None  # python-level scan of a small collection (uniques), not of rows
                    return unparse(e.args[0])
                if isinstance(e.func, ast.Attribute) and e.func.attr in REDUCERS and not e.args and expr_tainted(e.func.value, rowish, lambda n: False):
                    return unparse(e.func.value)
            return None

        # names holding such an aggregate
        agg_names = {}
        for n in walk_no_nested(fi.node):
            if isinstance(n, ast.Assign) and len(n.targets) == 1 and isinstance(n.targets[0], ast.Name):
                for sub in ast.walk(n.value):
                    r = reduced(sub)
                    if r is not None:
                        agg_names[n.targets[0].id] = r
        bad = []
        checked = 0
        for st in walk_no_nested(fi.node):
            if not isinstance(st, ast.Assign) or not any(isinstance(t, ast.Subscript) for t in st.targets):
                continue
            tgt = [t for t in st.targets if isinstance(t, ast.Subscript)][0]
            root = tgt.value
            while isinstance(root, (ast.Subscript, ast.Attribute)):
                root = root.value
            if not (isinstance(root, ast.Name) and (root.id in rowish)):
                continue
            for test, pol in cfg.path_conditions(st):
                aggs = []
                for sub in ast.walk(test):
                    r = reduced(sub)
                    if r is not None:
                        aggs.append(r)
                    if isinstance(sub, ast.Name) and sub.id in agg_names:
                        aggs.append(agg_names[sub.id])
                for a in aggs:
                    checked += 1
                    mask = unparse(tgt.slice)
                    if mask != a:
                        bad.append((st, a))
        for st, a in bad[:3]:
            ctx.ob(R, construct(fi, f"`{short(st, 60)}` is guarded by an aggregate over `{a}` but is not restricted to those rows"), False, loc(fi, st),
                   "the label of a row changes with the presence of other rows: a subset of the frame is transformed differently")
        if not bad:
            ctx.ob(R, construct(fi, f"{checked} aggregate-guarded write(s), each restricted to the rows the aggregate ranges over"), True, loc(fi))


def rule_readonly_queries(ctx):
    """summary(), to_json() and the label-table builder only read the fitted state: otherwise a
    later transform differs from an earlier one (frozen exception: history() annotates its own stored
    records with their feature name, which no other code reads)."""
    R = "R-readonly-queries"
    eng = ctx.effects
    for ci in concrete_classes(ctx.repo):
        for meth in ("summary", "to_json", "_get_labels_per_values"):
            fi = ctx.repo.lookup_method(ci, meth)
            if fi is None:
                continue
            summ = eng.summary(fi, ci, None)
            bad = [e for e in summ.events if e.path[0] == "self"]
            seen = set()
            for e in bad:
                k = (e.fn, e.expr)
                if k in seen:
                    continue
                seen.add(k)
                ctx.ob(R, f"{ci.name}.{meth}::{e.fn}::{e.kind} {path_str(e.path)}::{e.expr}", False, e.where,
                       "a query method modifies the fitted state: transform / to_json after it differ from before")
            if not bad:
                ctx.ob(R, f"{ci.name}.{meth}::no effect on self", True, loc(fi))


def check(ctx):
    rule_readonly_queries(ctx)
    rule_columns_scoped(ctx)
    rule_aggregate_control(ctx)
    rule_transform_readonly(ctx)
    rule_copy_true(ctx)
    rule_fit_returns_self(ctx)
    rule_fit_transform(ctx)
    rule_index_kept(ctx)
    rule_rowwise(ctx)
    from . import c05

    c05.rule_nan_assert(ctx)  # missing rows are addressed with the boolean mask isna(df_feature), not positions
    from . import c19

    c19.rule_guard_first(ctx)  # a refused re-fit leaves the fitted state alone: later transforms are unchanged


MUTANTS = [
    M("copy flag ignored in _prepare_data", [(F_BASE, "        if self.copy:\n            x_copy = X.copy()\n", "")], "R-copy-true", "BaseDiscretizer.transform", quick=True),
    M("copy condition inverted", [(F_BASE, "        if self.copy:\n            x_copy = X.copy()", "        if not self.copy:\n            x_copy = X.copy()")], "R-copy-true"),
    M("X passed instead of x_copy to _transform_qualitative", [(F_BASE, "            x_copy = self._transform_qualitative(x_copy, y)", "            x_copy = self._transform_qualitative(X, y)")], "R-copy-true", "transform"),
    M("ContinuousDiscretizer.fit casts the caller's columns in place", [(F_QUAN, "        # storing ordering\n        all_orders = []\n", "        # storing ordering\n        all_orders = []\n        X[self.quantitative_features] = X[self.quantitative_features].astype(float)\n")], "R-copy-true", "ContinuousDiscretizer.fit"),
    M("OrdinalDiscretizer replaces str_nan in the caller's frame", [(F_QUAL, "            x_copy = x_copy.replace(self.str_nan, nan)\n", "            X.replace(self.str_nan, nan, inplace=True)\n")], "R-copy-true", "OrdinalDiscretizer.fit"),
    M("MulticlassCarver binarises y in place", [("AutoCarver/carvers/multiclass_carver.py", "        # converting target as str\n        y_copy = y.astype(str)\n", "        # converting target as str\n        y.update(y.astype(str))\n        y_copy = y\n")], "R-copy-true", "MulticlassCarver.fit"),
    M("cache written in transform", [(F_BASE, "        # copying dataframes and casting for multiclass\n        x_copy = self.__prepare_data(X, y)", "        # copying dataframes and casting for multiclass\n        x_copy = self.__prepare_data(X, y)\n        self._last_columns = list(x_copy.columns)")], "R-transform-readonly", quick=True),
    M("transform drops features missing from X (mutates fitted state)", [(F_BASE, "        # transforming quantitative features\n        if len(self.quantitative_features) > 0:", "        for feature in [f for f in self.features if f not in x_copy]:\n            self._remove_feature(feature)\n        # transforming quantitative features\n        if len(self.quantitative_features) > 0:")], "R-transform-readonly"),
    M("unknown values learnt at transform", [(F_BASE, "        # checking for unexpected values for each feature\n        for feature in features:\n            # unexpected values for this feature\n            unexpected = [\n                val for val in uniques[feature] if val not in self.values_orders[feature].values()\n            ]\n",
       "        # checking for unexpected values for each feature\n        for feature in features:\n            # unexpected values for this feature\n            unexpected = [\n                val for val in uniques[feature] if val not in self.values_orders[feature].values()\n            ]\n            for val in unexpected:\n                self.values_orders[feature].append(val)\n")], "R-transform-readonly"),
    M("summary overwrites the fitted label table", [(F_BASE, "        labels_per_values: dict[str, dict[Any, Any]] = {}\n\n        # iterating over each feature", "        labels_per_values: dict[str, dict[Any, Any]] = self.labels_per_values\n\n        # iterating over each feature")], "R-readonly-queries", "summary"),
    M("index=X.index dropped", [(F_BASE, "{feature: values for feature, values in all_transformed}, index=X.index\n", "{feature: values for feature, values in all_transformed}\n")], "R-index-kept", quick=True),
    M("return self dropped in OrdinalDiscretizer.fit", [(F_QUAL, "        # discretizing features based on each feature's values_order\n        super().fit(x_copy, y)\n\n        return self", "        # discretizing features based on each feature's values_order\n        super().fit(x_copy, y)")], "R-fit-returns-self", "OrdinalDiscretizer"),
    M("fit returns the result of super().fit only when verbose", [(F_TYPE, "        super().fit(X, y)\n\n        return self", "        super().fit(X, y)\n        if self.verbose:\n            return self")], "R-fit-returns-self", "StringDiscretizer"),
    M("quantitative labels by rank of the value in the frame", [(F_BASE, "    # list of masks of values to replace with there respective group\n    values_to_group = [df_feature <= value for value in feature_values if value != str_nan]",
       "    # list of masks of values to replace with there respective group\n    ranks = df_feature.rank(pct=True)\n    values_to_group = [ranks <= 0.5 for value in feature_values if value != str_nan]")], "R-rowwise"),
    M("NaN reinstated only when the frame holds a missing value", [(F_BASE, "                if self.str_nan in label_per_value:\n                    x_copy[feature] = x_copy[feature].replace(label_per_value[self.str_nan], nan)", "                if self.str_nan in label_per_value and x_copy[feature].isna().any():\n                    x_copy[feature] = x_copy[feature].replace(label_per_value[self.str_nan], nan)")], "R-rowwise", "aggregate"),
    M("default replacement applied frame-wide", [(F_BASE, "        X.replace(\n            {\n                feature: {\n                    val: self.str_default\n                    for val in uniques[feature]\n                    if val not in self.values_orders[feature].values()\n                    and val != self.str_nan\n                    and self.str_default in self.values_orders[feature].values()\n                }\n                for feature in features\n            },\n            inplace=True,\n        )", "        X.replace(\n            {\n                val: self.str_default\n                for feature in features\n                for val in uniques[feature]\n                if val not in self.values_orders[feature].values()\n                and val != self.str_nan\n                and self.str_default in self.values_orders[feature].values()\n            },\n            inplace=True,\n        )")], "R-rowwise", "column by column"),
    M("one flat unknown->default mapping shared by all features", [(F_BASE, "        X.replace(\n            {\n                feature: {\n                    val: self.str_default\n                    for val in uniques[feature]\n                    if val not in self.values_orders[feature].values()\n                    and val != self.str_nan\n                    and self.str_default in self.values_orders[feature].values()\n                }\n                for feature in features\n            },\n            inplace=True,\n        )", "        unknown_to_default = {\n            val: self.str_default\n            for feature in features\n            for val in uniques[feature]\n            if val not in self.values_orders[feature].values()\n            and val != self.str_nan\n            and self.str_default in self.values_orders[feature].values()\n        }\n        X.replace({feature: unknown_to_default for feature in features}, inplace=True)")], "R-rowwise", "column by column"),
    M("nan filled with the column's mode", [(F_BASE, "        if nan_value != str_nan:\n            df_feature[nans] = nan_value", "        if nan_value != str_nan:\n            df_feature[nans] = df_feature.mode()[0]")], "R-rowwise"),
    M("y mutated in ChainedDiscretizer-style fillna inplace", [(F_QUAL, "        # checking for binary target\n        x_copy = super()._prepare_data(X, y)\n\n        # checks and initilizes", "        # checking for binary target\n        x_copy = super()._prepare_data(X, y)\n        y.fillna(0, inplace=True)\n\n        # checks and initilizes")], "R-copy-true", "CategoricalDiscretizer.fit"),
]
BENIGN = [
    B("copy written as a conditional expression", [(F_BASE, "        x_copy = X\n        if self.copy:\n            x_copy = X.copy()", "        x_copy = X.copy() if self.copy else X")]),
    B("transform keeps a local cache", [(F_BASE, "        # copying dataframes and casting for multiclass\n        x_copy = self.__prepare_data(X, y)", "        # copying dataframes and casting for multiclass\n        x_copy = self.__prepare_data(X, y)\n        seen_columns = list(x_copy.columns)\n        seen_columns.append('x')")]),
    B("aggregate used for validation only in transform", [(F_BASE, "    # keeping track of nans\n    nans = isna(df_feature)\n", "    # keeping track of nans\n    nans = isna(df_feature)\n    n_nans = nans.sum()\n    assert n_nans >= 0\n")]),
    B("frame rebuilt with explicit index variable", [(F_BASE, "{feature: values for feature, values in all_transformed}, index=X.index\n", "{feature: values for feature, values in all_transformed},\n            index=X.index,\n")]),
    B("fit returns self through early return", [(F_TYPE, "        super().fit(X, y)\n\n        return self", "        if self.verbose:\n            super().fit(X, y)\n            return self\n        super().fit(X, y)\n        return self")]),
]
