"""C19 -- malformed inputs are refused up-front with AssertionError; a rejected refit leaves the
fitted object unchanged."""
from __future__ import annotations

import ast
from typing import Callable, List, Optional

from ..core import AnalysisError, FunctionInfo, call_name, unparse, walk_no_nested
from ..exprs import cmp_canon, conjuncts, inline, mentions, single_defs
from ..selftest import B, M
from .common import (
    F_BASE, F_BC, F_BIN, F_CONT, F_DISC, F_MULTI, F_QUAL, F_QUAN, F_TYPE,
    asserts_in, calls, cfg_of, concrete_classes, construct, discretizer_classes, loc, path_str, short,
)

EXPLANATION = (
    "Decides, on /repo's current sources: R-guard-first (effect analysis + flow: for every concrete "
    "discretizer/carver class, on every path of fit, no write to / in-place mutation of any state "
    "reachable from self happens before the refit guard `assert not self.is_fitted` has executed); "
    "R-validation-table (each malformed-input class of the statement maps to an assert with the "
    "right predicate in the named validator, not nested under unrelated conditions); R-assert-only "
    "(no raise of another exception type in the discretizer/carver modules); R-index-compare (the "
    "element-wise comparison of X.index and y.index is preceded by a length test); R-validation-reached "
    "(call graph: every concrete class' fit reaches the common validator, and no _prepare_data override "
    "dereferences X before the base validator has asserted its type); R-forward-target (every call of a "
    "_prepare_data validator, at fit and at transform, hands over the caller's own y / y_dev with X / X_dev)."
)
NOT_DECIDED = "behaviour of pandas on exotic malformed inputs; implicit exceptions inside library calls"
FLOORS = {"R-guard-first": 12, "R-validation-table": 16, "R-index-compare": 1, "R-assert-only": 2, "R-validation-reached": 20, "R-forward-target": 24}


# ---------------------------------------------------------------------------------------------
def rule_guard_first(ctx):
    repo = ctx.repo
    eng = ctx.effects
    for ci in concrete_classes(repo):
        fi, summ = eng.method_summary(ci, "fit", None)
        bad = [e for e in summ.events if e.path[0] == "self" and not e.guarded]
        where = loc(fi)
        if not summ.ends_guarded:
            ctx.ob("R-guard-first", f"{ci.name}.fit::refit guard executed on every path", False, where,
                   "fit can complete without evaluating `assert not self.is_fitted`")
        seen = set()
        for e in bad:
            k = (e.fn, e.expr, e.path)
            if k in seen:
                continue
            seen.add(k)
            ctx.ob(
                "R-guard-first",
                f"{ci.name}.fit::{e.fn}::{e.kind} {path_str(e.path)}::{e.expr}",
                False,
                e.where,
                "state of self modified before the refit guard; call chain: " + " | ".join(e.chain[:4]),
            )
        if not bad and summ.ends_guarded:
            n = sum(1 for e in summ.events if e.path[0] == "self")
            ctx.ob("R-guard-first", f"{ci.name}.fit::all {n} self-effects guarded", True, where)
        ctx.analysed("fit_entry_points", [f"{ci.name}.fit -> {fi.qualname}"])


# ---------------------------------------------------------------------------------------------
def _find_assert(fi: FunctionInfo, pred: Callable[[ast.expr, ast.Assert], bool]) -> List[ast.Assert]:
    defs = single_defs(fi.node)
    out = []
    for a in asserts_in(fi):
        t = inline(fi.node, a.test, defs=defs)
        try:
            if pred(t, a):
                out.append(a)
        except Exception:
            continue
    return out


def _has_conj(t: ast.expr, pred: Callable[[ast.expr], bool]) -> bool:
    return any(pred(c) for c in conjuncts(t))


def _is_isinstance(c: ast.expr, var: str, typ: str) -> bool:
    return (
        isinstance(c, ast.Call)
        and call_name(c) == "isinstance"
        and len(c.args) == 2
        and isinstance(c.args[0], ast.Name)
        and c.args[0].id == var
        and mentions(c.args[1], typ)
    )


def _cmp(c: ast.expr):
    return cmp_canon(c)


def _len_cmp(c: ast.expr, op: str, const: str, *needles: str) -> bool:
    """``len(V) <op> const`` in canonical orientation, V mentioning the needles."""
    cc = cmp_canon(c)
    if cc is None:
        return False
    l, o, r = cc
    for side, other in ((l, r), (r, l)):
        if side.startswith("len(") and other == const:
            inner = side
            if all(n in inner for n in needles):
                # orientation: canonical form puts the smaller side left for < and <=
                if o == "==":
                    return op == "=="
                if side == r and o == op:  # const < len(V)
                    return True
                if side == l and o == op and op in ("==",):
                    return True
    return False


def _allowed_conditions(ctx, fi: FunctionInfo, a: ast.Assert) -> bool:
    """The assert may only be nested under `<param> is not None` tests of an *optional* parameter
    (default None: y, X_dev, y_dev).  A required argument that is None is malformed, not absent:
    `if X is not None:` around X's own type assertion lets fit(None, y) through (defect D26)."""
    cfg = cfg_of(ctx, fi)
    dfl = fi.param_defaults()
    optional = {p for p, d in dfl.items() if isinstance(d, ast.Constant) and d.value is None}
    for test, pol in cfg.path_conditions(a):
        cc = cmp_canon(test)
        ok = cc is not None and cc[2] == "None" and ((cc[1] == "is not" and pol) or (cc[1] == "is" and not pol))
        if ok and cc[0] in fi.params and cc[0] not in optional:
            return False
        if not ok:
            # `if "sort_by" in kwargs:` guards ContinuousCarver's sort_by check: the check is only
            # needed when the key is given
            if cc is not None and cc[1] == "in" and pol and "kwargs" in cc[2]:
                continue
            return False
    return True


def rule_validation_table(ctx):
    repo = ctx.repo
    R = "R-validation-table"

    def entry(name: str, spec: str, pred, detail: str):
        fi = repo.find_function(spec)
        found = _find_assert(fi, pred)
        found_ok = [a for a in found if _allowed_conditions(ctx, fi, a)]
        c = construct(fi, name)
        if found_ok:
            ctx.ob(R, c, True, loc(fi, found_ok[0]))
        elif found:
            ctx.ob(R, c, False, loc(fi, found[0]), "the assertion only runs under an unrelated condition: " + detail)
        else:
            ctx.ob(R, c, False, loc(fi), "no assertion with this predicate: " + detail)

    P = f"{F_BASE}::BaseDiscretizer._prepare_data"
    entry("X is a DataFrame", P, lambda t, a: _has_conj(t, lambda c: _is_isinstance(c, "X", "DataFrame")),
          "isinstance(X, DataFrame)")
    entry("y is a Series", P, lambda t, a: _has_conj(t, lambda c: _is_isinstance(c, "y", "Series")),
          "isinstance(y, Series)")

    def no_nan(t, a):
        for c in conjuncts(t):
            neg = False
            e = c
            while isinstance(e, ast.UnaryOp) and isinstance(e.op, ast.Not):
                neg = not neg
                e = e.operand
            if isinstance(e, ast.Call) and call_name(e) in ("any", "all") and mentions(e, "y"):
                if call_name(e) == "any" and neg and (mentions(e, "isna") or mentions(e, "isnull")):
                    return True
                if call_name(e) == "all" and not neg and (mentions(e, "notna") or mentions(e, "notnull")):
                    return True
            if isinstance(e, ast.Attribute) and e.attr == "hasnans" and neg and mentions(e, "y"):
                return True
        return False

    entry("y has no missing value", P, no_nan, "not any(y.isna())")

    def same_index(t, a):
        for c in conjuncts(t):  # must be a top-level conjunct, not an alternative of something else
            if isinstance(c, ast.Call) and call_name(c) == "all":
                for n in ast.walk(c):
                    if isinstance(n, ast.Compare) and len(n.ops) == 1 and isinstance(n.ops[0], ast.Eq):
                        if {unparse(n.left), unparse(n.comparators[0])} == {"y.index", "X.index"}:
                            return True
            if isinstance(c, ast.Call) and call_name(c) == "equals" and mentions(c, "index", "X", "y"):
                return True
        return False

    entry("X and y have the same index", P, same_index, "all(y.index == X.index)")

    def missing_cols(t, a):
        for c in conjuncts(t):
            cc = cmp_canon(c)
            if cc and cc[1] == "==" and "0" in (cc[0], cc[2]) and mentions(c, "features") and any(
                isinstance(n, ast.Compare) and isinstance(n.ops[0], ast.NotIn) for n in ast.walk(c)
            ):
                return True
        return False

    entry("every feature is a column of X", P, missing_cols, "len([f for f in self.features if f not in x_copy]) == 0")

    # the dev sample goes through the same validator
    fi = repo.find_function(f"{F_BC}::BaseCarver._prepare_data")
    ok = any(
        call_name(c) == "_prepare_data" and c.args and isinstance(c.args[0], ast.Name) and c.args[0].id == "X_dev"
        for c in calls(fi)
    )
    ctx.ob(R, construct(fi, "X_dev / y_dev validated like X / y"), ok, loc(fi),
           "" if ok else "BaseCarver._prepare_data no longer passes X_dev through BaseDiscretizer._prepare_data")
    entry("y is provided", f"{F_BC}::BaseCarver._prepare_data",
          lambda t, a: _has_conj(t, lambda c: cmp_canon(c) == ("y", "is not", "None")), "y is not None")

    def binary(t, a):
        return True

    def binary_pred(fi_spec):
        fi = repo.find_function(fi_spec)
        defs = single_defs(fi.node)
        conj = []
        for a in asserts_in(fi):
            if _allowed_conditions(ctx, fi, a):
                conj += conjuncts(inline(fi.node, a.test, defs=defs))
        canon = [cmp_canon(c) for c in conj]
        return fi, [c for c in canon if c is not None]

    fi, canon = binary_pred(f"{F_BIN}::BinaryCarver._prepare_data")
    uniq = lambda s: "unique" in s and "y" in s  # noqa: E731
    has0 = any(c[0] == "0" and c[1] == "in" and uniq(c[2]) for c in canon)
    has1 = any(c[0] == "1" and c[1] == "in" and uniq(c[2]) for c in canon)
    two = any(c[1] == "==" and {"2"} & {c[0], c[2]} and any(s.startswith("len(") and uniq(s) for s in (c[0], c[2])) for c in canon)
    ctx.ob(R, construct(fi, "binary target: classes are exactly {0, 1}"), has0 and has1 and two, loc(fi),
           "" if (has0 and has1 and two) else f"needs `0 in unique(y)`, `1 in unique(y)` and `len(unique(y)) == 2`; found {canon}")

    fi, canon = binary_pred(f"{F_MULTI}::MulticlassCarver._prepare_data")
    gt2 = any(c[0] == "2" and c[1] == "<" and c[2].startswith("len(") and "unique" in c[2] and "y" in c[2] for c in canon)
    ctx.ob(R, construct(fi, "multiclass target: more than 2 classes"), gt2, loc(fi),
           "" if gt2 else f"needs `len(unique(y)) > 2`; found {canon}")

    fi, canon = binary_pred(f"{F_CONT}::ContinuousCarver._prepare_data")
    gt2 = any(c[0] == "2" and c[1] == "<" and c[2].startswith("len(") and "unique" in c[2] and "y" in c[2] for c in canon)
    ctx.ob(R, construct(fi, "continuous target: more than 2 values"), gt2, loc(fi),
           "" if gt2 else f"needs `len(unique(y)) > 2`; found {canon}")
    entry("continuous target: not strings", f"{F_CONT}::ContinuousCarver._prepare_data",
          lambda t, a: mentions(t, "str", "y", "type"), "str not in y.apply(type).unique()")

    def disjoint(t, a):
        return (
            mentions(t, "quantitative_features", "qualitative_features", "ordinal_features")
            and any(isinstance(n, ast.Compare) and isinstance(n.ops[0], ast.NotIn) for n in ast.walk(t))
            and any(isinstance(n, ast.Call) and call_name(n) == "all" for n in ast.walk(t))
        )

    entry("quantitative and qualitative/ordinal features are disjoint", f"{F_BC}::BaseCarver.__init__", disjoint,
          "all(f not in quantitative_features for f in qualitative_features + ordinal_features)")
    entry("quantitative columns hold no string", f"{F_QUAN}::ContinuousDiscretizer._prepare_data",
          lambda t, a: mentions(t, "str", "type", "features") and any(isinstance(n, ast.Call) and call_name(n) in ("all", "any") for n in ast.walk(t)),
          "not any(column.apply(lambda u: str in u.map(type).values))")
    entry("quantitative columns hold no string", f"{F_DISC}::QuantitativeDiscretizer._prepare_data",
          lambda t, a: mentions(t, "str", "type", "features") and any(isinstance(n, ast.Call) and call_name(n) == "all" for n in ast.walk(t)),
          "all(~(dtypes.apply(lambda u: str in u)))")

    # ordinal values are checked against the ranking
    fi = repo.find_function(f"{F_DISC}::QualitativeDiscretizer._prepare_data")
    cs = [c for c in calls(fi, "_check_new_values") if any(mentions(k.value, "ordinal_features") for k in c.keywords) or any(mentions(x, "ordinal_features") for x in c.args)]
    cfg = cfg_of(ctx, fi)
    ok = bool(cs) and all(not cfg.path_conditions(c) for c in cs[:1])
    ctx.ob(R, construct(fi, "values of ordinal features are checked against values_orders"), ok, loc(fi, cs[0] if cs else None),
           "" if ok else "no unconditional call self._check_new_values(..., features=self.ordinal_features)")

    def unexpected(t, a):
        return any(
            (cc := cmp_canon(c)) and cc[1] == "==" and "0" in (cc[0], cc[2]) and mentions(c, "values_orders", "values")
            and any(isinstance(n, ast.Compare) and isinstance(n.ops[0], ast.NotIn) for n in ast.walk(c))
            for c in conjuncts(t)
        )

    entry("unknown values are rejected", f"{F_BASE}::BaseDiscretizer._check_new_values", unexpected,
          "len([v for v in uniques[f] if v not in self.values_orders[f].values()]) == 0")

    def sortby_in(t, a):
        for c in conjuncts(t):
            cc = cmp_canon(c)
            if cc and cc[0] == "sort_by" and cc[1] == "in" and "tschuprowt" in cc[2] and "cramerv" in cc[2] and "kruskal" not in cc[2]:
                return True
        return False

    entry("sort_by is an implemented measure", f"{F_BIN}::BinaryCarver.__init__", sortby_in, "sort_by in ['tschuprowt', 'cramerv']")
    entry("sort_by is an implemented measure", f"{F_MULTI}::MulticlassCarver.__init__", sortby_in, "sort_by in ['tschuprowt', 'cramerv']")

    def sortby_kruskal(t, a):
        for c in conjuncts(t):
            cc = cmp_canon(c)
            if cc and cc[1] == "==" and "'kruskal'" in (cc[0], cc[2]) and "sort_by" in (cc[0] + cc[2]):
                return True
        return False

    entry("sort_by is 'kruskal'", f"{F_CONT}::ContinuousCarver.__init__", sortby_kruskal, "kwargs.get('sort_by') == 'kruskal'")

    def missing_orders(t, a):
        return any(
            (cc := cmp_canon(c)) and cc[1] == "==" and "0" in (cc[0], cc[2]) and mentions(c, "features", "values_orders")
            and any(isinstance(n, ast.Compare) and isinstance(n.ops[0], ast.NotIn) for n in ast.walk(c))
            for c in conjuncts(t)
        )

    entry("every feature has an order before labels are built", f"{F_BASE}::BaseDiscretizer.fit", missing_orders,
          "len([f for f in self.features if f not in self.values_orders]) == 0")


# ---------------------------------------------------------------------------------------------
SCOPE = [F_BASE, F_DISC, F_QUAL, F_QUAN, F_TYPE, F_BC, F_BIN, F_CONT, F_MULTI,
         "AutoCarver/discretizers/utils/grouped_list.py", "AutoCarver/discretizers/utils/serialization.py"]


def rule_assert_only(ctx):
    repo = ctx.repo
    n = 0
    bad = 0
    for rel in SCOPE:
        mod = repo.by_relpath.get(rel)
        if mod is None:
            raise AnalysisError(f"anchor module {rel} not found")
        for fi in list(mod.functions.values()) + [m for c in mod.classes.values() for m in c.methods.values()]:
            for node in walk_no_nested(fi.node):
                if isinstance(node, ast.Raise):
                    n += 1
                    exc = node.exc
                    name = ""
                    if isinstance(exc, ast.Call):
                        name = call_name(exc)
                    elif isinstance(exc, ast.Name):
                        name = exc.id
                    ok = name == "AssertionError" or exc is None
                    if not ok:
                        bad += 1
                        ctx.ob("R-assert-only", construct(fi, f"raise {name or short(exc)}"), False, loc(fi, node),
                               "inputs must be refused with AssertionError, this raises another exception type")
    if bad == 0:
        ctx.ob("R-assert-only", f"{len(SCOPE)} discretizer/carver modules::every raise statement ({n}) raises AssertionError", True, "")


def _msg_may_raise(msg: ast.AST):
    """Sub-expression of an assertion message that can itself raise on non-str data."""
    def strish(e):
        return isinstance(e, ast.JoinedStr) or (isinstance(e, ast.Constant) and isinstance(e.value, str)) or (isinstance(e, ast.Call) and call_name(e) in ("str", "repr", "format", "join")) or (
            isinstance(e, ast.BinOp) and isinstance(e.op, ast.Add) and strish(e.left) and strish(e.right))
    for n in ast.walk(msg):
        if isinstance(n, ast.Call) and isinstance(n.func, ast.Attribute) and n.func.attr == "join" and n.args:
            a = n.args[0]
            ok = False
            if isinstance(a, (ast.GeneratorExp, ast.ListComp)) and strish(a.elt):
                ok = True
            if isinstance(a, ast.Call) and call_name(a) == "map" and a.args and unparse(a.args[0]) in ("str", "repr"):
                ok = True
            if not ok:
                return n
        if isinstance(n, ast.BinOp) and isinstance(n.op, ast.Add) and (strish(n.left) != strish(n.right)):
            other = n.right if strish(n.left) else n.left
            if not (isinstance(other, ast.Constant)):
                return n  # "text" + value: raises unless value is a str
    return None


def rule_assert_message_total(ctx):
    """Building the message of a rejecting assertion must not raise: `', '.join(values)` on non-str
    values turns the documented AssertionError into a TypeError."""
    repo = ctx.repo
    n = 0
    bad = 0
    for rel in SCOPE:
        mod = repo.by_relpath.get(rel)
        for fi in list(mod.functions.values()) + [m for c in mod.classes.values() for m in c.methods.values()]:
            for a in asserts_in(fi):
                if a.msg is None:
                    continue
                n += 1
                hit = _msg_may_raise(a.msg)
                if hit is not None:
                    bad += 1
                    ctx.ob("R-assert-only", construct(fi, f"assertion message `{short(hit, 60)}` can raise on non-str values"), False, loc(fi, hit),
                           "str.join / str + value raises TypeError for non-str items: the rejection is not an AssertionError")
    if bad == 0:
        ctx.ob("R-assert-only", f"{n} assertion messages: every formatted value goes through str()/f-string", True, "")


def rule_index_compare(ctx):
    fi = ctx.repo.find_function(f"{F_BASE}::BaseDiscretizer._prepare_data")
    defs = single_defs(fi.node)
    found = 0
    for a in asserts_in(fi):
        cj = conjuncts(a.test)
        for i, c in enumerate(cj):
            for n in ast.walk(c):
                if isinstance(n, ast.Compare) and len(n.ops) == 1 and isinstance(n.ops[0], (ast.Eq, ast.NotEq)):
                    sides = (unparse(n.left), unparse(n.comparators[0]))
                    if all(s.endswith(".index") for s in sides) and sides[0] != sides[1]:
                        found += 1
                        # a preceding conjunct (short-circuit) or dominating assert compares lengths
                        def is_len_test(x):
                            cc = cmp_canon(x)
                            return bool(cc and cc[1] == "==" and cc[0].startswith("len(") and cc[2].startswith("len(")
                                        and {"X", "y"} <= {m.id for m in ast.walk(x) if isinstance(m, ast.Name)})
                        ok = any(is_len_test(p) for p in cj[:i])
                        if not ok:
                            cfg = cfg_of(ctx, fi)
                            for a2 in asserts_in(fi):
                                if a2 is not a and any(is_len_test(p) for p in conjuncts(a2.test)) and cfg.before(a2, a):
                                    ok = True
                        ctx.ob("R-index-compare", construct(fi, "element-wise index comparison is preceded by a length test"), ok, loc(fi, n),
                               "" if ok else "`y.index == X.index` raises ValueError (not AssertionError) when lengths differ")
    if found == 0:
        # no element-wise comparison at all (e.g. Index.equals is used): nothing to protect
        ctx.ob("R-index-compare", construct(fi, "no element-wise index comparison"), True, loc(fi))


def rule_validation_reached(ctx):
    """Every concrete class validates its inputs: fit reaches BaseDiscretizer._prepare_data, and an
    override of _prepare_data does not touch X before handing it to the base validator."""
    repo, eng = ctx.repo, ctx.effects
    base_val = repo.find_function(f"{F_BASE}::BaseDiscretizer._prepare_data")
    for ci in concrete_classes(repo):
        if ci.name == "BaseDiscretizer":
            continue  # its fit takes no data (orders are given)
        fi = repo.lookup_method(ci, "fit")
        reach = {f.key for f in eng.reachable(fi, ci, None)}
        ok = base_val.key in reach
        ctx.ob("R-validation-reached", f"{ci.name}.fit::runs the common input validation (BaseDiscretizer._prepare_data)", ok, loc(fi),
               "" if ok else "a non-DataFrame X, a missing column or a misaligned y reaches pandas / numpy code: IndexError / KeyError / TypeError instead of AssertionError")
    for ci in discretizer_classes(repo):
        fi = ci.methods.get("_prepare_data")
        if fi is None or ci.name == "BaseDiscretizer":
            continue
        cfg = cfg_of(ctx, fi)
        sup = [c for c in calls(fi, "_prepare_data") if isinstance(c.func.value, ast.Call) and call_name(c.func.value) == "super"]
        if not sup:
            ctx.ob("R-validation-reached", construct(fi, "override delegates to the base validator"), False, loc(fi), "no super()._prepare_data(...) call")
            continue
        early = []
        for n in walk_no_nested(fi.node):
            base = None
            if isinstance(n, (ast.Attribute, ast.Subscript)) and isinstance(n.value, ast.Name) and isinstance(n.ctx, ast.Load):
                base = n.value
            if base is not None and base.id in ("X", "X_dev") and not any(cfg.before(s_, n) for s_ in sup):
                early.append(n)
        ctx.ob("R-validation-reached", construct(fi, "X is not dereferenced before the base validator has seen it"), not early, loc(fi, early[0] if early else None),
               "" if not early else f"`{short(early[0])}` runs before the type assertion: a non-DataFrame X raises AttributeError / TypeError instead of AssertionError")


def rule_forward_target(ctx):
    """Every call of a _prepare_data validator hands over the caller's own target(s): X travels with
    y, X_dev with y_dev.  A validator called without the target accepts any target."""
    R = "R-forward-target"
    order = ["X", "y", "X_dev", "y_dev"]
    pair = {"X": "y", "X_dev": "y_dev"}
    for fi in ctx.repo.all_functions():
        if fi.cls is None:
            continue
        for c in calls(fi):
            if not (isinstance(c.func, ast.Attribute) and c.func.attr.endswith("_prepare_data")):
                continue
            bound = {}
            for i, a in enumerate(c.args):
                if i < len(order):
                    bound[order[i]] = unparse(a)
            for k in c.keywords:
                if k.arg:
                    bound[k.arg] = unparse(k.value)
            bad = None
            first = bound.get("X")
            if first in pair and pair[first] in fi.params and bound.get("y") != pair[first]:
                bad = f"`{first}` is validated without `{pair[first]}`"
            if "X_dev" in bound and "y_dev" in fi.params and bound.get("X_dev") == "X_dev" and bound.get("y_dev") != "y_dev":
                bad = "`X_dev` is validated without `y_dev`"
            if "X_dev" in fi.params and c.func.attr == "_prepare_data" and isinstance(c.func.value, ast.Name) and c.func.value.id == "self" and fi.name == "fit" and bound.get("X_dev") != "X_dev":
                bad = "`X_dev` is not handed to the validator"
            ctx.ob(R, construct(fi, f"`{short(c, 70)}` forwards the caller's target(s)"), bad is None, loc(fi, c),
                   "" if bad is None else bad + ": a target with missing values, another index or the wrong type is no longer refused here")


def check(ctx):
    rule_validation_reached(ctx)
    rule_forward_target(ctx)
    rule_guard_first(ctx)
    rule_validation_table(ctx)
    rule_assert_only(ctx)
    rule_assert_message_total(ctx)
    rule_index_compare(ctx)
    ctx.analysed("classes", [c.name for c in concrete_classes(ctx.repo)])


# ---------------------------------------------------------------------------------------------
_G = "        # checking for previous fits before modifying any attribute\n        self._check_is_not_fitted()\n\n"
MUTANTS = [
    M("D9-reverted: guard removed from Discretizer.fit", [(F_DISC, _G + "        # Checking for binary target and copying X", "        # Checking for binary target and copying X")],
      "R-guard-first", "Discretizer.fit", quick=True),
    M("D9-reverted: guard removed from BaseCarver.fit", [(F_BC, _G, "")], "R-guard-first", "BinaryCarver.fit", quick=True),
    M("D9-reverted: guard removed from MulticlassCarver.fit", [(F_MULTI, _G, "")], "R-guard-first", "MulticlassCarver.fit"),
    M("D9-reverted: guard removed from ContinuousDiscretizer.fit", [(F_QUAN, _G, "")], "R-guard-first", "ContinuousDiscretizer.fit"),
    M("D9-reverted: guard removed from StringDiscretizer.fit", [(F_TYPE, _G, "")], "R-guard-first", "StringDiscretizer.fit"),
    M("guard moved after _prepare_data in CategoricalDiscretizer.fit",
      [(F_QUAL, _G + "        # copying dataframe and checking data before bucketization\n        x_copy = self._prepare_data(X, y)\n",
        "        # copying dataframe and checking data before bucketization\n        x_copy = self._prepare_data(X, y)\n" + _G)],
      "R-guard-first", "CategoricalDiscretizer.fit"),
    M("guard made conditional on verbose", [(F_BASE, "        self._check_is_not_fitted()\n\n        # checking that all features", "        if self.verbose:\n            self._check_is_not_fitted()\n\n        # checking that all features")],
      "R-guard-first", "BaseDiscretizer.fit"),
    M("D21-reverted: ContinuousDiscretizer.fit skips the validation", [(F_QUAN, "        # checking data before bucketization\n        x_copy = self._prepare_data(X, y)\n\n        # storing ordering", "        x_copy = X\n\n        # storing ordering")], "R-validation-reached", "ContinuousDiscretizer.fit", quick=True),
    M("D22-reverted: ChainedDiscretizer copies X before validating it", [(F_QUAL, "        # checking for binary target and previous fit\n        x_copy = super()._prepare_data(X, y)\n\n        # copying dataframe\n        x_copy = x_copy.copy()\n", "        # copying dataframe\n        x_copy = X.copy()\n\n        # checking for binary target and previous fit\n        x_copy = super()._prepare_data(x_copy, y)\n")], "R-validation-reached", "ChainedDiscretizer._prepare_data", quick=True),
    M("transform(X, y) no longer validates y", [(F_BASE, "        x_copy = self.__prepare_data(X, y)", "        x_copy = self.__prepare_data(X)")], "R-forward-target", "BaseDiscretizer.transform"),
    M("D26-reverted: the type assertion on X only runs when X is not None", [(F_BASE, "        # checking for X's type\n        assert isinstance(\n            X, DataFrame\n        ), f\" - [Discretizer] X must be a pandas.DataFrame, instead {type(X)} was passed\"\n", "        # checking for X's type\n        if X is not None:\n            assert isinstance(X, DataFrame), f\" - [Discretizer] X must be a pandas.DataFrame, instead {type(X)} was passed\"\n")], "R-validation-table", "X is a DataFrame", quick=True),
    M("dev target not validated", [(F_BC, "            x_dev_copy = super()._prepare_data(X_dev, y_dev)", "            x_dev_copy = super()._prepare_data(X_dev)")], "R-forward-target", "BaseCarver._prepare_data"),
    M("StringDiscretizer.fit skips the validation", [(F_TYPE, "        x_copy = self._prepare_data(X, y)  # X[self.features].fillna(self.str_nan)", "        x_copy = X  # X[self.features].fillna(self.str_nan)")], "R-validation-reached", "StringDiscretizer.fit"),
    M("D10-reverted: length test dropped", [(F_BASE, "assert len(y.index) == len(X.index) and all(", "assert all(")], "R-index-compare", quick=True),
    M("X type assertion removed", [(F_BASE, "        assert isinstance(\n            X, DataFrame\n        ), f\" - [Discretizer] X must be a pandas.DataFrame, instead {type(X)} was passed\"\n", "")],
      "R-validation-table", "X is a DataFrame", quick=True),
    M("NaN check of y inverted", [(F_BASE, "assert not any(y.isna())", "assert any(y.isna()) or True")], "R-validation-table", "missing value"),
    M("binary check weakened to >= 2 classes", [(F_BIN, "            len(y_values) == 2\n", "            len(y_values) >= 2\n")], "R-validation-table", "binary target"),
    M("binary check: & replaced by |", [(F_BIN, "assert (0 in y_values) & (\n            1 in y_values\n        )", "assert (0 in y_values) | (\n            1 in y_values\n        )")], "R-validation-table", "binary target"),
    M("multiclass check off by one", [(F_MULTI, "            len(y_values) > 2\n", "            len(y_values) > 1\n")], "R-validation-table", "multiclass target"),
    M("index check only when verbose", [(F_BASE, "            # checking indices\n            assert len(y.index)", "            # checking indices\n            assert not self.verbose or len(y.index)")], "R-validation-table", "same index"),
    M("missing-columns check skipped for copy=False", [(F_BASE, "        assert len(missing_columns) == 0, (", "        assert not self.copy or len(missing_columns) == 0, (")], "R-validation-table", "column of X"),
    M("X_dev no longer validated", [(F_BC, "        x_dev_copy = super()._prepare_data(X_dev, y_dev)\n", "        x_dev_copy = X_dev\n")], "R-validation-table", "X_dev"),
    M("ordinal values not checked", [(F_DISC, "        self._check_new_values(x_copy, features=self.ordinal_features)\n", "")], "R-validation-table", "ordinal"),
    M("sort_by accepts kruskal for binary", [(F_BIN, 'implemented_measures = ["tschuprowt", "cramerv"]', 'implemented_measures = ["tschuprowt", "cramerv", "kruskal"]')], "R-validation-table", "sort_by"),
    M("numeric check becomes ValueError", [(F_DISC, "        assert all(~not_numeric), (\n", "        if not all(~not_numeric):\n            raise ValueError(\"non numeric\")\n        assert True, (\n")], "R-assert-only"),
    M("assertion message joins raw values", [(F_BASE, "                f\"{str(list(unexpected))} of feature '{feature}' was not provided. \"", "                f\"{', '.join(unexpected)} of feature '{feature}' was not provided. \"")], "R-assert-only", "can raise"),
    M("overlap check dropped", [(F_BC, "        assert all(\n            quali_feature not in quantitative_features\n            for quali_feature in (qualitative_features + ordinal_features)\n        ), msg\n        assert all(\n            quanti_feature not in (qualitative_features + ordinal_features)\n            for quanti_feature in quantitative_features\n        ), msg\n", "")], "R-validation-table", "disjoint"),
]
BENIGN = [
    B("guard inlined as an assert in Discretizer.fit", [(F_DISC, _G + "        # Checking for binary target and copying X", "        assert not self.is_fitted, 'already fitted'\n        # Checking for binary target and copying X")]),
    B("X type check reordered operands / message changed", [(F_BASE, "instead {type(X)} was passed\"", "got {type(X)}\"")]),
    B("binary check rewritten with and", [(F_BIN, "assert (0 in y_values) & (\n            1 in y_values\n        )", "assert (0 in y_values) and (\n            1 in y_values\n        )")]),
    B("y_values inlined in multiclass check", [(F_MULTI, "            len(y_values) > 2\n", "            2 < len(unique(y_copy))\n")]),
    B("index check through Index.equals", [(F_BASE, "assert len(y.index) == len(X.index) and all(\n                y.index == X.index\n            )", "assert y.index.equals(\n                X.index\n            )")]),
    B("local renamed in _prepare_data", [(F_BASE, "missing_columns = [feature for feature in self.features if feature not in x_copy]\n        assert len(missing_columns) == 0, (\n            f\" - [Discretizer] Requested discretization of {str(missing_columns)}",
                                          "absent = [feature for feature in self.features if feature not in x_copy]\n        assert len(absent) == 0, (\n            f\" - [Discretizer] Requested discretization of {str(absent)}")]),
    B("verbose print before the guard", [(F_QUAN, _G, "        print('fitting')\n" + _G)]),
]
