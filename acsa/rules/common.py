"""Helpers shared by the rule modules."""
from __future__ import annotations

import ast
from typing import Dict, Iterable, List, Optional, Tuple

from ..cfg import CFG
from ..core import AnalysisError, ClassInfo, FunctionInfo, Repo, call_name, unparse, walk_no_nested
from ..report import Ctx

BASE = "BaseDiscretizer"
HOOKS = ("_aggregator", "_grouper", "_association_measure", "_printer")

F_BASE = "AutoCarver/discretizers/utils/base_discretizers.py"
F_DISC = "AutoCarver/discretizers/discretizers.py"
F_QUAL = "AutoCarver/discretizers/utils/qualitative_discretizers.py"
F_QUAN = "AutoCarver/discretizers/utils/quantitative_discretizers.py"
F_TYPE = "AutoCarver/discretizers/utils/type_discretizers.py"
F_GL = "AutoCarver/discretizers/utils/grouped_list.py"
F_SER = "AutoCarver/discretizers/utils/serialization.py"
F_BC = "AutoCarver/carvers/base_carver.py"
F_BIN = "AutoCarver/carvers/binary_carver.py"
F_CONT = "AutoCarver/carvers/continuous_carver.py"
F_MULTI = "AutoCarver/carvers/multiclass_carver.py"
F_SEL = "AutoCarver/selectors/base_selector.py"
F_QLM = "AutoCarver/selectors/measures/qualitative_measures.py"
F_QTM = "AutoCarver/selectors/measures/quantitative_measures.py"
F_BM = "AutoCarver/selectors/measures/base_measures.py"
F_QLF = "AutoCarver/selectors/filters/qualitative_filters.py"
F_QTF = "AutoCarver/selectors/filters/quantitative_filters.py"
F_BF = "AutoCarver/selectors/filters/base_filters.py"


def discretizer_classes(repo: Repo) -> List[ClassInfo]:
    """Every package class deriving from BaseDiscretizer (itself included), sorted by name."""
    if not repo.has_class(BASE):
        raise AnalysisError(f"anchor class {BASE} not found")
    return sorted(repo.subclasses(BASE), key=lambda c: c.name)


def is_abstract_carver(repo: Repo, ci: ClassInfo) -> bool:
    """A class whose ``fit`` (followed through ``super().fit`` calls) calls a ``self._hook`` that the
    class does not define through its MRO (today: BaseCarver only)."""
    fi = repo.lookup_method(ci, "fit")
    seen = set()
    while fi is not None and fi.key not in seen:
        seen.add(fi.key)
        nxt = None
        for c in ast.walk(fi.node):
            if not isinstance(c, ast.Call) or not isinstance(c.func, ast.Attribute):
                continue
            f = c.func
            if isinstance(f.value, ast.Name) and f.value.id == "self" and f.attr in HOOKS:
                if repo.lookup_method(ci, f.attr) is None:
                    return True
            if (
                f.attr == "fit"
                and isinstance(f.value, ast.Call)
                and isinstance(f.value.func, ast.Name)
                and f.value.func.id == "super"
                and fi.cls is not None
            ):
                nxt = repo.lookup_method(ci, "fit", after=fi.cls)
        fi = nxt
    return False


def concrete_classes(repo: Repo) -> List[ClassInfo]:
    return [c for c in discretizer_classes(repo) if not is_abstract_carver(repo, c)]


def fn(repo: Repo, spec: str) -> FunctionInfo:
    return repo.find_function(spec)


def construct(fi: FunctionInfo, text: str) -> str:
    return f"{fi.module.relpath}::{fi.qualname}::{text}"


def cfg_of(ctx: Ctx, fi: FunctionInfo) -> CFG:
    return ctx.shared(f"cfg:{fi.key}", lambda: CFG(fi.node))


def asserts_in(fi: FunctionInfo) -> List[ast.Assert]:
    out = [n for n in walk_no_nested(fi.node) if isinstance(n, ast.Assert)]
    out.sort(key=lambda n: n.lineno)
    return out


def calls(fi: FunctionInfo, name: str = None) -> List[ast.Call]:
    out = [n for n in ast.walk(fi.node) if isinstance(n, ast.Call) and (name is None or call_name(n) == name)]
    out.sort(key=lambda n: (n.lineno, n.col_offset))
    return out


def one_call(fi: FunctionInfo, name: str) -> ast.Call:
    cs = calls(fi, name)
    if len(cs) != 1:
        raise AnalysisError(f"{fi.key}: expected exactly one call to {name}, found {len(cs)}")
    return cs[0]


def loc(fi: FunctionInfo, node: ast.AST = None) -> str:
    return f"{fi.module.relpath}:{getattr(node if node is not None else fi.node, 'lineno', 0)}"


def short(node: ast.AST, n: int = 110) -> str:
    s = " ".join(unparse(node).split())
    return s if len(s) <= n else s[: n - 3] + "..."


def attr_chain_root(node: ast.AST) -> Optional[str]:
    """``a.b[c].d`` -> ``a``."""
    while isinstance(node, (ast.Attribute, ast.Subscript, ast.Call)):
        node = node.value if not isinstance(node, ast.Call) else node.func
    return node.id if isinstance(node, ast.Name) else None


def self_attr_name(node: ast.AST) -> Optional[str]:
    if isinstance(node, ast.Attribute) and isinstance(node.value, ast.Name) and node.value.id == "self":
        return node.attr
    return None


def path_str(p) -> str:
    return p[0] + (f".{p[1]}" if p[1] else "")
