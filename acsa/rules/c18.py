"""C18 -- ChainedDiscretizer merges rare values only along the supplied hierarchy."""
from __future__ import annotations

import ast

from ..core import AnalysisError, call_name, const_value, kwarg, unparse, walk_no_nested
from ..exprs import cmp_canon, conjuncts, inline, single_defs
from ..selftest import B, M
from .common import F_QUAL, asserts_in, calls, cfg_of, construct, loc, short
from .grouped import _flatten_conditions, check_append_absent

EXPLANATION = (
    "Decides on ChainedDiscretizer's current source: R-thresholds also requires the recount after each level to be an unrestricted value_counts of the working column (a reindex on the groups of the level hides values attached to a later level directly); R-position-truthiness (the position of a group's highest "
    "known member amongst the known values is never tested by truthiness: 0 is the first value); R-append-absent (no append of a value that may "
    "already be a member: the D8 defect class); R-thresholds (a value is kept iff frequency >= "
    "min_freq, non-strict, against self.min_freq; the missing-value sentinel is always kept; "
    "frequencies are normalised counts over all rows, NaN filled first); R-merge-target (rare values "
    "of a level are replaced by level_order.get_group(value), masks and targets are built over the "
    "same iterable, levels are visited in the given order, and the same (discarded, kept) pairs are "
    "recorded in values_orders, and the level loop has no early exit); R-unknown-exhaustive (unknown values "
    "are the observed values outside self.known_values, str_nan excepted; unknown_handling is asserted to be raise|drop, "
    "'raise' asserts naming the feature, 'drop' groups the unknown value into str_nan); "
    "R-known-values-kept (every value of the hierarchy is appended to each feature's order; the members of "
    "a level are validated against the cumulated values of all earlier levels); "
    "R-select-nonempty (numpy.select is only called when a value has to be merged at that level)."
    " Also R-string-form (numeric columns meet the hierarchy through StringDiscretizer's string form: str(int(v)) exactly for integral floats, str(v) otherwise)."
)
NOT_DECIDED = "which values end up merged on given data; pandas value_counts/select semantics"
FLOORS = {"R-append-absent": 4, "R-thresholds": 3, "R-merge-target": 7, "R-unknown-exhaustive": 5, "R-known-values-kept": 3, "R-select-nonempty": 1, "R-string-form": 2, "R-position-truthiness": 1}

CLS = "ChainedDiscretizer"


def _assigns(fi, name):
    out = []
    for n in walk_no_nested(fi.node):
        if isinstance(n, ast.Assign):
            for t in n.targets:
                if isinstance(t, ast.Name) and t.id == name:
                    out.append(n)
                elif isinstance(t, ast.Tuple):
                    for i, e in enumerate(t.elts):
                        if isinstance(e, ast.Name) and e.id == name:
                            out.append(n)
    return out


def rule_thresholds(ctx):
    fi = ctx.repo.find_function(f"{F_QUAL}::{CLS}.fit")
    R = "R-thresholds"
    # the list of kept values: the name the values-to-merge comprehension filters on
    # (`[v for v in level.values() if v not in <kept>]`), whatever it is called
    keep_name = "to_keep"
    vtg = single_defs(fi.node).get("values_to_group")
    if isinstance(vtg, ast.ListComp) and vtg.generators and vtg.generators[0].ifs:
        cc = cmp_canon(vtg.generators[0].ifs[0])
        if cc and cc[1] == "not in" and cc[2].isidentifier():
            keep_name = cc[2]
    ks = _assigns(fi, keep_name)
    if not ks:
        raise AnalysisError("ChainedDiscretizer.fit: the list of kept values (filter of values_to_group) was not found")
    # `k = A ; k = k + B` (one block, in sequence) is `k = A + B`
    ks = sorted(ks, key=lambda n: n.lineno)
    v = ks[0].value
    for later in ks[1:]:
        uses = [n for n in ast.walk(later.value) if isinstance(n, ast.Name) and n.id == keep_name]
        if len(uses) != 1:
            raise AnalysisError("ChainedDiscretizer.fit: the list of kept values is assigned several times independently")
        import copy as _copy

        lv = _copy.deepcopy(later.value)
        for n in ast.walk(lv):
            for f, val in ast.iter_fields(n):
                if isinstance(val, ast.Name) and val.id == keep_name:
                    setattr(n, f, v)
                elif isinstance(val, list):
                    for i, x in enumerate(val):
                        if isinstance(x, ast.Name) and x.id == keep_name:
                            val[i] = v
        v = lv
    cmps = [cmp_canon(c) for c in ast.walk(v) if isinstance(c, ast.Compare)]
    cmps = [c for c in cmps if c]
    ok = any(c[0] == "self.min_freq" and c[1] == "<=" and "frequencies" in c[2] for c in cmps)
    ctx.ob(R, construct(fi, "kept iff frequency >= self.min_freq"), ok, loc(fi, ks[0]),
           "" if ok else f"comparison found: {cmps}; the statement requires `frequency >= min_freq` (non-strict)")
    ok2 = "self.str_nan" in unparse(v) and isinstance(v, ast.BinOp) and isinstance(v.op, ast.Add)
    ctx.ob(R, construct(fi, "the missing-value sentinel is always kept"), ok2, loc(fi, ks[0]),
           "" if ok2 else "the kept values must include self.str_nan so that missing values stay their own modality")
    vcs = [c for c in calls(fi, "value_counts")]
    ok3 = bool(vcs) and all(const_value(kwarg(c, "normalize")) is True and const_value(kwarg(c, "dropna"), None) in (None, True) for c in vcs)
    fp = ctx.repo.find_function(f"{F_QUAL}::{CLS}._prepare_data")
    filled = any(
        isinstance(n, ast.Assign) and isinstance(n.targets[0], ast.Subscript) and isinstance(n.value, ast.Call)
        and call_name(n.value) == "fillna" and "self.str_nan" in unparse(n.value) and "self.features" in unparse(n.targets[0])
        for n in walk_no_nested(fp.node)
    )
    ctx.ob(R, construct(fi, "frequencies are shares of all rows (normalize=True after NaN were filled with str_nan)"), ok3 and filled, loc(fi, vcs[0] if vcs else None),
           "" if (ok3 and filled) else "value_counts must be normalised and missing values filled before counting")


def rule_recount_all_values(ctx):
    """After each level the frequencies are recounted over *every* value of the working column: the next
    level reads the frequency of values of any earlier level (a value attached to a later level directly,
    skipping the intermediate one, is still a raw value of the column).  A recount restricted to the
    groups of the level just processed (reindex / loc / subscript on the counts) makes such a value look
    absent, and it is merged into its ancestor however frequent it is."""
    fi = ctx.repo.find_function(f"{F_QUAL}::{CLS}.fit")
    R = "R-thresholds"
    par = {}
    for n in ast.walk(fi.node):
        for ch in ast.iter_child_nodes(n):
            par[id(ch)] = n
    vcs = [c for c in calls(fi, "value_counts")]
    bare = [c for c in vcs if isinstance(par.get(id(c)), ast.Assign)]
    in_loop = []
    for l in walk_no_nested(fi.node):
        if isinstance(l, ast.For) and "chained_orders" in unparse(l.iter):
            in_loop += [c for c in bare if any(x is c for x in ast.walk(l))]
    restricted = [c for c in vcs if c not in bare]
    ok = bool(in_loop) and not restricted
    ctx.ob(R, construct(fi, "after each level the frequencies of all values of the working column are recounted (unrestricted value_counts)"), ok, loc(fi, restricted[0] if restricted else (vcs[0] if vcs else None)),
           "" if ok else ("no plain `frequencies = <column>.value_counts(normalize=True)` inside the loop over the levels" if not restricted else
                          f"`{short(par.get(id(restricted[0])), 80)}` restricts the counts: a value that is not a group of this level is taken for absent at the next one and merged although frequent"))


def rule_merge_target(ctx):
    fi = ctx.repo.find_function(f"{F_QUAL}::{CLS}.fit")
    R = "R-merge-target"
    defs = single_defs(fi.node)
    ldefs = {k: v for k, v in defs.items() if k != "x_copy"}  # look through local aliases, keep the frame's name
    # levels visited in the given order
    loops = [n for n in walk_no_nested(fi.node) if isinstance(n, ast.For) and "chained_orders" in unparse(n.iter)]
    ok = len(loops) == 1 and unparse(loops[0].iter) == "self.chained_orders" and isinstance(loops[0].target, ast.Name)
    ctx.ob(R, construct(fi, "levels are visited in the supplied order"), ok, loc(fi, loops[0] if loops else None),
           "" if ok else f"loop over {[unparse(l.iter) for l in loops]}")
    if not ok:
        return
    # ... every level, for every feature: no early exit from the level loop or the feature loop
    cfg0 = cfg_of(ctx, fi)
    jumps = []
    for n in walk_no_nested(fi.node):
        if isinstance(n, (ast.Break, ast.Continue, ast.Return)) and any(isinstance(l, ast.For) for l in cfg0.enclosing_loops(n)):
            if isinstance(n, ast.Continue):
                # `continue` when there is nothing to merge at this level leaves everything as it is
                conds = _flatten_conditions(cfg0.path_conditions(n))
                txt = [(unparse(t).replace(" ", ""), pol) for t, pol in conds]
                if len(txt) == 1 and txt[0] in (("values_to_group", False), ("len(values_to_group)>0", False), ("len(values_to_group)==0", True), ("len(values_to_group)!=0", False), ("len(values_to_group)<1", True)):
                    continue
            jumps.append(n)
    ctx.ob(R, construct(fi, "no level is skipped: the level loop has no break / continue / return"), not jumps, loc(fi, jumps[0] if jumps else loops[0]),
           "" if not jumps else "groups that stay rare (or empty) at this level are no longer merged further up the hierarchy")
    level = loops[0].target.id
    vtg = defs.get("values_to_group")
    gv = defs.get("groups_value")
    if vtg is None or gv is None:
        raise AnalysisError("ChainedDiscretizer.fit: anchors values_to_group / groups_value not single definitions")
    # values_to_group = [value for value in level.values() if value not in to_keep]
    ok = (
        isinstance(vtg, ast.ListComp) and len(vtg.generators) == 1
        and unparse(vtg.generators[0].iter) == f"{level}.values()"
        and isinstance(vtg.elt, ast.Name) and unparse(vtg.generators[0].target) == vtg.elt.id
        and len(vtg.generators[0].ifs) == 1 and (cmp_canon(vtg.generators[0].ifs[0]) or ("", "", ""))[:2] == (vtg.elt.id, "not in")
        and (cmp_canon(vtg.generators[0].ifs[0]) or ("", "", ""))[2].isidentifier()  # the kept list (checked by R-thresholds)
    )
    ctx.ob(R, construct(fi, "values to merge = members of the level that are not kept"), ok, loc(fi, vtg),
           "" if ok else f"found {short(vtg)}")
    # groups_value = [level.get_group(value) for value in values_to_group]
    ok = (
        isinstance(gv, ast.ListComp) and len(gv.generators) == 1 and not gv.generators[0].ifs
        and unparse(gv.generators[0].iter) == "values_to_group"
        and isinstance(gv.elt, ast.Call) and unparse(gv.elt.func) == f"{level}.get_group"
        and len(gv.elt.args) == 1 and unparse(gv.elt.args[0]) == unparse(gv.generators[0].target)
    )
    ctx.ob(R, construct(fi, "merge target = the value's group in the current level"), ok, loc(fi, gv),
           "" if ok else f"found {short(gv)}")
    # select(masks, targets): masks built over the same iterable, unfiltered, testing equality with the value
    sel = [c for c in calls(fi, "select")]
    ok = False
    if len(sel) == 1 and len(sel[0].args) >= 2:
        masks = sel[0].args[0]
        if isinstance(masks, ast.Name):
            masks = defs.get(masks.id)
        tg = sel[0].args[1]
        ok = (
            isinstance(masks, ast.ListComp) and len(masks.generators) == 1 and not masks.generators[0].ifs
            and unparse(masks.generators[0].iter) == "values_to_group"
            and isinstance(masks.elt, ast.Compare) and isinstance(masks.elt.ops[0], ast.Eq)
            and unparse(masks.generators[0].target) in (unparse(masks.elt.left), unparse(masks.elt.comparators[0]))
            and "x_copy[feature]" in (unparse(inline(fi.node, masks.elt.left, defs=ldefs)), unparse(inline(fi.node, masks.elt.comparators[0], defs=ldefs)))
            and unparse(tg) == "groups_value"
            and kwarg(sel[0], "default") is not None and "x_copy[feature]" in unparse(inline(fi.node, kwarg(sel[0], "default"), defs=ldefs))
        )
    ctx.ob(R, construct(fi, "mask k and target k belong to the same value (same iterable, no filter)"), ok, loc(fi, sel[0] if sel else None))
    # recorded in values_orders with the same pairs, in (discarded, kept) order
    grp = [c for c in calls(fi, "group") if "values_orders" in unparse(inline(fi.node, c.func.value, defs=ldefs))]
    ok = False
    if len(grp) == 1:
        cfg = cfg_of(ctx, fi)
        lp = [l for l in cfg.enclosing_loops(grp[0]) if isinstance(l, ast.For)]
        if lp and unparse(lp[0].iter) == "zip(values_to_group, groups_value)" and isinstance(lp[0].target, ast.Tuple):
            a, b = [unparse(x) for x in lp[0].target.elts]
            ok = [unparse(x) for x in grp[0].args] == [a, b] and "feature" in unparse(inline(fi.node, grp[0].func.value, defs=ldefs))
    ctx.ob(R, construct(fi, "values_orders records group(discarded value, its level group)"), ok, loc(fi, grp[0] if grp else None))


def rule_working_column(ctx):
    """Every level works on the column as the previous levels left it: an alias of x_copy[feature]
    taken before a loop that re-assigns x_copy[feature] is stale inside that loop."""
    R = "R-merge-target"
    fi = ctx.repo.find_function(f"{F_QUAL}::{CLS}.fit")
    cfg = cfg_of(ctx, fi)
    aliases = {}
    for n in walk_no_nested(fi.node):
        if isinstance(n, ast.Assign) and len(n.targets) == 1:
            t, v = n.targets[0], n.value
            pairs = []
            if isinstance(t, ast.Name):
                pairs = [(t, v)]
            elif isinstance(t, ast.Tuple) and isinstance(v, ast.Tuple) and len(t.elts) == len(v.elts):
                pairs = list(zip(t.elts, v.elts))
            for tt, vv in pairs:
                if isinstance(tt, ast.Name) and unparse(vv).replace(" ", "") in ("x_copy[feature]", "x_copy.loc[:,feature]"):
                    aliases[tt.id] = n
    stale = []
    for n in walk_no_nested(fi.node):
        if isinstance(n, (ast.For, ast.While)):
            writes = [s_ for s_ in ast.walk(n) if isinstance(s_, ast.Assign) and any(unparse(t).replace(" ", "") in ("x_copy[feature]", "x_copy.loc[:,feature]") for t in s_.targets)]
            if not writes:
                continue
            for nm, d in aliases.items():
                outside = not any(d is x for x in ast.walk(n))
                reads = [x for x in ast.walk(n) if isinstance(x, ast.Name) and x.id == nm and isinstance(x.ctx, ast.Load)]
                if outside and reads:
                    stale.append((nm, reads[0]))
    ctx.ob(R, construct(fi, "each level reads the column as merged so far (no alias of x_copy[feature] from before the level loop)"), not stale, loc(fi, stale[0][1] if stale else None),
           "" if not stale else f"`{stale[0][0]}` was taken from x_copy[feature] before the loop that re-assigns the column: from the second level on, the merges of the earlier levels are thrown away")


def rule_string_conversion(ctx):
    """Columns that need the string conversion are found from the type of their cells: an object
    column can hold integer codes (the hierarchy is written with strings)."""
    R = "R-unknown-exhaustive"
    fp = ctx.repo.find_function(f"{F_QUAL}::{CLS}._prepare_data")
    cell_types = [c for c in ast.walk(fp.node) if isinstance(c, ast.Call) and call_name(c) in ("map", "applymap") and len(c.args) == 1 and unparse(c.args[0]) == "type"]
    by_dtype = [n for n in ast.walk(fp.node) if isinstance(n, ast.Compare) and any(isinstance(x, ast.Attribute) and x.attr in ("dtypes", "dtype") for x in ast.walk(n)) and "object" in unparse(n)]
    ok = bool(cell_types) and not by_dtype
    no = cell_types[0] if cell_types else (by_dtype[0] if by_dtype else None)
    ctx.ob(R, construct(fp, "non-string columns are detected from the types of the cells (map(type)), not from the column dtype"), ok, loc(fp, no),
           "" if ok else "an object column holding integer codes is not converted: every known code is then reported as unknown (raise) or merged with the missing values (drop)")


def rule_unknown(ctx):
    R = "R-unknown-exhaustive"
    fi = ctx.repo.find_function(f"{F_QUAL}::{CLS}.__init__")
    ok = False
    for a in asserts_in(fi):
        for c in conjuncts(a.test):
            if isinstance(c, ast.Compare) and isinstance(c.ops[0], ast.In) and unparse(c.left) == "unknown_handling":
                vals = c.comparators[0]
                if isinstance(vals, (ast.List, ast.Tuple, ast.Set)) and {const_value(e) for e in vals.elts} == {"drop", "raise"}:
                    ok = True
    ctx.ob(R, construct(fi, "unknown_handling in {'raise', 'drop'}"), ok, loc(fi))
    fp = ctx.repo.find_function(f"{F_QUAL}::{CLS}._prepare_data")
    cfg = cfg_of(ctx, fp)
    # 'raise' branch: an assertion that fails whenever unknown values exist, naming the feature
    raising = []
    def is_raise(t, pol):
        cc = cmp_canon(t)
        return (cc == ("'raise'", "==", "self.unknown_handling") and pol) or (cc == ("'raise'", "!=", "self.unknown_handling") and not pol) or (cc == ("'drop'", "==", "self.unknown_handling") and not pol)

    for a in asserts_in(fp):
        conds = _flatten_conditions(cfg.path_conditions(a))
        if any(is_raise(t, pol) for t, pol in conds):
            raising.append(a)
    ok = False
    for a in raising:
        conds = cfg.path_conditions(a)
        under_unknown = any(pol and "unknown_values" in unparse(t) for t, pol in conds)
        t = unparse(a.test).replace(" ", "")
        cct = cmp_canon(a.test)
        fails = t in ("False", "notunknown_values") or cct in (("len(unknown_values)", "<=", "0"), ("0", "==", "len(unknown_values)"), ("len(unknown_values)", "<", "1"))
        names = a.msg is not None and any(isinstance(n, ast.Name) and n.id == "feature" for n in ast.walk(a.msg))
        ok = ok or (under_unknown and fails and names)
    # unknown = not part of the hierarchy (self.known_values), missing values excepted: the feature's
    # own order is no reference (StringDiscretizer adds every observed value to it)
    uv = [n.value for n in walk_no_nested(fp.node) if isinstance(n, ast.Assign) and unparse(n.targets[0]) == "unknown_values"]
    okc = False
    if len(uv) == 1 and isinstance(uv[0], ast.ListComp) and len(uv[0].generators) == 1:
        g = uv[0].generators[0]
        cs = set()
        for i in g.ifs:
            for c in conjuncts(i):
                cs.add(cmp_canon(c))
        v = unparse(g.target)
        okc = cs == {(v, "not in", "self.known_values"), ("self.str_nan", "!=", v)} or cs == {(v, "not in", "self.known_values"), (v, "!=", "self.str_nan")}
        okc = okc and "unique()" in unparse(g.iter) and "[feature]" in unparse(g.iter)
    ctx.ob(R, construct(fp, "unknown values = observed values outside the hierarchy (self.known_values), str_nan excepted"), okc, loc(fp, uv[0] if uv else None),
           "" if okc else f"found {short(uv[0]) if uv else 'no definition of unknown_values'}")
    ctx.ob(R, construct(fp, "'raise': AssertionError naming the feature when an unknown value exists"), ok, loc(fp, raising[0] if raising else None))
    # 'drop' branch: group(unknown_value, self.str_nan)
    grp = [c for c in calls(fp, "group") if len(c.args) == 2 and unparse(c.args[1]) == "self.str_nan"]
    ok = False
    for c in grp:
        conds = cfg.path_conditions(c)
        in_else = any(cmp_canon(t) == ("'raise'", "==", "self.unknown_handling") and not pol for t, pol in conds) or any(
            cmp_canon(t) == ("'drop'", "==", "self.unknown_handling") and pol for t, pol in conds) or any(
            cmp_canon(t) == ("'raise'", "!=", "self.unknown_handling") and pol for t, pol in conds)
        loops = [l for l in cfg.enclosing_loops(c) if isinstance(l, ast.For)]
        ok = ok or (in_else and loops and unparse(loops[0].iter) == "unknown_values" and unparse(loops[0].target) == unparse(c.args[0]))
    ctx.ob(R, construct(fp, "'drop': every unknown value is grouped into str_nan"), ok, loc(fp, grp[0] if grp else None))


def rule_known_values(ctx):
    R = "R-known-values-kept"
    fi = ctx.repo.find_function(f"{F_QUAL}::{CLS}.__init__")
    cfg = cfg_of(ctx, fi)
    ok = False
    for c in calls(fi, "append"):
        loops = [l for l in cfg.enclosing_loops(c) if isinstance(l, ast.For)]
        if loops and unparse(loops[0].iter) == "self.known_values" and unparse(loops[0].target) == unparse(c.args[0]):
            ok = True
    ctx.ob(R, construct(fi, "every value of the hierarchy is added to each feature's order"), ok, loc(fi))
    # a level may regroup values of any earlier level: members are validated against the cumulated
    # known values (initialised with level 0, extended with each group), never a single level
    kv = _assigns(fi, "known_values")
    outer = [a for a in kv if not cfg.enclosing_loops(a)]
    inner = [a for a in kv if cfg.enclosing_loops(a)]
    okk = (
        len(outer) == 1 and unparse(outer[0].value) == "self.chained_orders[0].values()" and inner
        and all(any(isinstance(n, ast.Name) and n.id == "known_values" for n in ast.walk(a.value)) and "next_group" in unparse(a.value) for a in inner)
    )
    filt = []
    for n in walk_no_nested(fi.node):
        if isinstance(n, ast.Assign) and unparse(n.targets[0]) in ("next_unknown", "next_known") and isinstance(n.value, ast.ListComp):
            for i in n.value.generators[0].ifs:
                for c in conjuncts(i):
                    cc = cmp_canon(c)
                    if cc and cc[1] in ("in", "not in"):
                        filt.append((unparse(n.targets[0]), cc[1], cc[2]))
    # the same partition written as one loop: `for value in next_values: if ...: next_known.append(value) else: next_unknown.append(value)`
    sd = single_defs(fi.node)
    flip = {"in": "not in", "not in": "in"}
    for c in calls(fi, "append"):
        recv = unparse(c.func.value)
        if recv not in ("next_unknown", "next_known") or not cfg.enclosing_loops(c):
            continue
        for t, pol in cfg.path_conditions(c):
            if isinstance(t, ast.Name) and t.id in sd:
                t = sd[t.id]  # already_known = value in known_values
            while isinstance(t, ast.UnaryOp) and isinstance(t.op, ast.Not):
                t, pol = t.operand, not pol
            if isinstance(t, ast.BoolOp) and not ((isinstance(t.op, ast.And) and pol) or (isinstance(t.op, ast.Or) and not pol)):
                continue  # a failed conjunction says nothing about its members
            for cj in (conjuncts(t) if pol else (t.values if isinstance(t, ast.BoolOp) else [t])):
                cc = cmp_canon(cj)
                if cc and cc[1] in ("in", "not in"):
                    filt.append((recv, cc[1] if pol else flip[cc[1]], cc[2]))
    filt = sorted(set(filt))
    okf = filt == [("next_known", "in", "known_values"), ("next_unknown", "not in", "known_values")]
    stored = any(isinstance(n, ast.Assign) and unparse(n.targets[0]) == "self.known_values" and unparse(n.value) == "known_values" for n in walk_no_nested(fi.node))
    ctx.ob(R, construct(fi, "members of a level are validated against the cumulated values of all previous levels"), bool(okk and okf and stored), loc(fi, outer[0] if outer else None),
           "" if (okk and okf and stored) else f"membership filters: {filt}; a hierarchy whose group skips a level would be refused (or accepted with unknown members)")
    sb = [c for c in calls(fi, "sort_by") if unparse(c.args[0]) == "self.known_values"] if calls(fi, "sort_by") else []
    used = False
    for c in sb:
        par = cfg.parent(c)
        used = used or isinstance(par, ast.Assign)
    ctx.ob(R, construct(fi, "order sorted by the flattened hierarchy and stored"), bool(sb) and used, loc(fi, sb[0] if sb else None))


def check(ctx):
    check_append_absent(ctx, "R-append-absent", select=lambda fi: fi.cls is not None and fi.cls.name == CLS)
    rule_thresholds(ctx)
    rule_recount_all_values(ctx)
    rule_working_column(ctx)
    rule_string_conversion(ctx)
    rule_merge_target(ctx)
    rule_unknown(ctx)
    rule_known_values(ctx)
    from . import quant

    quant.check_select_nonempty(ctx, "R-select-nonempty", select_fn=lambda fi: fi.cls is not None and fi.cls.name == CLS)
    from . import c04

    from .truthiness import check_position_truthiness

    # the position of a level's highest known member (known_values.index(..)) is 0 when the group hangs under the first value
    check_position_truthiness(ctx, "R-position-truthiness", [fi for fi in ctx.repo.all_functions() if fi.cls is not None and fi.cls.name == CLS])
    c04.rule_string_form(ctx)  # numeric columns are matched with the hierarchy through StringDiscretizer's string form: str(int(v)) for integral floats, str(v) otherwise


MUTANTS = [
    M("D28-reverted: unknown value appended although StringDiscretizer may have recorded it", [(F_QUAL, "                        if unknown_value not in order:\n                            order.append(unknown_value)\n", "                        order.append(unknown_value)\n")], "R-append-absent", "unknown_value", quick=True),
    M("D8-reverted: str_nan appended for every unknown value", [(F_QUAL, "                        if self.str_nan not in order:\n                            order.append(self.str_nan)\n", "                        order.append(self.str_nan)\n")], "R-append-absent", "_prepare_data", quick=True),
    M("D23-reverted: select on an empty condition list", [(F_QUAL, "                if len(values_to_group) > 0:\n                    x_copy[feature] = select(df_to_input, groups_value, default=x_copy[feature])\n", "                x_copy[feature] = select(df_to_input, groups_value, default=x_copy[feature])\n")], "R-select-nonempty", quick=True),
    M("level loop stops when nothing was moved", [(F_QUAL, "                # updating frequencies of each modality for the next ordering\n", "                if not any(to_input.any() for to_input in df_to_input):\n                    break\n\n                # updating frequencies of each modality for the next ordering\n")], "R-merge-target", "no level is skipped"),
    M("unknown values looked up in the feature's own order", [(F_QUAL, "                if value not in self.known_values and value != self.str_nan", "                if value not in order.values() and value != self.str_nan")], "R-unknown-exhaustive", "outside the hierarchy"),
    M("levels validated against the previous level only", [(F_QUAL, "                    if value not in known_values and value != next_group", "                    if value not in self.chained_orders[n].values() and value != next_group")], "R-known-values-kept", "cumulated"),
    M("next group inserted only when its highest known member is not the first value", [(F_QUAL, "                highest_index = known_values.index(next_known[-1])\n", "                highest_index = known_values.index(next_known[-1])\n                if not highest_index:\n                    continue\n")], "R-position-truthiness", "highest_index"),
    M("strict frequency threshold", [(F_QUAL, "to_keep = list(values[frequencies >= self.min_freq]) + [", "to_keep = list(values[frequencies > self.min_freq]) + [")], "R-thresholds", "kept iff", quick=True),
    M("missing values no longer kept apart", [(F_QUAL, "to_keep = list(values[frequencies >= self.min_freq]) + [\n                    self.str_nan,\n                ]", "to_keep = list(values[frequencies >= self.min_freq])")], "R-thresholds", "sentinel"),
    M("absolute counts compared with min_freq", [(F_QUAL, "            frequencies = x_copy[feature].value_counts(normalize=True)\n\n            # iterating over each specified orders", "            frequencies = x_copy[feature].value_counts()\n\n            # iterating over each specified orders")], "R-thresholds", "shares"),
    M("levels visited in reverse", [(F_QUAL, "            for level_order in self.chained_orders:", "            for level_order in self.chained_orders[::-1]:")], "R-merge-target", "supplied order"),
    M("rare values merged into the first group of the level", [(F_QUAL, "groups_value = [level_order.get_group(value) for value in values_to_group]", "groups_value = [level_order[0] for value in values_to_group]")], "R-merge-target", "merge target"),
    M("masks filtered, targets not", [(F_QUAL, "df_to_input = [x_copy[feature] == discarded for discarded in values_to_group]", "df_to_input = [x_copy[feature] == discarded for discarded in values_to_group if discarded in frequencies]")], "R-merge-target", "mask k"),
    M("group recorded with swapped arguments", [(F_QUAL, "self.values_orders.get(feature).group(discarded, kept)", "self.values_orders.get(feature).group(kept, discarded)")], "R-merge-target", "values_orders records"),
    M("unknown_handling accepts anything", [(F_QUAL, "        assert unknown_handling in [\n            \"drop\",\n            \"raise\",\n        ], \" - [ChainedDiscretizer] Wrong value for unknown_handling. Choose from 'drop', 'raise'.\"\n", "")], "R-unknown-exhaustive", "unknown_handling in"),
    M("'raise' only warns", [(F_QUAL, "                    assert not len(unknown_values) > 0, (", "                    assert len(unknown_values) > 0, (")], "R-unknown-exhaustive", "'raise'"),
    M("'drop' groups str_nan into the unknown value", [(F_QUAL, "order.group(unknown_value, self.str_nan)", "order.group(self.str_nan, unknown_value)")], "R-unknown-exhaustive", "'drop'"),
    M("known values not added to the order", [(F_QUAL, "            for value in self.known_values:\n                if value not in order.values():\n                    order.append(value)\n", "")], "R-known-values-kept"),
]
BENIGN = [
    B("level with nothing to merge skipped explicitly", [(F_QUAL, "                # values to group into discarded values\n", "                if not values_to_group:\n                    continue\n\n                # values to group into discarded values\n")]),
    B("threshold operands swapped", [(F_QUAL, "values[frequencies >= self.min_freq]", "values[self.min_freq <= frequencies]")]),
    B("raise branch asserts len == 0", [(F_QUAL, "                    assert not len(unknown_values) > 0, (", "                    assert len(unknown_values) == 0, (")]),
    B("drop branch tested explicitly", [(F_QUAL, "                else:  # unknown_handling='drop'", "                elif self.unknown_handling == 'drop':")]),
    B("loop variable renamed", [(F_QUAL, "                for discarded, kept in zip(values_to_group, groups_value):\n                    self.values_orders.get(feature).group(discarded, kept)", "                for old, new in zip(values_to_group, groups_value):\n                    self.values_orders.get(feature).group(old, new)")]),
]
