"""C01 -- carvers pick the most target-associated viable ordered grouping."""
from __future__ import annotations

from ..selftest import B, M
from .common import F_BC, F_BIN, F_CONT
from . import carver

EXPLANATION = (
    "Decides necessary conditions of 'the first viable element of the measure-sorted list of ALL "
    "candidates is kept, a feature is dropped only if there is none': R-select-order (candidates are "
    "sorted on self.sort_by, descending, unsliced; every enumerated combination is grouped and "
    "measured; the list is walked front to back and left only at the first accepted combination); "
    "R-viability-formula (boolean provenance with truth-table equivalence: accepted iff "
    "MINFREQ_train and DISTINCT_train and (no dev sample or (RANKS and MINFREQ_dev and DISTINCT_dev)), "
    "thresholds non-strict against self.min_freq_mod, train/dev frames resolved by dataflow); "
    "R-adjacency-order (row-order provenance: the grouped tables on which adjacent target rates are "
    "compared keep the feature's order, in both _grouper implementations and in xagg_apply_order); "
    "R-aggregate-fill (every reindex to the full modality list states its fill value); "
    "R-measure-keys / R-hooks-exhaustive (measures returned cover the accepted sort_by values, every "
    "hook is defined); R-measure-formula (monomial normal form: cramerv = chi2^1/2 n^-1/2, tschuprowt "
    "= chi2^1/2 n^-1/2 (r-1)^-1/4, kruskal = scipy H); R-drop-only-if-none; R-enum-bounds (canonical "
    "bounds of the consecutive-grouping and missing-value enumerators and of their call sites); "
    "R-printer-agreement (the statistics frame read by the viability test is returned as built, not "
    "rounded); R-default-minfreqmod (min_freq_mod defaults to min_freq / 2 only when None: an explicit 0 is kept)."
)
NOT_DECIDED = "completeness of the recursive enumerator (all compositions), scipy's chi2/kruskal, numerical maximality on a dataset"
FLOORS = {"R-select-order": 3, "R-viability-formula": 1, "R-adjacency-order": 3, "R-aggregate-fill": 2, "R-measure-keys": 2, "R-measure-formula": 3, "R-hooks-exhaustive": 2, "R-drop-only-if-none": 5, "R-enum-bounds": 11, "R-printer-agreement": 2, "R-default-minfreqmod": 2, "R-value-truthiness": 1}


def check(ctx):
    carver.check_select_order(ctx, "R-select-order")
    carver.check_viability_formula(ctx, "R-viability-formula")
    carver.check_adjacency_order(ctx, "R-adjacency-order")
    carver.check_aggregate_fill(ctx, "R-aggregate-fill")
    carver.check_measure_keys(ctx, "R-measure-keys")
    carver.check_measure_formula(ctx, "R-measure-formula")
    carver.check_hooks(ctx, "R-hooks-exhaustive")
    carver.check_drop_only_if_none(ctx, "R-drop-only-if-none")
    carver.check_enum_bounds(ctx, "R-enum-bounds")
    carver.check_stage_results(ctx, "R-drop-only-if-none")
    carver.check_printer_raw(ctx, "R-printer-agreement")
    from . import c02

    c02.rule_default(ctx)
    from .truthiness import check_or_default

    check_or_default(ctx, "R-value-truthiness", [f for f in ctx.repo.all_functions() if f.module.relpath.startswith("AutoCarver/carvers/")])


_D1_BIN_FIXED = """        # converting back to dataframe, keeping groups in the order of the feature's modalities
        ordered_indices = list(dict.fromkeys(index_values))
        grouped_xtab = DataFrame(summed_values, index=unique_indices, columns=xtab.columns)
        return grouped_xtab.loc[ordered_indices]
"""
_D1_BIN_OLD = """        # converting back to dataframe
        return DataFrame(summed_values, index=unique_indices, columns=xtab.columns)
"""
MUTANTS = [
    M("D1-reverted (binary): grouped crosstab in lexicographic order", [(F_BIN, _D1_BIN_FIXED, _D1_BIN_OLD)], "R-adjacency-order", "BinaryCarver._grouper", quick=True),
    M("D1-reverted (continuous): groupby sorts the groups", [(F_CONT, "return yval.groupby(groupby, sort=False).sum()", "return yval.groupby(groupby).sum()")], "R-adjacency-order", "ContinuousCarver._grouper", quick=True),
    M("xagg_apply_order sorts the groups", [(F_BC, "combi_xagg = xagg.groupby(groups, dropna=False, sort=False).sum()", "combi_xagg = xagg.groupby(groups, dropna=False).sum()")], "R-adjacency-order", "xagg_apply_order"),
    M("D2-reverted: crosstab reindexed without fill value", [(F_BIN, "xtab = xtab.reindex(labels_orders[feature], fill_value=0)", "xtab = xtab.reindex(labels_orders[feature])")], "R-aggregate-fill", "BinaryCarver", quick=True),
    M("continuous aggregate without fill value", [(F_CONT, "yval = yval.reindex(labels_orders[feature], fill_value=[])", "yval = yval.reindex(labels_orders[feature])")], "R-aggregate-fill", "ContinuousCarver"),
    M("candidates sorted ascending", [(F_BC, "            .sort_values(self.sort_by, ascending=False)\n", "            .sort_values(self.sort_by, ascending=True)\n")], "R-select-order", "decreasing", quick=True),
    M("candidates sorted on a fixed measure", [(F_BC, "            .sort_values(self.sort_by, ascending=False)\n", "            .sort_values(\"cramerv\", ascending=False)\n")], "R-select-order", "decreasing"),
    M("only the 100 best candidates are tested", [(F_BC, "            .to_dict(orient=\"records\")\n        )\n\n        # testing viability of combination", "            .to_dict(orient=\"records\")[:100]\n        )\n\n        # testing viability of combination")], "R-select-order", "decreasing"),
    M("loop does not stop at the first viable", [(F_BC, "            # best combination found: breaking the loop on combinations\n            if best_association is not None:\n                break\n", "")], "R-select-order", "walked"),
    M("combinations with a single group per modality skipped", [(F_BC, "            self._combination_formatter(combination) for combination in combinations\n", "            self._combination_formatter(combination) for combination in combinations if len(combination) < len(order)\n")], "R-select-order", "every enumerated"),
    M("min frequency not required on train", [(F_BC, "            train_viable = min_freq_train and distinct_rates_train", "            train_viable = distinct_rates_train")], "R-viability-formula", quick=True),
    M("strict minimum frequency", [(F_BC, "            min_freq_train = all(train_rates[\"frequency\"] >= self.min_freq_mod)", "            min_freq_train = all(train_rates[\"frequency\"] > self.min_freq_mod)")], "R-viability-formula"),
    M("dev viability is a disjunction", [(F_BC, "                    dev_viable = ranks_train_dev and min_freq_dev and distinct_rates_dev", "                    dev_viable = ranks_train_dev and min_freq_dev or distinct_rates_dev")], "R-viability-formula"),
    M("rank agreement not required", [(F_BC, "                    dev_viable = ranks_train_dev and min_freq_dev and distinct_rates_dev", "                    dev_viable = min_freq_dev and distinct_rates_dev")], "R-viability-formula"),
    M("dev frequencies compared with min_freq", [(F_BC, "                    min_freq_dev = all(dev_rates[\"frequency\"] >= self.min_freq_mod)", "                    min_freq_dev = all(dev_rates[\"frequency\"] >= self.min_freq)")], "R-viability-formula"),
    M("dev distinctness tested on the train frame", [(F_BC, "                        isclose(dev_rates[\"target_rate\"][1:], dev_rates[\"target_rate\"].shift(1)[1:])", "                        isclose(train_rates[\"target_rate\"][1:], train_rates[\"target_rate\"].shift(1)[1:])")], "R-viability-formula"),
    M("accepted although not viable on dev", [(F_BC, "                    if dev_viable:\n                        best_association = association  # found best viable combination", "                    if dev_viable or train_viable:\n                        best_association = association  # found best viable combination")], "R-viability-formula"),
    M("falsy min_freq_mod replaced by the default", [(F_BC, "        if min_freq_mod is None:\n            min_freq_mod = min_freq / 2\n        self.min_freq_mod = min_freq_mod  # minimum frequency per final bucket", "        self.min_freq_mod = min_freq_mod or min_freq / 2  # minimum frequency per final bucket")], "R-default-minfreqmod"),
    M("first pair of groups never compared", [(F_BC, "                isclose(train_rates[\"target_rate\"][1:], train_rates[\"target_rate\"].shift(1)[1:])", "                isclose(train_rates[\"target_rate\"][1:], train_rates[\"target_rate\"].shift(-1)[1:])")], "R-viability-formula"),
    M("statistics rounded for display before the viability test", [(F_BIN, "                    \"frequency\": xtab.sum(axis=1) / xtab.sum().sum(),\n                }\n            )", "                    \"frequency\": xtab.sum(axis=1) / xtab.sum().sum(),\n                }\n            ).round(4)")], "R-printer-agreement", "BinaryCarver._printer"),
    M("failed missing-value stage keeps the stage-1 carving", [(F_BC, "                # getting most associated combination\n                best_association, order = self._get_best_association(\n                    feature,\n                    order,\n                    xagg,\n                    combinations,\n                    xagg_dev=xagg_dev,\n                    dropna=True,\n                )", "                # getting most associated combination\n                nan_association, nan_order = self._get_best_association(\n                    feature,\n                    order,\n                    xagg,\n                    combinations,\n                    xagg_dev=xagg_dev,\n                    dropna=True,\n                )\n                if nan_association is not None:\n                    order = nan_order")], "R-drop-only-if-none", "search stage"),
    M("tschuprowt divides by sqrt(r-1) instead of its fourth root", [(F_BIN, "        tschuprowt = cramerv / sqrt(sqrt(n_mod_x - 1))", "        tschuprowt = cramerv / sqrt(n_mod_x - 1)")], "R-measure-formula", "tschuprowt"),
    M("cramerv not normalised by n", [(F_BIN, "        cramerv = sqrt(chi2 / n_obs)", "        cramerv = sqrt(chi2)")], "R-measure-formula", "cramerv"),
    M("measure key renamed", [(F_BIN, "        return {\"cramerv\": cramerv, \"tschuprowt\": tschuprowt}", "        return {\"cramerv\": cramerv, \"tschuprow\": tschuprowt}")], "R-measure-keys"),
    M("feature removed whenever it has missing values and dropna", [(F_BC, "        # checking that a suitable combination has been found\n        if best_combination is not None:\n            order, xagg, xagg_dev = best_combination", "        # checking that a suitable combination has been found\n        if best_combination is not None and not self.dropna:\n            order, xagg, xagg_dev = best_combination")], "R-drop-only-if-none"),
    M("nan stage runs even if stage 1 failed", [(F_BC, "            if self.dropna and self.str_nan in order and best_association is not None:", "            if self.dropna and self.str_nan in order:")], "R-drop-only-if-none", "missing-value stage"),
    M("last element never closes a group", [(F_BC, "        if next_idx < len(order) + 1:", "        if next_idx < len(order):")], "R-enum-bounds", "may end"),
    M("groups exhausted one too early", [(F_BC, "            if (nb_remaining_groups > 1) | (next_idx == len(order)):", "            if (nb_remaining_groups > 2) | (next_idx == len(order)):")], "R-enum-bounds", "groups remain"),
    M("max_n_mod + 1 groups allowed", [(F_BC, "min_group_size < len(current_combination) <= max_group_size", "min_group_size < len(current_combination) <= max_group_size + 1")], "R-enum-bounds", "complete combination"),
    M("single-group combination allowed", [(F_BC, "min_group_size < len(current_combination) <= max_group_size", "min_group_size <= len(current_combination) <= max_group_size")], "R-enum-bounds", "complete combination"),
    M("nan alone even when max_n_mod is reached", [(F_BC, "        if len(combination) < max_n_mod:", "        if len(combination) <= max_n_mod:")], "R-enum-bounds", "group of their own"),
    M("nan never tried in the last group", [(F_BC, "        for n in range(len(combination)):", "        for n in range(len(combination) - 1):")], "R-enum-bounds", "inside every group"),
    M("enumeration bounded by a constant", [(F_BC, "combinations = consecutive_combinations(raw_order, self.max_n_mod, min_group_size=1)", "combinations = consecutive_combinations(raw_order, 5, min_group_size=1)")], "R-enum-bounds", "bounded by self.max_n_mod"),
]
MUTANTS += [
    M("frequencies rounded before the threshold test", [(F_BC, "            min_freq_train = all(train_rates[\"frequency\"] >= self.min_freq_mod)", "            min_freq_train = all(train_rates[\"frequency\"].round(2) >= self.min_freq_mod)")], "R-viability-formula"),
]
BENIGN = [
    B("flags inlined", [(F_BC, "            train_viable = min_freq_train and distinct_rates_train", "            train_viable = all(train_rates[\"frequency\"] >= self.min_freq_mod) and distinct_rates_train")]),
    B("min freq as not any(<)", [(F_BC, "            min_freq_train = all(train_rates[\"frequency\"] >= self.min_freq_mod)", "            min_freq_train = not any(train_rates[\"frequency\"] < self.min_freq_mod)")]),
    B("threshold operands swapped", [(F_BC, "                    min_freq_dev = all(dev_rates[\"frequency\"] >= self.min_freq_mod)", "                    min_freq_dev = all(self.min_freq_mod <= dev_rates[\"frequency\"])")]),
    B("dev viability conjuncts reordered", [(F_BC, "                    dev_viable = ranks_train_dev and min_freq_dev and distinct_rates_dev", "                    dev_viable = distinct_rates_dev and min_freq_dev and ranks_train_dev")]),
    B("dev test nested instead of else", [(F_BC, "                # case 1: test sample provided -> testing robustness\n                else:", "                # case 1: test sample provided -> testing robustness\n                if xagg_dev is not None:")]),
    B("bound written with <=", [(F_BC, "        if next_idx < len(order) + 1:", "        if next_idx <= len(order):")]),
    B("grouper keeps order through pandas groupby", [(F_BIN, _D1_BIN_FIXED, "        return xtab.groupby(list(index_values), sort=False).sum()\n")]),
    B("tschuprowt through power", [(F_BIN, "        tschuprowt = cramerv / sqrt(sqrt(n_mod_x - 1))", "        tschuprowt = cramerv / (n_mod_x - 1) ** 0.25")]),
]
