"""C02 -- carved features respect max_n_mod, min_freq_mod and dev robustness."""
from __future__ import annotations

import ast

from ..core import AnalysisError, const_value, unparse, walk_no_nested
from ..exprs import cmp_canon
from ..selftest import B, M
from .common import F_BASE, F_BC, F_BIN, F_CONT, calls, cfg_of, construct, loc, short
from .grouped import _flatten_conditions
from . import carver, c04

EXPLANATION = (
    "Decides: R-viability-formula (same obligation as C01, the atoms that matter here: every group "
    ">= self.min_freq_mod on train and on dev, non-strict; rank agreement and distinct adjacent rates "
    "whenever a dev sample is given); R-enum-bounds (at most max_n_mod groups, the missing-value "
    "group counted: NaN alone only if n_groups < max_n_mod); R-default-minfreqmod (min_freq_mod "
    "defaults to min_freq / 2, only when None, and is what the viability test reads); "
    "R-printer-agreement (both _printer implementations return exactly the columns _test_viability "
    "reads, frequency = group size / total, target_rate = mean of y, and pass None through); "
    "R-nan-restore (missing values stay missing iff dropna=False: boolean provenance, see C04); "
    "R-aggregate-fill (a modality absent from the dev sample must not make every candidate "
    "non-viable); R-dropna-stage (the NaN stage runs iff dropna, after the labels were converted with "
    "dropna=False so that NaN is a modality of its own during stage 1, and a failed NaN stage drops the "
    "feature); R-index-kept (transformed labels are stored with index=X.index, so missing values stay "
    "missing in place when dropna=False)."
)
NOT_DECIDED = "actual label frequencies / label counts after transform on data"
FLOORS = {"R-viability-formula": 1, "R-enum-bounds": 11, "R-default-minfreqmod": 2, "R-printer-agreement": 7, "R-nan-restore": 2, "R-aggregate-fill": 2, "R-dropna-stage": 3, "R-index-kept": 1, "R-single-table": 2}


def rule_default(ctx):
    R = "R-default-minfreqmod"
    fi = ctx.repo.find_function(f"{F_BC}::BaseCarver.__init__")
    cfg = cfg_of(ctx, fi)
    assigns = [n for n in walk_no_nested(fi.node) if isinstance(n, ast.Assign) and unparse(n.targets[0]) == "min_freq_mod"]
    ok = False
    for a in assigns:
        conds = _flatten_conditions(cfg.path_conditions(a))
        only_none = [(cmp_canon(t), pol) for t, pol in conds] == [(("min_freq_mod", "is", "None"), True)]
        v = unparse(a.value).replace(" ", "")
        ok = only_none and v in ("min_freq/2", "min_freq*0.5", "0.5*min_freq", "min_freq/2.0")
    ctx.ob(R, construct(fi, "min_freq_mod defaults to min_freq / 2, only when not given"), ok and len(assigns) == 1, loc(fi, assigns[0] if assigns else None),
           "" if ok else f"found {[short(a) for a in assigns]}")
    st = [n for n in walk_no_nested(fi.node) if isinstance(n, ast.Assign) and unparse(n.targets[0]) == "self.min_freq_mod"]
    ok = len(st) == 1 and unparse(st[0].value) == "min_freq_mod" and bool(assigns) and st[0].lineno > assigns[0].lineno
    ctx.ob(R, construct(fi, "self.min_freq_mod stores it (the attribute the viability test reads)"), ok, loc(fi))


def rule_printer(ctx):
    R = "R-printer-agreement"
    repo = ctx.repo
    tv = repo.find_function(f"{F_BC}::BaseCarver._test_viability")
    read = {n.slice.value for n in ast.walk(tv.node) if isinstance(n, ast.Subscript) and isinstance(n.slice, ast.Constant) and isinstance(n.slice.value, str) and "rates" in unparse(n.value)}
    read |= {c.args[0].value for c in calls(tv, "sort_values") if c.args and isinstance(c.args[0], ast.Constant)}
    ctx.ob(R, construct(tv, f"columns read by the viability test: {sorted(read)}"), read == {"target_rate", "frequency"}, loc(tv))
    want = {
        "BinaryCarver": {"target_rate": {"xtab[1].divide(xtab.sum(axis=1))", "xtab[1] / xtab.sum(axis=1)"}, "frequency": {"xtab.sum(axis=1) / xtab.sum().sum()", "xtab.sum(axis=1).divide(xtab.sum().sum())"}},
        "ContinuousCarver": {"target_rate": {"yval.apply(mean)"}, "frequency": {"yval.apply(len) / yval.apply(len).sum()"}},
    }
    for cname, cols in want.items():
        fi = repo.find_function(f"{cname}._printer")
        cfg = cfg_of(ctx, fi)
        dicts = [n for n in ast.walk(fi.node) if isinstance(n, ast.Dict) and {const_value(k) for k in n.keys} >= {"target_rate", "frequency"}]
        ok = len(dicts) == 1 and {const_value(k) for k in dicts[0].keys} == read
        ctx.ob(R, construct(fi, "returns exactly the columns the viability test reads"), ok, loc(fi))
        if dicts:
            got = {const_value(k): unparse(v) for k, v in zip(dicts[0].keys, dicts[0].values)}
            okf = all(got.get(k) in v for k, v in cols.items())
            ctx.ob(R, construct(fi, "frequency = group size / total, target_rate = mean target of the group"), okf, loc(fi), "" if okf else f"found {got}")
        # None passes through: the frame is only built under `x is not None`, default None returned
        p = fi.params[1] if len(fi.params) > 1 else None
        rets = [r for r in walk_no_nested(fi.node) if isinstance(r, ast.Return)]
        inits = [n for n in walk_no_nested(fi.node) if isinstance(n, ast.Assign) and isinstance(n.value, ast.Constant) and n.value.value is None]
        builds = [n for n in walk_no_nested(fi.node) if isinstance(n, ast.Assign) and any(d in list(ast.walk(n)) for d in dicts)]
        okn = bool(builds) and bool(inits) and all([(cmp_canon(t), pol) for t, pol in _flatten_conditions(cfg.path_conditions(b))] == [((p, "is not", "None"), True)] for b in builds) \
            and all(unparse(r.value) == unparse(inits[0].targets[0]) for r in rets)
        if cname == "BinaryCarver":
            ctx.ob(R, construct(fi, "None (no dev sample) passes through"), okn, loc(fi))


def rule_dropna_stage(ctx):
    R = "R-dropna-stage"
    fi = ctx.repo.find_function(f"{F_BC}::BaseCarver.fit")
    cl = [c for c in calls(fi, "convert_to_labels")]
    ok = len(cl) == 1 and const_value(next((k.value for k in cl[0].keywords if k.arg == "dropna"), ast.Constant(True))) is False
    ctx.ob(R, construct(fi, "labels used for carving keep the missing-value modality apart (dropna=False)"), ok, loc(fi, cl[0] if cl else None))
    fg = ctx.repo.find_function(f"{F_BC}::BaseCarver._get_best_combination")
    cs = [c for c in calls(fg, "_get_best_association")]
    ok = len(cs) == 2 and const_value(next((k.value for k in cs[1].keywords if k.arg == "dropna"), ast.Constant(False))) is True \
        and unparse(cs[0].args[2]) == "raw_xagg" and {k.arg: unparse(k.value) for k in cs[0].keywords}.get("xagg_dev") == "raw_xagg_dev"
    ctx.ob(R, construct(fg, "stage 1 searches on the tables without the NaN row, stage 2 on the full tables"), ok, loc(fg))


def check(ctx):
    carver.check_viability_formula(ctx, "R-viability-formula")
    carver.check_enum_bounds(ctx, "R-enum-bounds")
    rule_default(ctx)
    rule_printer(ctx)
    c04.rule_nan_restore(ctx)
    from . import c16

    c16.rule_nan_flag_source(ctx)
    carver.check_aggregate_fill(ctx, "R-aggregate-fill")
    rule_dropna_stage(ctx)
    carver.check_stage_results(ctx, "R-dropna-stage")
    carver.check_printer_raw(ctx, "R-printer-agreement")
    from . import c07

    c07.rule_index_kept(ctx)


MUTANTS = [
    M("min_freq_mod defaults to min_freq", [(F_BC, "            min_freq_mod = min_freq / 2", "            min_freq_mod = min_freq")], "R-default-minfreqmod", quick=True),
    M("default applied even when given", [(F_BC, "        if min_freq_mod is None:\n            min_freq_mod = min_freq / 2", "        if min_freq_mod is None or min_freq_mod > min_freq:\n            min_freq_mod = min_freq / 2")], "R-default-minfreqmod"),
    M("strict minimum frequency on dev", [(F_BC, "                    min_freq_dev = all(dev_rates[\"frequency\"] >= self.min_freq_mod)", "                    min_freq_dev = all(dev_rates[\"frequency\"] > self.min_freq_mod)")], "R-viability-formula", quick=True),
    M("min frequency not required on dev", [(F_BC, "                    dev_viable = ranks_train_dev and min_freq_dev and distinct_rates_dev", "                    dev_viable = ranks_train_dev and distinct_rates_dev")], "R-viability-formula"),
    M("nan alone even when max_n_mod is reached", [(F_BC, "        if len(combination) < max_n_mod:", "        if len(combination) <= max_n_mod:")], "R-enum-bounds", "group of their own"),
    M("binary printer renames a column", [(F_BIN, "                    \"frequency\": xtab.sum(axis=1) / xtab.sum().sum(),", "                    \"freq\": xtab.sum(axis=1) / xtab.sum().sum(),")], "R-printer-agreement", "BinaryCarver._printer"),
    M("continuous frequency is the raw count", [(F_CONT, "                    \"frequency\": yval.apply(len) / yval.apply(len).sum(),", "                    \"frequency\": yval.apply(len),")], "R-printer-agreement", "ContinuousCarver._printer"),
    M("binary frequency normalised by the target count", [(F_BIN, "                    \"frequency\": xtab.sum(axis=1) / xtab.sum().sum(),", "                    \"frequency\": xtab.sum(axis=1) / xtab[1].sum(),")], "R-printer-agreement", "BinaryCarver._printer"),
    M("NaN reinstated when dropna (polarity)", [(F_BASE, "            if not dropna:  # checking whether", "            if dropna:  # checking whether")], "R-nan-restore"),
    M("D2-reverted: crosstab reindexed without fill value", [(F_BIN, "xtab = xtab.reindex(labels_orders[feature], fill_value=0)", "xtab = xtab.reindex(labels_orders[feature])")], "R-aggregate-fill", "BinaryCarver", quick=True),
    M("statistics rounded for display before the viability test", [(F_BIN, "                    \"frequency\": xtab.sum(axis=1) / xtab.sum().sum(),\n                }\n            )", "                    \"frequency\": xtab.sum(axis=1) / xtab.sum().sum(),\n                }\n            ).round(4)")], "R-printer-agreement", "BinaryCarver._printer"),
    M("failed missing-value stage keeps the stage-1 carving", [(F_BC, "                # getting most associated combination\n                best_association, order = self._get_best_association(\n                    feature,\n                    order,\n                    xagg,\n                    combinations,\n                    xagg_dev=xagg_dev,\n                    dropna=True,\n                )", "                # getting most associated combination\n                nan_association, nan_order = self._get_best_association(\n                    feature,\n                    order,\n                    xagg,\n                    combinations,\n                    xagg_dev=xagg_dev,\n                    dropna=True,\n                )\n                if nan_association is not None:\n                    order = nan_order")], "R-dropna-stage", "search stage"),
    M("index=X.index dropped", [(F_BASE, "{feature: values for feature, values in all_transformed}, index=X.index\n", "{feature: values for feature, values in all_transformed}\n")], "R-index-kept"),
    M("NaN grouped before carving", [(F_BC, "            values_orders=self.values_orders,\n            str_nan=self.str_nan,\n            dropna=False,\n        )\n\n        # computing crosstabs", "            values_orders=self.values_orders,\n            str_nan=self.str_nan,\n            dropna=True,\n        )\n\n        # computing crosstabs")], "R-dropna-stage"),
    M("stage 1 searches with the NaN row", [(F_BC, "                feature,\n                order,\n                raw_xagg,\n                combinations,\n                xagg_dev=raw_xagg_dev,", "                feature,\n                order,\n                xagg,\n                combinations,\n                xagg_dev=xagg_dev,")], "R-dropna-stage", "stage 1"),
]
MUTANTS += [
    M("frequencies rounded before the threshold test", [(F_BC, "            min_freq_train = all(train_rates[\"frequency\"] >= self.min_freq_mod)", "            min_freq_train = all(train_rates[\"frequency\"].round(2) >= self.min_freq_mod)")], "R-viability-formula"),
]
BENIGN = [
    B("default written as a product", [(F_BC, "            min_freq_mod = min_freq / 2", "            min_freq_mod = 0.5 * min_freq")]),
    B("binary target rate with /", [(F_BIN, "                    \"target_rate\": xtab[1].divide(xtab.sum(axis=1)),", "                    \"target_rate\": xtab[1] / xtab.sum(axis=1),")]),
]
