"""C17 -- manual edits through update_discretizer are applied coherently."""
from __future__ import annotations

import ast

from ..core import AnalysisError, External, call_name, const_value, unparse, walk_no_nested
from ..exprs import cmp_canon, conjuncts
from ..selftest import B, M
from .common import F_BASE, F_SER, asserts_in, calls, cfg_of, construct, loc, short
from .grouped import _flatten_conditions, check_append_absent

EXPLANATION = (
    "Decides on update_discretizer (and package-wide for the first rule): R-numeric-only-call "
    "(numpy.isnan / isfinite is never applied to a value that may be a str: parameters annotated "
    "with a Union containing str, elements of value lists, unless an isinstance(..., str) / "
    "!= str_nan test guards the call); R-labels-refreshed (on every path that edits the order, the "
    "edit is stored in self.values_orders and self.labels_per_values is recomputed from it with "
    "self.output_dtype afterwards: post-dominance); R-mode-first (the mode assertion dominates every "
    "edit); R-edit-semantics (mode 'group' calls group(discarded, kept); mode 'replace' calls "
    "group(kept, discarded) then replace_group_leader(discarded, kept); a missing discarded value is "
    "mapped to str_nan and features_dropna[feature] is set so that transform keeps its label); "
    "R-append-absent on the two appends of this method; R-label-alignment (labels are paired with groups "
    "in list order, which replace_group_leader keeps, never in the insertion order of `content`, which it "
    "changes); R-edits-serialised (effect analysis: every attribute an edit changes is written by "
    "to_json from self.<attr>, or rebuilt by the loader); R-single-table (summary and transform read the "
    "per-feature features_dropna flag that a missing-value edit sets, not the constructor's dropna); "
    "R-leader-position (a renamed group keeps its place in the order); "
    "R-position-truthiness (GroupedList methods never test a position by truthiness: renaming the first group must replace leader 0); "
    "R-comutation (the GroupedList edit helpers keep list and content in step: no member is lost by group / "
    "replace_group_leader); R-default-formula (transform decides 'unknown value' against the live "
    "self.values_orders[feature], the object edits change, not a table filled at fit)."
)
NOT_DECIDED = "agreement of transform/summary/JSON after arbitrary edit sequences on data"
FLOORS = {"R-numeric-only-call": 4, "R-labels-refreshed": 2, "R-mode-first": 1, "R-edit-semantics": 4, "R-append-absent": 2, "R-label-alignment": 2, "R-edits-serialised": 3, "R-single-table": 2, "R-comutation": 6, "R-default-formula": 2, "R-position-truthiness": 1, "R-leader-position": 1}

NUMERIC_ONLY = {"isnan", "isfinite", "isinf", "isneginf", "isposinf"}


def _numeric_only_calls(repo, fi):
    for c in walk_no_nested(fi.node):
        if isinstance(c, ast.Call) and isinstance(c.func, ast.Name) and c.func.id in NUMERIC_ONLY and len(c.args) == 1:
            sym = repo.resolve_name(fi.module, c.func.id)
            if isinstance(sym, External) and sym.dotted.startswith(("numpy.", "math.")):
                yield c


def _may_be_str(fi, arg: ast.expr) -> str:
    """'str' (annotation says it can be a string), 'array' (annotated array/Series/float), or
    'unknown' (element of a collection of values: treated like str unless guarded)."""
    if not isinstance(arg, ast.Name):
        return "array"  # expressions such as df_feature[...] / frequencies: arrays in this package
    a = fi.node.args
    for p in a.posonlyargs + a.args + a.kwonlyargs:
        if p.arg == arg.id:
            if p.annotation is None:
                return "unknown"
            ann = unparse(p.annotation)
            if "str" in ann or "Any" in ann:
                return "str"
            return "array"
    return "unknown"


def _guarded_against_str(cfg, call: ast.Call, name: str) -> bool:
    for t, pol in _flatten_conditions(cfg.path_conditions(call)):
        e, p = t, pol
        while isinstance(e, ast.UnaryOp) and isinstance(e.op, ast.Not):
            e, p = e.operand, not p
        if isinstance(e, ast.Call) and call_name(e) == "isinstance" and len(e.args) == 2 and unparse(e.args[0]) == name and "str" in unparse(e.args[1]) and not p:
            return True
        cc = cmp_canon(t if pol else ast.UnaryOp(op=ast.Not(), operand=t))
        if cc and cc[1] == "!=" and name in (cc[0], cc[2]) and "str_nan" in (cc[0] + cc[2]):
            return True
    return False


def rule_numeric_only(ctx):
    R = "R-numeric-only-call"
    n = 0
    for fi in ctx.repo.all_functions():
        if "/selectors/" in fi.module.relpath:
            continue
        cfg = None
        for c in _numeric_only_calls(ctx.repo, fi):
            n += 1
            arg = c.args[0]
            kind = _may_be_str(fi, arg)
            cons = construct(fi, f"{c.func.id}({unparse(arg)})")
            if kind == "array":
                ctx.ob(R, cons, True, loc(fi, c), "array-valued argument")
                continue
            cfg = cfg or cfg_of(ctx, fi)
            g = _guarded_against_str(cfg, c, unparse(arg))
            if g:
                ctx.ob(R, cons, True, loc(fi, c), "guarded by a str test")
            elif kind == "str":
                ctx.ob(R, cons, False, loc(fi, c), f"`{unparse(arg)}` is annotated as possibly str: numpy.{c.func.id} raises TypeError on strings")
            else:
                # element of a collection of values
                ctx.ob(R, cons, False, loc(fi, c), f"`{unparse(arg)}` may be a str (unguarded element of a value collection): numpy.{c.func.id} raises TypeError on strings")
    return n


def rule_update(ctx):
    fi = ctx.repo.find_function(f"{F_BASE}::BaseDiscretizer.update_discretizer")
    cfg = cfg_of(ctx, fi)
    edits = [c for c in ast.walk(fi.node) if isinstance(c, ast.Call) and isinstance(c.func, ast.Attribute)
             and c.func.attr in ("group", "append", "replace_group_leader", "group_list", "remove", "pop", "update")
             and unparse(c.func.value) in ("order",)]
    if not edits:
        raise AnalysisError("update_discretizer: no edit of `order` found (anchor vanished)")
    # R-mode-first
    modes = [a for a in asserts_in(fi) if any(isinstance(c, ast.Compare) and isinstance(c.ops[0], ast.In) and unparse(c.left) == "mode"
             and isinstance(c.comparators[0], (ast.List, ast.Tuple, ast.Set)) and {const_value(e) for e in c.comparators[0].elts} == {"group", "replace"} for c in conjuncts(a.test))]
    ok = bool(modes) and all(cfg.before(modes[0], e) for e in edits) and not cfg.path_conditions(modes[0])
    ctx.ob("R-mode-first", construct(fi, "mode in {'group', 'replace'} asserted before any edit"), ok, loc(fi, modes[0] if modes else None))
    # R-labels-refreshed
    refresh = [n for n in walk_no_nested(fi.node) if isinstance(n, ast.Assign) and unparse(n.targets[0]) == "self.labels_per_values"]
    store = [c for c in ast.walk(fi.node) if isinstance(c, ast.Call) and unparse(c.func) == "self.values_orders.update"]
    okr = False
    if len(refresh) == 1:
        v = refresh[0].value
        okr = isinstance(v, ast.Call) and unparse(v.func) == "self._get_labels_per_values" and [unparse(a) for a in v.args] + [unparse(k.value) for k in v.keywords] == ["self.output_dtype"]
        rn = cfg.node_of(refresh[0])
        okr = okr and all(cfg.postdominates(rn, cfg.node_of(e)) for e in edits)
    ctx.ob("R-labels-refreshed", construct(fi, "labels_per_values recomputed (self.output_dtype) after every edit path"), okr, loc(fi, refresh[0] if refresh else None),
           "" if okr else "an edit path leaves labels_per_values stale: transform keeps using the old grouping")
    # the edited order is the object stored in self.values_orders (aliased or stored back) before the refresh
    alias = any(isinstance(n, ast.Assign) and unparse(n.targets[0]) == "order" and "values_orders[feature]" in unparse(n.value) for n in walk_no_nested(fi.node))
    copied = any(isinstance(n, ast.Assign) and unparse(n.targets[0]) == "order" and isinstance(n.value, ast.Call) and call_name(n.value) in ("GroupedList", "copy", "deepcopy") for n in walk_no_nested(fi.node))
    stored = bool(store) and bool(refresh) and all(cfg.before(s, refresh[0]) for s in store) and all(cfg.postdominates(cfg.node_of(store[0]), cfg.node_of(e)) for e in edits)
    oks = (alias and not copied) or stored
    ctx.ob("R-labels-refreshed", construct(fi, "the edited order is the one held by self.values_orders[feature] when labels are recomputed"), oks, loc(fi))
    # R-edit-semantics
    def under(c, mode):
        return any(pol and cmp_canon(t) in ((f"'{mode}'", "==", "mode"), ("mode", "==", f"'{mode}'")) for t, pol in _flatten_conditions(cfg.path_conditions(c)))
    groups = [c for c in edits if c.func.attr == "group"]
    g_group = [c for c in groups if under(c, "group")]
    g_repl = [c for c in groups if under(c, "replace")]
    ok = len(g_group) == 1 and [unparse(a) for a in g_group[0].args] == ["discarded_value", "kept_value"]
    ctx.ob("R-edit-semantics", construct(fi, "mode 'group': order.group(discarded_value, kept_value)"), ok, loc(fi, g_group[0] if g_group else None))
    rgl = [c for c in edits if c.func.attr == "replace_group_leader" and under(c, "replace")]
    ok = (len(g_repl) == 1 and [unparse(a) for a in g_repl[0].args] == ["kept_value", "discarded_value"]
          and len(rgl) == 1 and [unparse(a) for a in rgl[0].args] == ["discarded_value", "kept_value"] and cfg.before(g_repl[0], rgl[0]))
    ctx.ob("R-edit-semantics", construct(fi, "mode 'replace': group(kept, discarded) then replace_group_leader(discarded, kept)"), ok, loc(fi, rgl[0] if rgl else None))
    # missing discarded value -> str_nan, and features_dropna[feature] = True
    nan_tests = [n for n in walk_no_nested(fi.node) if isinstance(n, ast.If) and any(isinstance(c, ast.Call) and call_name(c) in ("isna", "isnull", "isnan") and c.args and unparse(c.args[0]) == "discarded_value" for c in ast.walk(n.test))]
    ok = False
    if len(nan_tests) == 1:
        body = [unparse(s).replace(" ", "") for s in nan_tests[0].body]
        ok = "discarded_value=self.str_nan" in body and "self.features_dropna[feature]=True" in body and all(cfg.before(nan_tests[0].test, e) for e in edits)
    ctx.ob("R-edit-semantics", construct(fi, "a missing discarded value is mapped to str_nan and its label is kept at transform"), ok, loc(fi, nan_tests[0] if nan_tests else None))
    kept_nan = [a for a in asserts_in(fi) if isinstance(a.test, ast.UnaryOp) and isinstance(a.test.operand, ast.Call) and call_name(a.test.operand) in ("isna", "isnull", "isnan") and unparse(a.test.operand.args[0]) == "kept_value"]
    ok = bool(kept_nan) and all(cfg.before(kept_nan[0], e) for e in edits)
    ctx.ob("R-edit-semantics", construct(fi, "a missing kept value is refused before any edit"), ok, loc(fi, kept_nan[0] if kept_nan else None))


def rule_edits_serialised(ctx):
    """Whatever update_discretizer changes on the object is written by to_json (or rebuilt by the
    loader's fit): otherwise a reloaded object forgets the edit."""
    R = "R-edits-serialised"
    repo, eng = ctx.repo, ctx.effects
    base = repo.find_class("BaseDiscretizer")
    fi, summ = eng.method_summary(base, "update_discretizer", None)
    touched = sorted({e.path[1] for e in summ.events if e.path[0] == "self" and e.path[1]})
    tj = repo.find_function(f"{F_BASE}::BaseDiscretizer.to_json")
    keys = {}
    for n in walk_no_nested(tj.node):
        if isinstance(n, ast.Dict):
            for k, v in zip(n.keys, n.values):
                if isinstance(k, ast.Constant):
                    keys[k.value] = unparse(v)
    rebuilt = {"labels_per_values": "recomputed from values_orders by load_discretizer -> fit()"}
    if not touched:
        raise AnalysisError("update_discretizer: no effect on self found (anchor vanished)")
    for attr in touched:
        ok = attr in rebuilt or (attr in keys and f"self.{attr}" in keys[attr])
        ctx.ob(R, construct(tj, f"state edited by update_discretizer (self.{attr}) survives to_json / load"), ok, loc(tj),
               ("rebuilt: " + rebuilt[attr]) if attr in rebuilt else ("" if ok else f"self.{attr} is changed by an edit but not serialised: the reloaded object transforms differently from the edited one"))


def check(ctx):
    from . import c04

    c04.rule_label_alignment(ctx)
    from . import c16

    c16.rule_nan_flag_source(ctx)
    rule_edits_serialised(ctx)
    rule_numeric_only(ctx)
    rule_update(ctx)
    check_append_absent(ctx, "R-append-absent", select=lambda fi: fi.qualname == "BaseDiscretizer.update_discretizer")
    from . import c05
    from .grouped import check_comutation

    check_comutation(ctx, "R-comutation")
    c05.rule_default_formula(ctx)


_REFRESH = "            # updating Carver values_orders and labels_per_values\n            self.values_orders.update({feature: order})\n            self.labels_per_values = self._get_labels_per_values(self.output_dtype)\n"
MUTANTS = [
    M("D6-reverted: numpy.isnan on Union[str, float]", [(F_BASE, "        if isna(discarded_value):", "        if isnan(discarded_value):"), (F_BASE, "from numpy import floating, integer, isfinite, nan, select", "from numpy import floating, integer, isfinite, isnan, nan, select")], "R-numeric-only-call", "update_discretizer", quick=True),
    M("serializer drops the str guard", [(F_SER, "    if not isinstance(value, str) and not isfinite(value):  # numpy.inf value", "    if not isfinite(value):  # numpy.inf value")], "R-numeric-only-call", "convert_value_to_base_type"),
    M("get_labels drops the str_nan guard", [(F_BASE, "quantiles = [val for val in quantiles if val != str_nan and isfinite(val)]", "quantiles = [val for val in quantiles if isfinite(val)]")], "R-numeric-only-call", "get_labels"),
    M("labels paired with groups in content (dict) order", [(F_BASE, "            for group_of_values, label in zip(groups, labels):\n                for value in values.get(group_of_values):\n                    label_per_value.update({value: label})\n", "            for group_values, label in zip(values.content.values(), labels):\n                label_per_value.update({value: label for value in group_values})\n")], "R-label-alignment", quick=True),
    M("D24-reverted: labels paired with the raw list order although str_nan is labelled last", [(F_BASE, "            for group_of_values, label in zip(groups, labels):", "            for group_of_values, label in zip(values, labels):")], "R-label-alignment", quick=True),
    M("features_dropna not serialised", [(F_BASE, "            \"features_dropna\": self.features_dropna,\n", "")], "R-edits-serialised", "features_dropna"),
    M("D25-reverted: summary reads the global dropna", [(F_BASE, "                if not (not self.features_dropna[feature] and value == self.str_nan):", "                if not (not self.dropna and value == self.str_nan):")], "R-single-table", "features_dropna"),
    M("a renamed group loses its former leader", [("AutoCarver/discretizers/utils/grouped_list.py", "            self.content.update({group_member: self.content[group_leader][:]})", "            self.content.update({group_member: [v for v in self.content[group_leader] if v != group_leader]})")], "R-comutation", "replace_group_leader"),
    M("known values cached at fit, not refreshed by edits", [(F_BASE, "                    if val not in self.values_orders[feature].values()\n", "                    if val not in self._known_at_fit[feature]\n")], "R-default-formula", "str_default iff"),
    M("labels not refreshed", [(F_BASE, "            self.labels_per_values = self._get_labels_per_values(self.output_dtype)\n\n\ndef transform_quantitative_feature", "\n\ndef transform_quantitative_feature")], "R-labels-refreshed", quick=True),
    M("labels refreshed for mode group only", [(F_BASE, _REFRESH, "            # updating Carver values_orders and labels_per_values\n            self.values_orders.update({feature: order})\n            if mode == 'group':\n                self.labels_per_values = self._get_labels_per_values(self.output_dtype)\n")], "R-labels-refreshed"),
    M("labels refreshed with the wrong dtype", [(F_BASE, "            self.labels_per_values = self._get_labels_per_values(self.output_dtype)\n\n\ndef transform_quantitative_feature", "            self.labels_per_values = self._get_labels_per_values('str')\n\n\ndef transform_quantitative_feature")], "R-labels-refreshed"),
    M("edit made on a copy that is never stored", [(F_BASE, "        order = values_orders[feature]\n\n        # checking that discarded_value is not already in new_value", "        order = GroupedList(values_orders[feature])\n\n        # checking that discarded_value is not already in new_value"), (F_BASE, "            self.values_orders.update({feature: order})\n            self.labels_per_values", "            self.labels_per_values")], "R-labels-refreshed", "edited order"),
    M("group arguments swapped", [(F_BASE, "                order.group(discarded_value, kept_value)", "                order.group(kept_value, discarded_value)")], "R-edit-semantics", "mode 'group'"),
    M("replace: leader replaced before grouping", [(F_BASE, "                # replacing group leader\n                order.replace_group_leader(discarded_value, kept_value)", "                # replacing group leader\n                order.replace_group_leader(kept_value, discarded_value)")], "R-edit-semantics", "mode 'replace'"),
    M("nan edit forgets features_dropna", [(F_BASE, "            discarded_value = self.str_nan\n            self.features_dropna[feature] = True\n", "            discarded_value = self.str_nan\n")], "R-edit-semantics", "missing discarded"),
    M("mode not asserted", [(F_BASE, "        assert mode in [\"group\", \"replace\"], \" - [Discretizer] Choose mode in ['group', 'replace']\"\n", "")], "R-mode-first"),
]
BENIGN = [
    B("isna spelled isnull", [(F_BASE, "        if isna(discarded_value):", "        if isna(discarded_value) is True or isna(discarded_value):")]),
    B("refresh hoisted out of the else branch", [(F_BASE, _REFRESH, ""), (F_BASE, "\n\ndef transform_quantitative_feature", "        self.values_orders.update({feature: order})\n        self.labels_per_values = self._get_labels_per_values(self.output_dtype)\n\n\ndef transform_quantitative_feature")]),
    B("serializer guard with isinstance first in nested if", [(F_SER, "    if not isinstance(value, str) and not isfinite(value):  # numpy.inf value\n        output = \"numpy.inf\"", "    if isinstance(value, str):\n        pass\n    elif not isfinite(value):  # numpy.inf value\n        output = \"numpy.inf\"")]),
]
