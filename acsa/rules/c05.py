"""C05 -- unseen data is given fitted labels or rejected, never passed through."""
from __future__ import annotations

import ast

from ..core import AnalysisError, External, call_name, kwarg, unparse, walk_no_nested
from ..exprs import cmp_canon, conjuncts, inline, p_and, p_atom, p_equiv, p_show, single_defs, to_prop
from ..selftest import B, M
from .common import F_BASE, F_QUAN, asserts_in, calls, cfg_of, construct, loc, short
from . import c19

EXPLANATION = (
    "Decides on the transform path of BaseDiscretizer: R-check-before-replace (the unknown-value "
    "check dominates the label replacement, works on the same frame, and inside it the rejecting "
    "assertion `no value outside values_orders[f].values()` runs for every feature before the frame "
    "is returned); R-default-formula (boolean provenance: a value is rewritten to str_default iff "
    "unknown AND not the missing-value sentinel AND the feature has a default group, truth-table "
    "equivalence); R-nan-assert (in transform_quantitative_feature the assertion that str_nan is a "
    "known modality precedes every write at the missing rows); R-total-cover (quantitative orders end "
    "with numpy.inf, so `select`'s default is unreachable for finite numbers, and the interval test is "
    "`data <= boundary`); R-missing-columns (column check on every transform, before any "
    "transformation); R-names-feature (both rejections name the feature); R-assert-only; R-index-kept (labels "
    "are stored with index=X.index, otherwise rows of a frame with another index get NaN instead of a fitted label); "
    "R-forward-sentinels (every inner discretizer receives the outer str_nan / str_default, so the default group "
    "and the missing-value modality written at fit are the ones transform looks for); R-numeric-only-call "
    "(numpy.isnan/isfinite never sees a possibly non-numeric value: TypeError instead of a label or an "
    "AssertionError); assertion messages cannot themselves raise."
)
NOT_DECIDED = "implicit exceptions raised inside pandas/numpy (KeyError/TypeError) cannot be excluded statically"
FLOORS = {"R-json-keys": 3, "R-check-before-replace": 4, "R-default-formula": 2, "R-nan-assert": 3, "R-label-alignment": 2, "R-total-cover": 3, "R-missing-columns": 2, "R-names-feature": 2, "R-assert-only": 2, "R-index-kept": 1, "R-forward-sentinels": 8, "R-numeric-only-call": 4}


def rule_check_before_replace(ctx):
    R = "R-check-before-replace"
    fi = ctx.repo.find_function(f"{F_BASE}::BaseDiscretizer._transform_qualitative")
    cfg = cfg_of(ctx, fi)
    chk = calls(fi, "_check_new_values")
    reps = [c for c in calls(fi, "replace") if "labels_per_values" in unparse(c)]
    if not reps:
        # labels applied in another way: every statement that reads the label table must come after the check
        uses = [n for n in walk_no_nested(fi.node) if isinstance(n, ast.Attribute) and n.attr == "labels_per_values"]
        if not uses:
            raise AnalysisError("_transform_qualitative: no use of labels_per_values found (anchor vanished)")
        ok = bool(chk) and all(cfg.before(chk[0], u) for u in uses) and not cfg.path_conditions(chk[0])
        ctx.ob(R, construct(fi, "unknown-value check dominates the label replacement"), ok, loc(fi, uses[0]),
               "" if ok else "values outside the fitted orders would be labelled or pass through before being checked")
        feats = unparse(kwarg(chk[0], "features") or (chk[0].args[1] if len(chk[0].args) > 1 else ast.Constant(None))) if chk else ""
        ctx.ob(R, construct(fi, "the checked frame is the replaced frame, over all qualitative features"), feats == "self.qualitative_features", loc(fi))
        rep = None
    else:
        rep = reps[0]
    ok = bool(chk) and rep is not None and cfg.before(chk[0], rep) and not cfg.path_conditions(chk[0])
    if rep is None:
        chk = []
    if rep is not None:
        ctx.ob(R, construct(fi, "unknown-value check dominates the label replacement"), ok, loc(fi, rep),
               "" if ok else "values outside the fitted orders would pass through `replace` unchanged")
    if chk and rep is not None:
        recv = unparse(rep.func.value)
        par = cfg.parent(chk[0])
        same = (isinstance(par, ast.Assign) and unparse(par.targets[0]) == recv) or (chk[0].args and unparse(chk[0].args[0]) == recv)
        feats = unparse(kwarg(chk[0], "features") or (chk[0].args[1] if len(chk[0].args) > 1 else ast.Constant(None)))
        ctx.ob(R, construct(fi, "the checked frame is the replaced frame, over all qualitative features"), same and feats == "self.qualitative_features", loc(fi, chk[0]))
    fc = ctx.repo.find_function(f"{F_BASE}::BaseDiscretizer._check_new_values")
    found = c19._find_assert(fc, lambda t, a: any(
        (cc := cmp_canon(c)) and cc[1] == "==" and "0" in (cc[0], cc[2]) and "values_orders" in unparse(c) and ".values()" in unparse(c)
        and any(isinstance(n, ast.Compare) and isinstance(n.ops[0], ast.NotIn) for n in ast.walk(c)) for c in conjuncts(t)))
    cfgc = cfg_of(ctx, fc)
    ok = False
    for a in found:
        loops = [l for l in cfgc.enclosing_loops(a) if isinstance(l, ast.For)]
        conds = cfgc.path_conditions(a)
        if len(loops) == 1 and unparse(loops[0].iter) == "features" and not conds:
            ok = True
    ctx.ob(R, construct(fc, "rejecting assertion runs for every checked feature"), ok, loc(fc, found[0] if found else None),
           "" if ok else "an unseen category without default group would not raise AssertionError")
    # the unique values tested by the assertion are recomputed after the default replacement
    rets = [n for n in walk_no_nested(fc.node) if isinstance(n, ast.Return)]
    ok = bool(found) and all(cfgc.before(found[0], r) or any(l for l in cfgc.enclosing_loops(found[0])) and cfgc.reachable(cfgc.node_of(found[0]), cfgc.node_of(r)) for r in rets)
    ctx.ob(R, construct(fc, "the frame is returned only after the check"), ok, loc(fc))


def rule_default_formula(ctx):
    R = "R-default-formula"
    fc = ctx.repo.find_function(f"{F_BASE}::BaseDiscretizer._check_new_values")
    # the inner dict comprehension {val: self.str_default for val in uniques[feature] if ...}
    comps = [n for n in ast.walk(fc.node) if isinstance(n, ast.DictComp) and unparse(n.value) == "self.str_default"]
    if len(comps) != 1:
        ctx.ob(R, construct(fc, "replacement map {unknown value: str_default}"), False if not comps else None, loc(fc),
               "no mapping of unknown values to self.str_default: unseen categories of a feature with a default group would be rejected or leak")
        return
    dc = comps[0]
    val = unparse(dc.key)
    ok_key = isinstance(dc.key, ast.Name) and unparse(dc.generators[0].target) == val and "uniques[feature]" in unparse(dc.generators[0].iter)
    ctx.ob(R, construct(fc, "every observed value is a candidate key"), ok_key, loc(fc, dc))

    fdefs = single_defs(fc.node)

    def classify(e):
        cc = cmp_canon(e)
        if cc is None:
            return None
        l, op, r = cc
        known = "self.values_orders[feature].values()"
        if op in ("in", "not in") and r != known and isinstance(e, ast.Compare) and len(e.comparators) == 1:
            # a local alias of the live order is the live order; any other table (a cache filled at fit
            # ...) is not: update_discretizer edits self.values_orders only
            src = unparse(inline(fc.node, e.comparators[0], defs=fdefs))
            if src == known:
                r = known
            elif "self." in src and l in (val, "self.str_default"):
                a = p_atom(f"MEMBER_OF_OTHER_TABLE[{src[:60]}]")
                return a if op == "in" else ("not", a)
        if l == val and r == known and op in ("not in", "in"):
            return p_atom("UNKNOWN") if op == "not in" else ("not", p_atom("UNKNOWN"))
        if {l, r} == {val, "self.str_nan"} and op in ("!=", "=="):
            return p_atom("NOT_NAN") if op == "!=" else ("not", p_atom("NOT_NAN"))
        if l == "self.str_default" and r == known and op in ("in", "not in"):
            return p_atom("HAS_DEFAULT") if op == "in" else ("not", p_atom("HAS_DEFAULT"))
        return None

    conds = []
    for g in dc.generators:
        conds += g.ifs
    test = ast.BoolOp(op=ast.And(), values=conds) if len(conds) > 1 else (conds[0] if conds else ast.Constant(True))
    prop = to_prop(test, classify)
    if prop is None:
        ctx.ob(R, construct(fc, "value -> str_default iff unknown and not str_nan and default group exists"), None, loc(fc, dc),
               f"unclassifiable atom in `{short(test)}`")
        return
    want = p_and(p_atom("UNKNOWN"), p_atom("NOT_NAN"), p_atom("HAS_DEFAULT"))
    diff = p_equiv(prop, want)
    ctx.ob(R, construct(fc, "value -> str_default iff unknown and not str_nan and default group exists"), diff is None, loc(fc, dc),
           "" if diff is None else f"condition is {p_show(prop)}; differs from the statement when {diff}")


def rule_nan_assert(ctx):
    R = "R-nan-assert"
    fi = ctx.repo.find_function(f"{F_BASE}::transform_quantitative_feature")
    cfg = cfg_of(ctx, fi)
    guards = [a for a in asserts_in(fi) if any(isinstance(c, ast.Call) and call_name(c) == "contains" and "str_nan" in unparse(c) for c in ast.walk(a.test))
              or any((cc := cmp_canon(c)) and cc[0] == "str_nan" and cc[1] == "in" for c in conjuncts(a.test))]
    ok = False
    gcond = None
    for a in guards:
        conds = cfg.path_conditions(a)
        if len(conds) == 1 and conds[0][1] and "nans" in unparse(conds[0][0]):
            ok, gcond, guard = True, unparse(conds[0][0]), a
    ctx.ob(R, construct(fi, "missing values at transform require str_nan to be a fitted modality"), ok, loc(fi, guards[0] if guards else None),
           "" if ok else "missing values in a feature that had none at fit would silently pass through or get an arbitrary label")
    # the scan for missing values is unconditional and over the whole column: every dtype can hold
    # a missing value (nullable Int64 / boolean hold pandas.NA), so no dtype shortcut may skip it
    scans = [n for n in walk_no_nested(fi.node) if isinstance(n, ast.Assign) and unparse(n.targets[0]) == "nans"]
    ok_scan = len(scans) == 1 and unparse(scans[0].value).replace(" ", "") in ("isna(df_feature)", "df_feature.isna()", "isnull(df_feature)", "df_feature.isnull()") and not cfg.path_conditions(scans[0])
    defs_ = single_defs(fi.node)
    tests_ok = True
    if ok:
        t = unparse(inline(fi.node, ast.parse(gcond, mode="eval").body, defs={k: v for k, v in defs_.items() if k != "nans"})).replace(" ", "")
        tests_ok = t in ("any(nans)", "nans.any()", "bool(nans.any())", "bool(any(nans))")
    ctx.ob(R, construct(fi, "the missing-value scan covers the whole column, whatever its dtype"), ok_scan and tests_ok, loc(fi, scans[0] if scans else None),
           "" if (ok_scan and tests_ok) else "the scan is skipped or narrowed under a condition: a missing value in such a column reaches numpy.select (TypeError) instead of the assertion that names the feature")
    if not ok:
        return
    # every write at the missing rows happens under the same test, after the assertion
    stores = [n for n in walk_no_nested(fi.node) if isinstance(n, ast.Assign) and any(isinstance(t, ast.Subscript) and unparse(t.slice) == "nans" for t in n.targets)]
    good = True
    for s in stores:
        conds = cfg.path_conditions(s)
        same = any(pol and unparse(t) == gcond for t, pol in conds)
        good = good and same and s.lineno > guard.lineno
    ctx.ob(R, construct(fi, f"all {len(stores)} writes at the missing rows are governed by the asserted test"), good and bool(stores), loc(fi))


def rule_total_cover(ctx):
    R = "R-total-cover"
    ff = ctx.repo.find_function(f"{F_QUAN}::fit_feature")
    gl = [c for c in calls(ff, "GroupedList")]
    ok = False
    for c in gl:
        if c.args and isinstance(c.args[0], ast.BinOp) and isinstance(c.args[0].op, ast.Add):
            right = c.args[0].right
            if isinstance(right, ast.List) and len(right.elts) == 1:
                sym = ctx.repo.resolve_expr(ff.module, right.elts[0])
                if isinstance(sym, External) and sym.dotted in ("numpy.inf", "math.inf", "numpy.Inf"):
                    ok = True
    ctx.ob(R, construct(ff, "boundaries end with +inf"), ok, loc(ff, gl[0] if gl else None),
           "" if ok else "values above the training maximum would match no interval and pass through raw")
    fi = ctx.repo.find_function(f"{F_BASE}::transform_quantitative_feature")
    defs = single_defs(fi.node)
    masks = defs.get("values_to_group")
    ok = False
    if isinstance(masks, ast.ListComp) and isinstance(masks.elt, ast.Compare) and len(masks.elt.ops) == 1:
        cc = cmp_canon(masks.elt)
        tgt = unparse(masks.generators[0].target)
        ok = cc == ("df_feature", "<=", tgt)
    ctx.ob(R, construct(fi, "interval test is data <= boundary (right-closed)"), ok, loc(fi, masks))
    sel = calls(fi, "select")
    ok = len(sel) == 1 and [unparse(a) for a in sel[0].args[:2]] == ["values_to_group", "group_labels"]
    ctx.ob(R, construct(fi, "labels assigned through select(masks, labels)"), ok, loc(fi, sel[0] if sel else None))


def rule_missing_columns(ctx):
    R = "R-missing-columns"
    fi = ctx.repo.find_function(f"{F_BASE}::BaseDiscretizer.transform")
    cfg = cfg_of(ctx, fi)
    prep = [c for c in ast.walk(fi.node) if isinstance(c, ast.Call) and call_name(c) in ("__prepare_data", "_prepare_data")]
    tr = [c for c in ast.walk(fi.node) if isinstance(c, ast.Call) and call_name(c) in ("_transform_quantitative", "_transform_qualitative")]
    ok = len(prep) == 1 and not cfg.path_conditions(prep[0]) and all(cfg.before(prep[0], t) for t in tr) and bool(tr)
    ctx.ob(R, construct(fi, "input validation precedes every transformation"), ok, loc(fi, prep[0] if prep else None))
    # the validator called is BaseDiscretizer's own (name-mangled alias), whatever the subclass overrides
    base = ctx.repo.find_class("BaseDiscretizer")
    target = ctx.repo.lookup_private(base, call_name(prep[0])) if prep and call_name(prep[0]).startswith("__") else (ctx.repo.lookup_method(base, "_prepare_data") if prep else None)
    has_assert = False
    if target is not None:
        has_assert = bool(c19._find_assert(target, lambda t, a: any(
            (cc := cmp_canon(c)) and cc[1] == "==" and "0" in (cc[0], cc[2]) and "features" in unparse(c)
            and any(isinstance(n, ast.Compare) and isinstance(n.ops[0], ast.NotIn) for n in ast.walk(c)) for c in conjuncts(t))))
    ctx.ob(R, construct(fi, "the validator asserts that every fitted feature is a column"), has_assert, loc(fi))


def rule_names_feature(ctx):
    R = "R-names-feature"
    for spec, needle in ((f"{F_BASE}::BaseDiscretizer._check_new_values", "values_orders"), (f"{F_BASE}::transform_quantitative_feature", "str_nan")):
        fi = ctx.repo.find_function(spec)
        ok = False
        for a in asserts_in(fi):
            if needle in unparse(a.test) or needle in unparse(inline(fi.node, a.test)):
                ok = ok or (a.msg is not None and any(isinstance(n, ast.FormattedValue) and "feature" in unparse(n.value) for n in ast.walk(a.msg)))
        ctx.ob(R, construct(fi, "the AssertionError message names the feature"), ok, loc(fi))


def check(ctx):
    rule_check_before_replace(ctx)
    rule_default_formula(ctx)
    rule_nan_assert(ctx)
    from . import c04, c06

    c04.rule_label_alignment(ctx)
    c06.rule_json_keys(ctx)  # a reloaded object must treat unseen data like the fitted one (str_default, str_nan ...)
    rule_total_cover(ctx)
    rule_missing_columns(ctx)
    rule_names_feature(ctx)
    c19.rule_assert_only(ctx)
    c19.rule_assert_message_total(ctx)
    from . import c17, quant

    quant.check_forward_sentinels(ctx, "R-forward-sentinels")
    c17.rule_numeric_only(ctx)
    from . import c07

    c07.rule_index_kept(ctx)


MUTANTS = [
    M("check after replace", [(F_BASE, "        # checking that all unique values in X are in values_orders\n        X = self._check_new_values(X, features=self.qualitative_features)\n\n        # replacing values for there corresponding label\n        X = X.replace(\n            {\n                feature: label_per_value\n                for feature, label_per_value in self.labels_per_values.items()\n                if feature in self.qualitative_features\n            }\n        )\n",
       "        # replacing values for there corresponding label\n        X = X.replace(\n            {\n                feature: label_per_value\n                for feature, label_per_value in self.labels_per_values.items()\n                if feature in self.qualitative_features\n            }\n        )\n        X = self._check_new_values(X, features=self.qualitative_features)\n")], "R-check-before-replace", "dominates", quick=True),
    M("missing-value scan skipped for integer / boolean dtypes", [(F_BASE, "    nans = isna(df_feature)\n", "    nans = isna(df_feature) if df_feature.dtype.kind not in 'iub' else isna(df_feature.iloc[:0].reindex(df_feature.index))\n")], "R-nan-assert", "whole column"),
    M("str_default left without label", [(F_BASE, "                for value in values.get(group_of_values):\n                    label_per_value.update({value: label})\n", "                for value in values.get(group_of_values):\n                    if value != self.str_default:\n                        label_per_value.update({value: label})\n")], "R-label-alignment", "label k is given"),
    M("check only when verbose", [(F_BASE, "        X = self._check_new_values(X, features=self.qualitative_features)\n", "        if self.verbose:\n            X = self._check_new_values(X, features=self.qualitative_features)\n")], "R-check-before-replace", "dominates"),
    M("rejecting assert removed", [(F_BASE, "            assert len(unexpected) == 0, (\n                \" - [Discretizer] Unexpected value! The ordering for values: \"\n                f\"{str(list(unexpected))} of feature '{feature}' was not provided. \"\n                \"There might be new values in your test/dev set. Consider taking a bigger \"\n                f\"test/dev set or dropping the column {feature}.\"\n            )\n", "            _ = unexpected\n")], "R-check-before-replace", "rejecting"),
    M("default applied to features without default group", [(F_BASE, "                    and val != self.str_nan\n                    and self.str_default in self.values_orders[feature].values()\n", "                    and val != self.str_nan\n")], "R-default-formula", quick=True),
    M("missing value sentinel sent to default group", [(F_BASE, "                    if val not in self.values_orders[feature].values()\n                    and val != self.str_nan\n", "                    if val not in self.values_orders[feature].values()\n")], "R-default-formula"),
    M("default condition uses or", [(F_BASE, "                    and val != self.str_nan\n                    and self.str_default in", "                    and val != self.str_nan\n                    or self.str_default in")], "R-default-formula"),
    M("nan assertion removed", [(F_BASE, "        assert feature_values.contains(str_nan), (\n            \" - [Discretizer] Unexpected value! Missing values found for feature \"\n            f\"'{feature}' at transform step but not during fit. There might be new values \"\n            \"in your test/dev set. Consider taking a bigger test/dev set or dropping the \"\n            f\"column {feature}.\"\n        )\n", "")], "R-nan-assert", quick=True),
    M("+inf boundary dropped", [(F_QUAN, "    order = GroupedList(quantiles + [inf])", "    order = GroupedList(quantiles)")], "R-total-cover", "inf"),
    M("interval test strict", [(F_BASE, "values_to_group = [df_feature <= value for value in feature_values if value != str_nan]", "values_to_group = [df_feature < value for value in feature_values if value != str_nan]")], "R-total-cover", "right-closed"),
    M("validation skipped when copy=False", [(F_BASE, "        x_copy = self.__prepare_data(X, y)\n\n        # transforming quantitative features", "        x_copy = self.__prepare_data(X, y) if self.copy else X\n\n        # transforming quantitative features")], "R-missing-columns"),
    M("message does not name the feature", [(F_BASE, "            f\"'{feature}' at transform step but not during fit. There might be new values \"\n            \"in your test/dev set. Consider taking a bigger test/dev set or dropping the \"\n            f\"column {feature}.\"", "            \"at transform step but not during fit. There might be new values \"\n            \"in your test/dev set. Consider taking a bigger test/dev set or dropping the \"\n            \"column.\"")], "R-names-feature"),
    M("D27-reverted: inner BaseDiscretizer built with hard-coded sentinels", [("AutoCarver/discretizers/discretizers.py", "            str_nan=self.str_nan,\n            str_default=self.str_default,\n            n_jobs=self.n_jobs,\n        )\n        x_copy = base_discretizer.fit_transform(x_copy, y)", "            str_nan=\"__NAN__\",\n            str_default=\"__OTHER__\",\n            n_jobs=self.n_jobs,\n        )\n        x_copy = base_discretizer.fit_transform(x_copy, y)")], "R-forward-sentinels", "BaseDiscretizer", quick=True),
    M("str_default not forwarded to the inner CategoricalDiscretizer", [("AutoCarver/discretizers/discretizers.py", "                str_nan=self.str_nan,\n                str_default=self.str_default,\n                verbose=self.verbose,\n                copy=False,", "                str_nan=self.str_nan,\n                verbose=self.verbose,\n                copy=False,")], "R-forward-sentinels", "CategoricalDiscretizer"),
    M("numpy.isnan on the transformed column", [(F_BASE, "    nans = isna(df_feature)\n", "    nans = isnan(df_feature)\n"), (F_BASE, "from numpy import floating, integer, isfinite, nan, select", "from numpy import floating, integer, isfinite, isnan, nan, select")], "R-numeric-only-call", "transform_quantitative_feature"),
    M("assertion message joins raw values", [(F_BASE, "                f\"{str(list(unexpected))} of feature '{feature}' was not provided. \"", "                f\"{', '.join(unexpected)} of feature '{feature}' was not provided. \"")], "R-assert-only", "can raise"),
    M("unexpected values raise KeyError", [(F_BASE, "            assert len(unexpected) == 0, (\n                \" - [Discretizer] Unexpected value! The ordering", "            if len(unexpected) > 0:\n                raise KeyError(unexpected)\n            assert True, (\n                \" - [Discretizer] Unexpected value! The ordering")], "R-assert-only"),
]
BENIGN = [
    B("default condition reordered", [(F_BASE, "                    if val not in self.values_orders[feature].values()\n                    and val != self.str_nan\n                    and self.str_default in self.values_orders[feature].values()\n", "                    if self.str_default in self.values_orders[feature].values()\n                    and self.str_nan != val\n                    and not val in self.values_orders[feature].values()\n")]),
    B("check result not reassigned (in-place frame)", [(F_BASE, "        X = self._check_new_values(X, features=self.qualitative_features)\n", "        self._check_new_values(X, features=self.qualitative_features)\n")]),
    B("interval test operands swapped", [(F_BASE, "values_to_group = [df_feature <= value for value in feature_values if value != str_nan]", "values_to_group = [value >= df_feature for value in feature_values if value != str_nan]")]),
    B("nan assertion through membership", [(F_BASE, "        assert feature_values.contains(str_nan), (", "        assert str_nan in feature_values.values(), (")]),
]
