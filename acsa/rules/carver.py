"""Rules about the carvers shared by C01 and C02."""
from __future__ import annotations

import ast
from fractions import Fraction
from typing import Dict, List, Optional, Tuple

from ..cfg import CFG
from ..core import AnalysisError, FunctionInfo, call_name, const_value, kwarg, unparse, walk_no_nested
from ..exprs import (
    cmp_canon, conjuncts, inline, monomial, p_and, p_atom, p_equiv, p_not, p_or, p_show, single_defs, to_prop,
)
from .common import F_BC, F_BIN, F_CONT, calls, cfg_of, concrete_classes, construct, loc, short
from .grouped import _flatten_conditions


def carver_classes(repo):
    return [c for c in concrete_classes(repo) if repo.is_subclass(c, "BaseCarver") and repo.lookup_method(c, "_grouper") is not None]


def dominating_def(cfg: CFG, fn: ast.AST, name: str, use: ast.AST) -> Optional[ast.expr]:
    """Value of the closest plain assignment ``name = expr`` that dominates ``use``."""
    un = cfg.node_of(use)
    cands = []
    values = {}
    for n in walk_no_nested(fn):
        hit = None
        if isinstance(n, ast.Assign) and len(n.targets) == 1 and isinstance(n.targets[0], ast.Name) and n.targets[0].id == name:
            hit = n.value
        elif (isinstance(n, ast.Assign) and len(n.targets) == 1 and isinstance(n.targets[0], ast.Tuple) and isinstance(n.value, ast.Tuple)
              and len(n.targets[0].elts) == len(n.value.elts)):
            # a, b = (e1, e2): the element paired with the name
            for t, v in zip(n.targets[0].elts, n.value.elts):
                if isinstance(t, ast.Name) and t.id == name:
                    hit = v
        if hit is not None:
            dn = cfg.node_of(n)
            if dn is not None and un is not None and dn != un and cfg.dominates(dn, un):
                cands.append((n, dn))
                values[id(n)] = hit
    if not cands:
        return None
    # closest = dominated by all the others
    best = cands[0]
    for c in cands[1:]:
        if cfg.dominates(best[1], c[1]):
            best = c
    # no other (non-dominating) definition may intervene between best and use
    for n in walk_no_nested(fn):
        tg = []
        if isinstance(n, ast.Assign):
            for t in n.targets:
                tg += [x.id for x in ast.walk(t) if isinstance(x, ast.Name)]
        elif isinstance(n, ast.AugAssign) and isinstance(n.target, ast.Name):
            tg.append(n.target.id)
        if name in tg and n is not best[0]:
            dn = cfg.node_of(n)
            if dn is not None and cfg.reachable(best[1], dn) and cfg.reachable(dn, un) and not cfg.dominates(dn, best[1]):
                # a later redefinition on some path between the two
                if not cfg.dominates(dn, un) or cfg.dominates(best[1], dn):
                    if cfg.reachable(best[1], dn, avoiding={un}) and cfg.reachable(dn, un, avoiding={best[1]}):
                        return None
    return values[id(best[0])]


# ---------------------------------------------------------------------------------------------
# R-viability-formula
# ---------------------------------------------------------------------------------------------


ORDER_KEEPING = {"copy", "dropna", "fillna", "astype", "round", "reset_index", "rename", "assign", "drop"}


def _frame_kind(cfg, fn, name: str, use: ast.AST, depth=0) -> Optional[str]:
    """'train' / 'dev' (suffix '+sorted' when the rows were re-ordered by value on the way) for a
    rates frame: where does its argument come from?"""
    if depth > 6:
        return None
    d = dominating_def(cfg, fn, name, use)
    if d is None:
        return None
    txt = unparse(d)
    # frame = frame.sort_values(...) / frame.copy() ...: follow the receiver
    if isinstance(d, ast.Call) and isinstance(d.func, ast.Attribute) and isinstance(d.func.value, ast.Name):
        meth = d.func.attr
        if meth in ("sort_values", "sort_index") or meth in ORDER_KEEPING:
            inner = _frame_kind(cfg, fn, d.func.value.id, d, depth + 1)
            if inner is None:
                return None
            if meth in ("sort_values", "sort_index") and not inner.endswith("+sorted"):
                return inner + "+sorted"
            return inner
    if isinstance(d, ast.Call) and call_name(d) == "_printer" and d.args:
        a = d.args[0]
        if "association" in unparse(a) and "xagg" in unparse(a) and "xagg_dev" not in unparse(a):
            return "train"
        if isinstance(a, ast.Name):
            return _frame_kind(cfg, fn, a.id, d, depth + 1)
        return None
    if isinstance(d, ast.Call) and call_name(d) == "_grouper" and d.args:
        if unparse(d.args[0]) == "xagg_dev" and "index_to_groupby" in unparse(d.args[1] if len(d.args) > 1 else d):
            return "dev"
        return None
    return None


class _SubstName(ast.NodeTransformer):
    def __init__(self, name, value):
        self.name, self.value = name, value

    def visit_Name(self, n):
        import copy as _copy

        return _copy.deepcopy(self.value) if n.id == self.name and isinstance(n.ctx, ast.Load) else n


def viability_condition(ctx, fi: FunctionInfo):
    """Propositional execution condition of `best_association = <current combination>` in
    _test_viability, with flags replaced by their dominating definitions."""
    cfg = cfg_of(ctx, fi)
    fn = fi.node
    loops = [n for n in walk_no_nested(fn) if isinstance(n, ast.For) and "associations_xagg" in unparse(n.iter)]
    if len(loops) != 1:
        raise AnalysisError("_test_viability: combination loop not found")
    loop = loops[0]
    lv = None
    if isinstance(loop.target, ast.Tuple) and len(loop.target.elts) == 2:
        lv = unparse(loop.target.elts[1])
    elif isinstance(loop.target, ast.Name):
        lv = loop.target.id
    sites = [n for n in ast.walk(loop) if isinstance(n, ast.Assign) and unparse(n.targets[0]) == "best_association"]
    problems = []

    def classify_at(use):
        def classify(e):
            # flags: names with a dominating definition
            if isinstance(e, ast.Name):
                d = dominating_def(cfg, fn, e.id, use)
                if d is None:
                    return None
                return to_prop(d, classify_at(d))
            # xagg_dev is None
            cc = cmp_canon(e)
            if cc and cc[2] == "None" and cc[0] == "xagg_dev" and cc[1] in ("is", "is not"):
                return p_atom("DEV_ABSENT") if cc[1] == "is" else p_not(p_atom("DEV_ABSENT"))
            neg = False
            inner = e
            while isinstance(inner, ast.UnaryOp) and isinstance(inner.op, ast.Not):
                neg = not neg
                inner = inner.operand
            red = None
            if isinstance(inner, ast.Call) and isinstance(inner.func, ast.Name) and inner.func.id in ("all", "any") and len(inner.args) == 1:
                red = (inner.func.id, inner.args[0])
            elif isinstance(inner, ast.Call) and isinstance(inner.func, ast.Attribute) and inner.func.attr in ("all", "any") and not inner.args:
                red = (inner.func.attr, inner.func.value)  # vectorised spelling: same truth value
            if red is not None:
                kind, arg = red
                # a local standing for the compared column (`frequencies = rates["frequency"]`) is looked
                # through; one that is bound differently on different paths is a different test
                params_ = {a.arg for a in fn.args.posonlyargs + fn.args.args + fn.args.kwonlyargs}
                for _ in range(3):
                    changed_ = False
                    for nm in [x for x in ast.walk(arg) if isinstance(x, ast.Name) and isinstance(x.ctx, ast.Load) and x.id not in params_ and x.id != "self"]:
                        defs_ = [a.value for a in walk_no_nested(fn) if isinstance(a, ast.Assign) and len(a.targets) == 1 and isinstance(a.targets[0], ast.Name) and a.targets[0].id == nm.id]
                        if not any("['frequency']" in unparse(d) or "['target_rate']" in unparse(d) for d in defs_):
                            continue
                        d_ = dominating_def(cfg, fn, nm.id, use)
                        if d_ is None:
                            # several bindings reach the test (re-bound under a condition)
                            return p_atom(f"TEST_ON_{nm.id}_WHICH_IS_BOUND_DIFFERENTLY_ON_DIFFERENT_PATHS")
                        arg = _SubstName(nm.id, d_).visit(__import__("copy").deepcopy(arg))
                        changed_ = True
                        break
                    if not changed_:
                        break
                # MINFREQ: all(F["frequency"] >= self.min_freq_mod)   /  not any(F["frequency"] < t)
                c2 = cmp_canon(arg)
                if c2 and ("['frequency']" in c2[0] or "['frequency']" in c2[2]):
                    thr, fr = (c2[0], c2[2]) if "['frequency']" in c2[2] else (c2[2], c2[0])
                    frame = fr.split("[")[0]
                    fk = _frame_kind(cfg, fn, frame, use)
                    if fk is None:
                        return None
                    if fr not in (f"{frame}['frequency']", f"{frame}['frequency'].values", f"{frame}['frequency'].to_numpy()"):
                        # the compared quantity is not the group frequency itself (rounded, shifted,
                        # scaled ...): a different test from the one the statement describes
                        return p_atom(f"TEST_ON_{fr.replace(' ', '')}_NOT_ON_THE_FREQUENCY_{fk.replace('+sorted', '')}")
                    fk = fk.replace("+sorted", "")  # a per-row threshold does not depend on row order
                    if thr != "self.min_freq_mod":
                        return p_atom(f"FREQ_VS_{thr}_{fk}")
                    # canonical: thr <= freq  (freq >= thr)
                    op = c2[1]
                    thr_left = "['frequency']" in c2[2]
                    rel = None
                    if thr_left and op == "<=":
                        rel = "GE"      # thr <= freq
                    elif thr_left and op == "<":
                        rel = "GT"      # thr < freq
                    elif (not thr_left) and op == "<":
                        rel = "LT"      # freq < thr
                    elif (not thr_left) and op == "<=":
                        rel = "LE"
                    if kind == "all" and rel == "GE":
                        a = p_atom(f"MINFREQ_{fk}")
                    elif kind == "any" and rel == "LT":
                        a = p_not(p_atom(f"MINFREQ_{fk}"))
                    elif kind == "all" and rel == "GT":
                        a = p_atom(f"MINFREQ_STRICT_{fk}")
                    elif kind == "any" and rel == "LE":
                        a = p_not(p_atom(f"MINFREQ_STRICT_{fk}"))
                    else:
                        return None
                    return p_not(a) if neg else a
                # DISTINCT: not any(isclose(F["target_rate"][1:], F["target_rate"].shift(1)[1:]))
                if kind == "any" and isinstance(arg, ast.Call) and call_name(arg) == "isclose" and len(arg.args) >= 2:
                    a0, a1 = unparse(arg.args[0]), unparse(arg.args[1])
                    frame = a0.split("[")[0]
                    forms = {f"{frame}['target_rate'][1:]", f"{frame}['target_rate'].shift(1)[1:]"}
                    forms2 = {f"{frame}['target_rate'][:-1]", f"{frame}['target_rate'].shift(-1)[:-1]"}
                    if {a0, a1} == forms or {a0, a1} == forms2:
                        fk = _frame_kind(cfg, fn, frame, use)
                        if fk is None:
                            return None
                        # on a frame re-ordered by value, shift(1) compares rank-adjacent groups, not
                        # order-adjacent ones: a different (stronger) test => a different atom
                        fk = fk.replace("+sorted", "_BY_RANK_NOT_BY_ORDER")
                        a = p_not(p_atom(f"DISTINCT_{fk}"))  # any(close) == not distinct
                        return p_not(a) if neg else a
                    if f"{frame}['target_rate']" in a0 and f"{frame}['target_rate']" in a1 and ".shift(" in (a0 + a1):
                        # rates of the same frame compared pairwise, but not every (k-1, k) pair of
                        # order-adjacent groups: a different test from the one the statement describes
                        fk = _frame_kind(cfg, fn, frame, use)
                        if fk is None:
                            return None
                        a = p_not(p_atom(f"DISTINCT_ON_OTHER_PAIRS_{fk.replace('+sorted', '')}({a0.replace(' ', '')}~{a1.replace(' ', '')})"))
                        return p_not(a) if neg else a
                    return None
                # any other test built on the rates of adjacent groups (exact `!=` on a diff, another
                # tolerance ...) is not the isclose-based test of the statement: a different atom
                if "['target_rate']" in unparse(arg) and (".diff(" in unparse(arg) or ".shift(" in unparse(arg)) and not (isinstance(arg, ast.Call) and call_name(arg) == "isclose"):
                    frame = unparse(arg).split("[")[0].lstrip("(~-")
                    fk = _frame_kind(cfg, fn, frame, use) if frame.isidentifier() else None
                    if fk is not None:
                        a = p_atom(f"OTHER_ADJACENT_RATES_TEST_{fk.replace('+sorted', '')}({kind}:{unparse(arg).replace(' ', '')[:50]})")
                        return p_not(a) if neg else a
                # RANKS: all(T.sort_values("target_rate").index == D.sort_values("target_rate").index)
                if kind == "all" and isinstance(arg, ast.Compare) and isinstance(arg.ops[0], ast.Eq):
                    sides = [unparse(arg.left), unparse(arg.comparators[0])]
                    frames = []
                    okf = True
                    plain = []
                    for s in sides:
                        if s.endswith(".sort_values('target_rate').index"):
                            frames.append(s.split(".")[0])
                        elif s.endswith(".index") and s.count(".") == 1:
                            frames.append(s.split(".")[0])
                            plain.append(s.split(".")[0])
                        else:
                            okf = False
                    if okf:
                        kinds_l = [_frame_kind(cfg, fn, f, use) for f in frames]
                        if any(k is None for k in kinds_l):
                            return None
                        # a bare `.index` is only a ranking if that frame was sorted by target rate
                        if any(not (_frame_kind(cfg, fn, f, use) or "").endswith("+sorted") for f in plain):
                            return None
                        kinds = {k.replace("+sorted", "") for k in kinds_l}
                        if kinds == {"train", "dev"}:
                            a = p_atom("RANKS")
                            return p_not(a) if neg else a
                    return None
            return None
        return classify

    # path-sensitive symbolic evaluation of the loop body: every flag is a propositional formula over
    # the atoms above (None / False -> false), an `if` merges the two environments with if-then-else,
    # `continue` / `break` end the path; the acceptance condition is the disjunction of the path
    # conditions of `best_association = <current combination>`.  How the flags are plumbed (defaults
    # overwritten in a branch, nested ifs, one flat condition) does not matter.
    T, F = ("const", True), ("const", False)

    def pand(*ps):
        if any(x is None for x in ps):
            return None
        return ("and", list(ps))

    def por(*ps):
        if any(x is None for x in ps):
            return None
        return ("or", list(ps))

    def pnot(x):
        return None if x is None else p_not(x)

    def classify_with(env, use):
        base = classify_at(use)

        def classify(e):
            if isinstance(e, ast.Subscript) and isinstance(e.value, ast.Name) and isinstance(e.slice, ast.Constant) and f"{e.value.id}[{e.slice.value!r}]" in env:
                return env[f"{e.value.id}[{e.slice.value!r}]"]  # a flag kept in a dict of results
            if isinstance(e, ast.Name) and e.id in env:
                return env[e.id] if env[e.id] is not None else None
            if isinstance(e, ast.Constant) and (e.value is None or e.value is False):
                return F
            if isinstance(e, ast.Constant) and e.value is True:
                return T
            return base(e)

        return classify

    accept = []
    undecided = []

    def value_prop(v, env, use):
        if isinstance(v, ast.Constant) and (v.value is None or v.value is False):
            return F
        if isinstance(v, ast.Constant) and v.value is True:
            return T
        return to_prop(v, classify_with(env, use))

    def walk(stmts, env, pc):
        alive = T
        for st in stmts:
            cur = pand(pc, alive)
            if isinstance(st, ast.Assign) and len(st.targets) == 1:
                t, v = st.targets[0], st.value
                pairs = []
                if isinstance(t, ast.Name):
                    pairs = [(t.id, v)]
                elif isinstance(t, ast.Tuple) and all(isinstance(x, ast.Name) for x in t.elts):
                    if isinstance(v, ast.Tuple) and len(v.elts) == len(t.elts):
                        pairs = [(x.id, y) for x, y in zip(t.elts, v.elts)]
                    elif isinstance(v, ast.BinOp) and isinstance(v.op, ast.Mult) and isinstance(v.left, ast.Tuple) and len(v.left.elts) == 1:
                        pairs = [(x.id, v.left.elts[0]) for x in t.elts]
                    else:
                        pairs = [(x.id, None) for x in t.elts]
                # flags kept in a dict: d = {"k": flag, ...} / d["k"] = flag / alias = d
                if isinstance(t, ast.Name) and isinstance(v, ast.Dict) and all(isinstance(k, ast.Constant) for k in v.keys):
                    env = {k: x for k, x in env.items() if not k.startswith(t.id + "[")}
                    for k, x in zip(v.keys, v.values):
                        env[f"{t.id}[{k.value!r}]"] = value_prop(x, env, st)
                    continue
                if isinstance(t, ast.Name) and isinstance(v, ast.Name) and any(k.startswith(v.id + "[") for k in env):
                    env = dict(env)
                    for k, x in list(env.items()):
                        if k.startswith(v.id + "["):
                            env[t.id + k[len(v.id):]] = x
                    continue
                if isinstance(t, ast.Subscript) and isinstance(t.value, ast.Name) and isinstance(t.slice, ast.Constant):
                    env = dict(env)
                    env[f"{t.value.id}[{t.slice.value!r}]"] = value_prop(v, env, st)
                    continue
                for name, val in pairs:
                    if name == "best_association":
                        if val is not None and unparse(val) == lv:
                            if cur is None:
                                undecided.append(st)
                            else:
                                accept.append(cur)
                        elif val is not None and isinstance(val, ast.Constant) and val.value is None:
                            pass
                        else:
                            problems.append(f"best_association assigned from `{unparse(val) if val is not None else unparse(v)}`, not from the current combination")
                        continue
                    env = dict(env)
                    env[name] = value_prop(val, env, st) if val is not None else None
            elif isinstance(st, ast.If):
                pt = to_prop(st.test, classify_with(env, st))
                e1, a1 = walk(st.body, env, pand(cur, pt))
                e2, a2 = walk(st.orelse, env, pand(cur, pnot(pt)))
                merged = dict(env)
                for name in set(e1) | set(e2):
                    x, y = e1.get(name, env.get(name)), e2.get(name, env.get(name))
                    if x is y or (x is not None and y is not None and x == y):
                        merged[name] = x
                    elif pt is None or x is None or y is None:
                        merged[name] = None
                    else:
                        merged[name] = ("or", [("and", [pt, x]), ("and", [p_not(pt), y])])
                env = merged
                if a1 == T and a2 == T:
                    pass
                else:
                    alive = pand(alive, por(pand(pt, a1), pand(pnot(pt), a2)))
            elif isinstance(st, ast.Expr) and isinstance(st.value, ast.Call) and isinstance(st.value.func, ast.Attribute) and st.value.func.attr == "update" and isinstance(st.value.func.value, ast.Name) and len(st.value.args) == 1:
                d, a = st.value.func.value.id, st.value.args[0]
                env = dict(env)
                if isinstance(a, ast.Dict) and all(isinstance(k, ast.Constant) for k in a.keys):
                    for k, x in zip(a.keys, a.values):
                        env[f"{d}[{k.value!r}]"] = value_prop(x, env, st)
                elif isinstance(a, ast.Name):
                    for k, x in list(env.items()):
                        if k.startswith(a.id + "["):
                            env[d + k[len(a.id):]] = x
            elif isinstance(st, (ast.Continue, ast.Break, ast.Return, ast.Raise)):
                alive = F
                break
            elif isinstance(st, (ast.For, ast.While, ast.With, ast.Try)):
                env = dict(env)
                for x in ast.walk(st):
                    if isinstance(x, ast.Name) and isinstance(x.ctx, ast.Store):
                        env[x.id] = None
                    if isinstance(x, ast.Assign) and unparse(x.targets[0]) == "best_association":
                        undecided.append(x)
            elif isinstance(st, ast.AugAssign) and isinstance(st.target, ast.Name):
                env = dict(env)
                env[st.target.id] = None
        return env, alive

    # flags initialised before the loop (None defaults)
    env0 = {}
    for n in walk_no_nested(fn):
        if n is loop:
            break
    pre = [st for st in fn.body if getattr(st, "lineno", 0) < loop.lineno and isinstance(st, ast.Assign)]
    e0, _ = walk(pre, {}, T)
    env0 = {k: v for k, v in e0.items()}
    saved_accept = list(accept)
    del accept[:]
    walk(loop.body, env0, T)
    if undecided:
        # find a readable reason: the first condition on the way to the site that has no formula
        return None, [f"unclassifiable condition on the way to `{short(undecided[0])}`"], sites
    props = accept
    have = ("or", props) if props else ("const", False)
    return have, problems, sites


def check_viability_formula(ctx, rule: str):
    fi = ctx.repo.find_function(f"{F_BC}::BaseCarver._test_viability")
    have, problems, sites = viability_condition(ctx, fi)
    c = construct(fi, "combination accepted iff viable on train and (no dev sample or viable on dev with same ranks)")
    if have is None:
        ctx.ob(rule, c, None, loc(fi), "; ".join(problems))
        return
    for p in problems:
        ctx.ob(rule, construct(fi, p), False, loc(fi))
    tv = p_and(p_atom("MINFREQ_train"), p_atom("DISTINCT_train"))
    dv = p_and(p_atom("RANKS"), p_atom("MINFREQ_dev"), p_atom("DISTINCT_dev"))
    want = p_and(tv, p_or(p_atom("DEV_ABSENT"), dv))
    diff = p_equiv(have, want)
    ctx.ob(rule, c, diff is None, loc(fi, sites[0] if sites else None),
           "" if diff is None else f"accepted under {p_show(have)}; differs from the statement for {diff}")


# ---------------------------------------------------------------------------------------------
# R-select-order
# ---------------------------------------------------------------------------------------------


def check_select_order(ctx, rule: str):
    fi = ctx.repo.find_function(f"{F_BC}::BaseCarver._get_best_association")
    cfg = cfg_of(ctx, fi)
    tv = calls(fi, "_test_viability")
    if len(tv) != 1:
        raise AnalysisError("_get_best_association: call to _test_viability not found")
    arg = tv[0].args[2] if len(tv[0].args) > 2 else kwarg(tv[0], "associations_xagg")
    ok, why = False, ""
    if isinstance(arg, ast.Name):
        d = dominating_def(cfg, fi.node, arg.id, tv[0])
        if d is not None:
            sv = [c for c in ast.walk(d) if isinstance(c, ast.Call) and call_name(c) == "sort_values"]
            if len(sv) == 1:
                by = sv[0].args[0] if sv[0].args else kwarg(sv[0], "by")
                asc = kwarg(sv[0], "ascending")
                sliced = any(isinstance(n, ast.Subscript) and isinstance(n.slice, ast.Slice) for n in ast.walk(d)) or any(isinstance(c, ast.Call) and call_name(c) in ("head", "tail", "nlargest", "iloc") for c in ast.walk(d))
                ok = unparse(by) == "self.sort_by" and asc is not None and const_value(asc) is False and not sliced
                why = f"sorted by {unparse(by)} ascending={unparse(asc) if asc is not None else 'default(True)'} sliced={sliced}"
            elif any(isinstance(c, ast.Call) and call_name(c) == "sorted" for c in ast.walk(d)):
                s = [c for c in ast.walk(d) if isinstance(c, ast.Call) and call_name(c) == "sorted"][0]
                rev = kwarg(s, "reverse")
                key = kwarg(s, "key")
                ok = rev is not None and const_value(rev) is True and key is not None and "self.sort_by" in unparse(key)
                why = f"sorted(key={unparse(key) if key else None}, reverse={unparse(rev) if rev else None})"
            else:
                why = "the list handed to _test_viability is not sorted"
    ctx.ob(rule, construct(fi, "candidates are tested in decreasing order of self.sort_by, all of them"), ok, loc(fi, tv[0]), "" if ok else why)
    # every combination is measured: associations computed over all grouped xaggs of all combinations
    defs = single_defs(fi.node)
    g = defs.get("grouped_xaggs")
    i2g = defs.get("indices_to_groupby")
    ok = isinstance(g, ast.ListComp) and not g.generators[0].ifs and "indices_to_groupby" in unparse(g.generators[0].iter) \
        and isinstance(i2g, ast.ListComp) and not i2g.generators[0].ifs and unparse(i2g.generators[0].iter) == "combinations"
    ctx.ob(rule, construct(fi, "every enumerated combination is grouped and measured (no filter)"), ok, loc(fi))
    # the walk: first viable wins
    ft = ctx.repo.find_function(f"{F_BC}::BaseCarver._test_viability")
    cfgt = cfg_of(ctx, ft)
    loops = [n for n in walk_no_nested(ft.node) if isinstance(n, ast.For) and "associations_xagg" in unparse(n.iter)]
    ok = False
    if len(loops) == 1:
        it = unparse(loops[0].iter)
        plain = "enumerate(associations_xagg)" in it and "reversed" not in it and "[::-1]" not in it and "sorted" not in it
        brk = [b for b in ast.walk(loops[0]) if isinstance(b, ast.Break)]
        okb = len(brk) == 1
        if okb:
            conds = cfgt.path_conditions(brk[0])
            okb = len(conds) >= 1 and any(pol and cmp_canon(t) == ("best_association", "is not", "None") for t, pol in _flatten_conditions(conds))
        rets = [r for r in walk_no_nested(ft.node) if isinstance(r, ast.Return)]
        okr = bool(rets) and all(unparse(r.value) == "best_association" for r in rets)
        ok = plain and okb and okr
    ctx.ob(rule, construct(ft, "the sorted list is walked front to back, stops at the first accepted combination and returns it"), ok, loc(ft))


# ---------------------------------------------------------------------------------------------
# R-adjacency-order: row-order provenance of the grouped tables
# ---------------------------------------------------------------------------------------------

SORTED, KEPT, UNKNOWN = "LEXICOGRAPHIC", "FEATURE_ORDER", "UNKNOWN"


def row_order(repo, fi: FunctionInfo, e: ast.expr, defs: Dict[str, ast.expr], depth: int = 0) -> Tuple[str, str]:
    """(tag, reason) for the row order of the table / index list ``e``, relative to the order of
    the input table's index."""
    if depth > 8:
        return UNKNOWN, "too deep"
    if isinstance(e, ast.Name):
        if e.id in defs:
            return row_order(repo, fi, defs[e.id], defs, depth + 1)
        if e.id in fi.params:
            return KEPT, f"input `{e.id}`"
        # u, inverse = unique(values, return_inverse=True): the first element is the (sorted) array of unique values
        for st in walk_no_nested(fi.node):
            if isinstance(st, ast.Assign) and len(st.targets) == 1 and isinstance(st.targets[0], ast.Tuple) and st.targets[0].elts and isinstance(st.targets[0].elts[0], ast.Name) and st.targets[0].elts[0].id == e.id and isinstance(st.value, ast.Call) and call_name(st.value) == "unique":
                return row_order(repo, fi, ast.Call(func=st.value.func, args=st.value.args, keywords=[]), defs, depth + 1)
        return UNKNOWN, f"name {e.id}"
    if isinstance(e, ast.Attribute):
        if e.attr in ("index", "values", "T"):
            return row_order(repo, fi, e.value, defs, depth + 1)
        return UNKNOWN, unparse(e)
    if isinstance(e, ast.Subscript):
        # frame.loc[X] / frame.reindex -> order of X
        if isinstance(e.value, ast.Attribute) and e.value.attr in ("loc",):
            return row_order(repo, fi, e.slice, defs, depth + 1)
        return row_order(repo, fi, e.value, defs, depth + 1)
    if isinstance(e, (ast.ListComp, ast.GeneratorExp)):
        return row_order(repo, fi, e.generators[0].iter, defs, depth + 1)
    if isinstance(e, ast.Call):
        name = call_name(e)
        f = e.func
        if name == "groupby":
            s = kwarg(e, "sort")
            if s is not None and const_value(s) is False:
                return row_order(repo, fi, f.value, defs, depth + 1) if isinstance(f, ast.Attribute) else (UNKNOWN, "groupby")
            return SORTED, "groupby sorts the group keys unless sort=False"
        if name in ("sum", "mean", "apply", "agg", "first", "last", "size", "count", "max", "min", "copy", "drop", "dropna", "divide", "astype", "fillna"):
            if isinstance(f, ast.Attribute):
                return row_order(repo, fi, f.value, defs, depth + 1)
        if name in ("reindex",):
            return row_order(repo, fi, e.args[0], defs, depth + 1) if e.args else (UNKNOWN, "reindex")
        if name in ("sort_values", "sort_index", "sorted", "crosstab"):
            return SORTED, f"{name} orders rows by value"
        if name == "unique":
            sym = repo.resolve_expr(fi.module, f)
            dotted = getattr(sym, "dotted", "")
            if dotted.startswith("numpy"):
                return SORTED, "numpy.unique returns sorted values"
            if dotted.startswith("pandas") or isinstance(f, ast.Attribute):
                src = e.args[0] if e.args else (f.value if isinstance(f, ast.Attribute) else None)
                return row_order(repo, fi, src, defs, depth + 1) if src is not None else (UNKNOWN, "unique")
            return UNKNOWN, "unique"
        if name == "Series" and kwarg(e, "index") is not None:
            return row_order(repo, fi, kwarg(e, "index"), defs, depth + 1)
        if name in ("list", "array", "tuple", "Series", "Index"):
            return row_order(repo, fi, e.args[0], defs, depth + 1) if e.args else (UNKNOWN, name)
        if name == "fromkeys":
            return row_order(repo, fi, e.args[0], defs, depth + 1) if e.args else (UNKNOWN, name)
        if name == "DataFrame":
            idx = kwarg(e, "index")
            if idx is not None:
                return row_order(repo, fi, idx, defs, depth + 1)
            return UNKNOWN, "DataFrame without index"
        if name in ("set", "frozenset"):
            return SORTED, "iteration order of a set: hash order (changes with PYTHONHASHSEED for strings), never the feature's order"
    return UNKNOWN, short(e, 50)


def check_adjacency_order(ctx, rule: str):
    repo = ctx.repo
    seen = set()
    for ci in carver_classes(repo):
        fi = repo.lookup_method(ci, "_grouper")
        if fi.key in seen:
            continue
        seen.add(fi.key)
        defs = single_defs(fi.node)
        rets = [r for r in walk_no_nested(fi.node) if isinstance(r, ast.Return) and r.value is not None]
        for r in rets:
            tag, why = row_order(repo, fi, r.value, defs)
            c = construct(fi, "grouped table keeps the groups in the feature's order (adjacency of target rates is tested on it)")
            if tag == KEPT:
                ctx.ob(rule, c, True, loc(fi, r))
            elif tag == SORTED:
                ctx.ob(rule, c, False, loc(fi, r), f"rows are ordered lexicographically on the group leader ({why}): 'adjacent' rates are compared across groups that are not adjacent in the feature's order")
            else:
                ctx.ob(rule, c, None, loc(fi, r), f"row order not understood: {why}")
    fx = repo.find_function(f"{F_BC}::xagg_apply_order")
    defs = single_defs(fx.node)
    tgt = defs.get("combi_xagg")
    # second definition under `if xagg is not None`
    cands = [n.value for n in walk_no_nested(fx.node) if isinstance(n, ast.Assign) and unparse(n.targets[0]) == "combi_xagg" and not (isinstance(n.value, ast.Constant))]
    for v in cands:
        tag, why = row_order(repo, fx, v, defs)
        c = construct(fx, "re-grouped table keeps the feature's order")
        ctx.ob(rule, c, True if tag == KEPT else (False if tag == SORTED else None), loc(fx, v), "" if tag == KEPT else why)


def check_aggregate_fill(ctx, rule: str):
    repo = ctx.repo
    seen = set()
    for ci in carver_classes(repo):
        fi = repo.lookup_method(ci, "_aggregator")
        if fi.key in seen:
            continue
        seen.add(fi.key)
        if ci.name in ("BinaryCarver",) or "crosstab" in unparse(fi.node):
            # counts per (modality, class): a cell without observation is 0 -- pandas.crosstab fills it,
            # a hand-made groupby / value_counts / unstack pipeline leaves NaN unless it says otherwise
            cts = calls(fi, "crosstab")
            alt = [c for c in calls(fi) if call_name(c) in ("unstack", "pivot", "pivot_table")]
            filled_alt = all(kwarg(c, "fill_value") is not None or (isinstance(cfg_of(ctx, fi).parent(c), ast.Attribute) and cfg_of(ctx, fi).parent(c).attr == "fillna") for c in alt)
            okc = bool(cts) or (bool(alt) and filled_alt)
            ctx.ob(rule, construct(fi, "a (modality, class) cell without observation counts 0, not NaN"), okc, loc(fi, (cts or alt or [None])[0]),
                   "" if okc else "the table of counts is not pandas.crosstab and does not fill empty cells: a group holding such a modality gets a NaN / degenerate target rate, which sorts last and lets the train/dev rank test pass when it should not")
        rs = [c for c in calls(fi, "reindex")]
        if not rs:
            ctx.ob(rule, construct(fi, "aggregate table is extended to the full modality list"), False, loc(fi),
                   "no reindex on labels_orders[feature]: modalities absent from the sample are missing and rows are not in the feature's order")
            continue
        for c in rs:
            filled = kwarg(c, "fill_value") is not None
            # or .fillna(...) applied to the result
            par = cfg_of(ctx, fi).parent(c)
            if isinstance(par, ast.Attribute) and par.attr == "fillna":
                filled = True
            on_order = c.args and "labels_orders[feature]" in unparse(c.args[0])
            ctx.ob(rule, construct(fi, "reindex on the feature's modalities states its fill value"), bool(filled and on_order), loc(fi, c),
                   "" if (filled and on_order) else "a modality absent from the (dev) sample becomes a NaN row that poisons every group it is merged into: no combination is viable and the feature is dropped")


# ---------------------------------------------------------------------------------------------
# measures
# ---------------------------------------------------------------------------------------------


def check_measure_keys(ctx, rule: str):
    repo = ctx.repo
    for ci in carver_classes(repo):
        am = repo.lookup_method(ci, "_association_measure")
        keys = set()
        for r in walk_no_nested(am.node):
            if isinstance(r, ast.Return) and isinstance(r.value, ast.Dict):
                keys |= {const_value(k) for k in r.value.keys}
        init = ci.methods.get("__init__") or repo.lookup_method(ci, "__init__")
        accepted = set()
        defs = single_defs(init.node)
        for a in walk_no_nested(init.node):
            if isinstance(a, ast.Assert):
                for c in conjuncts(inline(init.node, a.test, defs=defs)):
                    if isinstance(c, ast.Compare) and isinstance(c.ops[0], ast.In) and unparse(c.left) == "sort_by" and isinstance(c.comparators[0], (ast.List, ast.Tuple, ast.Set)):
                        accepted |= {const_value(e) for e in c.comparators[0].elts}
                    cc = cmp_canon(c)
                    if cc and cc[1] == "==" and "sort_by" in (cc[0] + cc[2]):
                        for s in (cc[0], cc[2]):
                            if s.startswith("'"):
                                accepted.add(s.strip("'"))
        # literal passed to super().__init__(sort_by=...)
        for c in calls(init, "__init__"):
            v = kwarg(c, "sort_by")
            if v is not None and isinstance(v, ast.Constant):
                accepted.add(v.value)
        ok = bool(accepted) and accepted <= keys
        ctx.ob(rule, construct(am, f"[{ci.name}] measures returned {sorted(keys)} cover the accepted sort_by values {sorted(accepted)}"), ok, loc(am),
               "" if ok else "a sort_by value accepted by __init__ has no measure: sorting raises KeyError or ranks by another measure")


def check_measure_formula(ctx, rule: str):
    repo = ctx.repo
    fi = repo.find_function(f"{F_BIN}::BinaryCarver._association_measure")
    defs = single_defs(fi.node)

    def leaf(e):
        t = unparse(e).replace(" ", "")
        if t in ("chi2_contingency(xtab)[0]", "chi2_contingency(xtab).statistic"):
            return "chi2"
        if t == "n_obs":
            return "n"
        if t in ("xtab.shape[0]-1", "len(xtab)-1", "len(xtab.index)-1"):
            return "(r-1)"
        return None

    rets = [r for r in walk_no_nested(fi.node) if isinstance(r, ast.Return) and isinstance(r.value, ast.Dict)]
    if len(rets) != 1:
        raise AnalysisError("BinaryCarver._association_measure: single dict return not found")
    got = {}
    for k, v in zip(rets[0].value.keys, rets[0].value.values):
        got[const_value(k)] = monomial(inline(fi.node, v, defs=defs), leaf)
    want = {
        "cramerv": {"chi2": Fraction(1, 2), "n": Fraction(-1, 2)},
        "tschuprowt": {"chi2": Fraction(1, 2), "n": Fraction(-1, 2), "(r-1)": Fraction(-1, 4)},
    }
    for k, w in want.items():
        g = got.get(k)
        c = construct(fi, f"{k} = " + " * ".join(f"{a}^{e}" for a, e in w.items()))
        if g is None:
            ctx.ob(rule, c, False, loc(fi), "the statistic is not chi2_contingency(xtab)[0] / the formula is not a monomial in (chi2, n, r-1): e.g. a hand-written chi-squared without scipy's continuity correction ranks 2-group candidates differently" if k in got else "measure missing")
        else:
            ctx.ob(rule, c, g == w, loc(fi), "" if g == w else f"found {({a: str(e) for a, e in g.items()})}")
    # n = number of observations of the very table whose groupings are measured
    fa = repo.find_function(f"{F_BC}::BaseCarver._get_best_association")
    adefs = single_defs(fa.node)
    ms = calls(fa, "_association_measure")
    gs = calls(fa, "_grouper")
    okn = False
    found = "?"
    if len(ms) == 1 and len(gs) == 1 and gs[0].args:
        tab = unparse(gs[0].args[0])
        nv = kwarg(ms[0], "n_obs") or (ms[0].args[1] if len(ms[0].args) > 1 else None)
        if nv is not None:
            found = unparse(inline(fa.node, nv, defs=adefs)).replace(" ", "")
            grouped = unparse(ms[0].args[0]) if ms[0].args else "?"
            okn = any(found == f"{t}{suffix}" for t in (tab, grouped) for suffix in (".apply(sum).sum()", ".sum().sum()", ".values.sum()", ".to_numpy().sum()"))
            okn = okn and tab in fa.params
    ctx.ob(rule, construct(fa, "n_obs = total count of the crosstab that is grouped and measured"), okn, loc(fa, ms[0] if ms else None),
           "" if okn else f"n_obs is `{found}`: measuring a table with the row count of another one (e.g. including the missing-value row) rescales every association stored in the history")
    fk = repo.find_function(f"{F_CONT}::ContinuousCarver._association_measure")
    rets = [r for r in walk_no_nested(fk.node) if isinstance(r, ast.Return) and isinstance(r.value, ast.Dict)]
    ok = len(rets) == 1 and unparse(rets[0].value).replace(" ", "") in ("{'kruskal':kruskal(*tuple(yval.values))[0]}", "{'kruskal':kruskal(*yval.values)[0]}", "{'kruskal':kruskal(*tuple(yval.values)).statistic}")
    ctx.ob(rule, construct(fk, "kruskal = H statistic of scipy.stats.kruskal over the groups' target lists"), ok, loc(fk))


def check_hooks(ctx, rule: str):
    repo = ctx.repo
    base_fit = repo.find_function(f"{F_BC}::BaseCarver.fit")
    for ci in [c for c in concrete_classes(repo) if repo.is_subclass(c, "BaseCarver")]:
        # does its fit reach BaseCarver.fit?
        fi = repo.lookup_method(ci, "fit")
        reaches = fi.key == base_fit.key or any(isinstance(c.func, ast.Attribute) and c.func.attr == "fit" and isinstance(c.func.value, ast.Call) and call_name(c.func.value) == "super" for c in calls(fi))
        if not reaches:
            continue
        used = set()
        for m in ("fit", "_carve_feature", "_get_best_association", "_test_viability", "_print_xagg", "_get_best_combination"):
            f = repo.lookup_method(ci, m)
            if f is None:
                continue
            for c in calls(f):
                if isinstance(c.func, ast.Attribute) and isinstance(c.func.value, ast.Name) and c.func.value.id == "self" and c.func.attr.startswith("_"):
                    used.add(c.func.attr)
        missing = sorted(h for h in used if repo.lookup_method(ci, h) is None)
        ctx.ob(rule, f"{ci.name}::every self._hook called by the search is defined through the MRO", not missing, loc(ci), "" if not missing else f"undefined: {missing}")


def check_drop_only_if_none(ctx, rule: str):
    fi = ctx.repo.find_function(f"{F_BC}::BaseCarver._carve_feature")
    cfg = cfg_of(ctx, fi)
    rm = calls(fi, "_remove_feature")
    ok = False
    if len(rm) == 1:
        conds = _flatten_conditions(cfg.path_conditions(rm[0]))
        txt = [(cmp_canon(t), pol) for t, pol in conds]
        ok = (("best_combination", "is not", "None"), False) in txt or (("best_combination", "is", "None"), True) in txt
        ok = ok and len(conds) == 1
    ctx.ob(rule, construct(fi, "a feature is removed only when the search returned no combination"), ok, loc(fi, rm[0] if rm else None))
    # best_combination comes from _get_best_combination (or stays None when < 2 modalities)
    assigns = [n for n in walk_no_nested(fi.node) if isinstance(n, ast.Assign) and unparse(n.targets[0]) == "best_combination"]
    vals = sorted(unparse(a.value)[:40] for a in assigns)
    ok = len(assigns) == 2 and any(isinstance(a.value, ast.Constant) and a.value.value is None for a in assigns) and any(isinstance(a.value, ast.Call) and call_name(a.value) == "_get_best_combination" for a in assigns)
    ctx.ob(rule, construct(fi, "best_combination is the result of _get_best_combination"), ok, loc(fi), "" if ok else str(vals))
    fg = ctx.repo.find_function(f"{F_BC}::BaseCarver._get_best_combination")
    flow, err = _stage_flow(fg)
    c3 = construct(fg, "a combination is returned iff the last search stage found a viable association")
    c4 = construct(fg, "missing-value stage runs iff dropna and the feature has NaN and stage 1 succeeded")
    if flow is None:
        ctx.ob(rule, c3, None, loc(fg), err)
        ctx.ob(rule, c4, None, loc(fg), err)
        return
    # every path: what is returned against the outcome of the last stage that ran on it
    bad = None
    for o in flow.outcomes:
        last = o.path.calls[-1] if o.path.calls else None
        expected = "value" if (last is not None and last[1]) else "none"
        if o.kind != expected:
            bad = (o, expected)
            break
    shape = all(isinstance(o.node.value, ast.Tuple) and o.node.value.elts and unparse(o.node.value.elts[0]) == "order" for o in flow.outcomes if o.kind == "value" and o.node is not None and not isinstance(o.node.value, ast.Name))
    ctx.ob(rule, c3, bad is None and shape and any(o.kind == "value" for o in flow.outcomes), loc(fg, bad[0].node if bad and bad[0].node is not None else None),
           "" if bad is None else f"on the path [{'; '.join(bad[0].path.trace)}] the function returns {'a combination' if bad[0].kind == 'value' else 'None'} although the last stage {'found none' if expected_none(bad) else 'found one'}")
    # stage 2 = the call with dropna=True
    idx2 = [i for i, c in enumerate(flow.calls) if const_value(kwarg(c, "dropna"), False) is True]
    idx1 = [i for i, c in enumerate(flow.calls) if i not in idx2]
    ok = len(idx2) == 1 and len(idx1) == 1
    why = "" if ok else f"{len(flow.calls)} search stage call(s) found, {len(idx2)} with dropna=True"
    if ok:
        s1, s2 = idx1[0], idx2[0]
        for o in flow.outcomes:
            ran = [c for c in o.path.calls]
            for k, (i, found, facts) in enumerate(ran):
                if i == s2:
                    prev = ran[k - 1] if k else None
                    if prev is None or prev[0] != s1 or not prev[1]:
                        ok, why = False, f"path [{'; '.join(o.path.trace)}]: the missing-value stage runs although stage 1 found no association"
                    if facts.get("self.dropna") is not True or facts.get("self.str_nan in order") is not True:
                        ok, why = False, f"path [{'; '.join(o.path.trace)}]: the missing-value stage runs without `self.dropna and self.str_nan in order` being established"
            if ran and ran[-1][0] == s1 and ran[-1][1]:
                f = o.path.facts
                if f.get("self.dropna") is not False and f.get("self.str_nan in order") is not False:
                    ok, why = False, f"path [{'; '.join(o.path.trace)}]: stage 1 succeeded, dropna and a missing-value modality, but the missing-value stage is skipped"
    ctx.ob(rule, c4, ok, loc(fg), why)


def expected_none(bad) -> bool:
    return bad[1] == "none"


_FLOW_CACHE: dict = {}


def _stage_flow(fg):
    from ..optflow import OptFlow, Undecided

    key = id(fg.node)
    if key not in _FLOW_CACHE:
        try:
            _FLOW_CACHE[key] = (OptFlow(fg.node, "_get_best_association").run(), "")
        except Undecided as exc:
            _FLOW_CACHE[key] = (None, f"optional-result flow not decided: {exc}")
    return _FLOW_CACHE[key]


# ---------------------------------------------------------------------------------------------
# R-enum-bounds
# ---------------------------------------------------------------------------------------------


def _canon_set(fn) -> set:
    out = set()
    for n in ast.walk(fn):
        if isinstance(n, ast.Compare):
            if len(n.ops) == 1:
                cc = cmp_canon(n)
                if cc:
                    out.add(cc)
            else:
                # chained a < b <= c
                left = n.left
                for op, right in zip(n.ops, n.comparators):
                    cc = cmp_canon(ast.Compare(left=left, ops=[op], comparators=[right]))
                    if cc:
                        out.add(cc)
                    left = right
    return out


def check_enum_bounds(ctx, rule: str):
    repo = ctx.repo
    f1 = repo.find_function(f"{F_BC}::combinations_at_index")
    cs = _canon_set(f1.node)
    rng = [c for c in calls(f1, "range")]
    ok = len(rng) == 1 and [unparse(a).replace(" ", "") for a in rng[0].args] == ["min_group_size", "len(order)+1"]
    ctx.ob(rule, construct(f1, "group sizes range over [min_group_size, len(order)]"), ok, loc(f1))
    ok = ("next_idx", "<", "len(order) + 1") in cs or ("next_idx", "<=", "len(order)") in cs
    ctx.ob(rule, construct(f1, "a group may end at the last element: next_idx <= len(order)"), ok, loc(f1), "" if ok else f"comparisons: {sorted(cs)}")
    ok = ("1", "<", "nb_remaining_groups") in cs and ("len(order)", "==", "next_idx") in cs
    ctx.ob(rule, construct(f1, "a group is produced iff groups remain (> 1) or it closes the order"), ok, loc(f1), "" if ok else f"comparisons: {sorted(cs)}")
    ys = [n for n in ast.walk(f1.node) if isinstance(n, ast.Yield)]
    ok = len(ys) == 1 and isinstance(ys[0].value, ast.Tuple) and [unparse(e).replace(" ", "") for e in ys[0].value.elts][1:] == ["next_idx", "nb_remaining_groups-1"]
    defs = single_defs(f1.node)
    comb = defs.get("combination")
    ok = ok and comb is not None and "order[start_idx:next_idx]" in unparse(comb)
    ctx.ob(rule, construct(f1, "each group is the contiguous slice order[start_idx:next_idx]; one group less remains"), ok, loc(f1))
    f2 = repo.find_function(f"{F_BC}::consecutive_combinations")
    cs = _canon_set(f2.node)
    ok = ("min_group_size", "<", "len(current_combination)") in cs and ("len(current_combination)", "<=", "max_group_size") in cs and ("0", "==", "len(next_combinations)") in cs
    ctx.ob(rule, construct(f2, "a complete combination is stored iff min_group_size < n_groups <= max_group_size"), ok, loc(f2), "" if ok else f"comparisons: {sorted(cs)}")
    rec = [c for c in calls(f2, "consecutive_combinations")]
    ok = len(rec) == 1 and {k.arg: unparse(k.value).replace(" ", "") for k in rec[0].keywords}.get("current_combination") == "current_combination+[combination]" \
        and {k.arg: unparse(k.value) for k in rec[0].keywords}.get("nb_remaining_group") == "current_nb_remaining_group" \
        and {k.arg: unparse(k.value) for k in rec[0].keywords}.get("next_index") == "next_index"
    ctx.ob(rule, construct(f2, "recursion extends the current combination by the produced group and continues after it"), ok, loc(f2))
    f3 = repo.find_function(f"{F_BC}::nan_combinations")
    cs = _canon_set(f3.node)
    ok = ("len(combination)", "<", "max_n_mod") in cs
    ctx.ob(rule, construct(f3, "missing values get a group of their own iff n_groups < max_n_mod"), ok, loc(f3), "" if ok else f"comparisons: {sorted(cs)}")
    loops = [n for n in walk_no_nested(f3.node) if isinstance(n, ast.For) and unparse(n.iter).replace(" ", "") == "range(len(combination))"]
    ok = len(loops) == 1 and any(isinstance(s, ast.Assign) and unparse(s.targets[0]) == f"new_combination[{unparse(loops[0].target)}]" and "[str_nan]" in unparse(s.value) for s in ast.walk(loops[0]))
    # the same candidates written as one slicing comprehension: c[:n] + [c[n] + [str_nan]] + c[n + 1:]
    for lc in ast.walk(f3.node):
        if isinstance(lc, (ast.ListComp, ast.GeneratorExp)) and len(lc.generators) == 1 and not lc.generators[0].ifs and unparse(lc.generators[0].iter).replace(" ", "") == "range(len(combination))":
            n_ = unparse(lc.generators[0].target)
            if unparse(lc.elt).replace(" ", "") == f"combination[:{n_}]+[combination[{n_}]+[str_nan]]+combination[{n_}+1:]":
                ok = True
    ctx.ob(rule, construct(f3, "missing values are tried inside every group"), ok, loc(f3))
    ok = any(isinstance(s, (ast.AugAssign, ast.Call)) and ("new_combination + [[str_nan]]" in unparse(s) or "combination + [[str_nan]]" in unparse(s)) for s in ast.walk(f3.node))
    ctx.ob(rule, construct(f3, "the extra candidate is the combination plus the group [str_nan]"), ok, loc(f3))
    fg = repo.find_function(f"{F_BC}::BaseCarver._get_best_combination")
    c1 = calls(fg, "consecutive_combinations")
    c2 = calls(fg, "nan_combinations")
    ok = len(c1) == 1 and unparse(c1[0].args[1]) == "self.max_n_mod" and unparse(kwarg(c1[0], "min_group_size") or ast.Constant(1)) == "1" and unparse(c1[0].args[0]) == "raw_order"
    ok = ok and len(c2) == 1 and [unparse(a) for a in c2[0].args] == ["raw_order", "self.str_nan", "self.max_n_mod"]
    ctx.ob(rule, construct(fg, "both enumerations are bounded by self.max_n_mod and run over the order without NaN"), ok, loc(fg))
    f4 = repo.find_function(f"{F_BC}::nan_combinations")
    c3 = calls(f4, "consecutive_combinations")
    ok = len(c3) == 1 and [unparse(a) for a in c3[0].args[:2]] == ["raw_order", "max_n_mod"]
    ctx.ob(rule, construct(f4, "missing-value candidates are built on consecutive_combinations(raw_order, max_n_mod)"), ok, loc(f4))


def check_stage_results(ctx, rule: str):
    """Both search stages decide: when the missing-value stage runs and finds nothing, no combination
    is returned (the feature is dropped) instead of silently keeping the stage-1 carving with an
    untested NaN group.  Decided on the paths of _get_best_combination (acsa/optflow.py)."""
    fg = ctx.repo.find_function(f"{F_BC}::BaseCarver._get_best_combination")
    flow, err = _stage_flow(fg)
    c = construct(fg, "the result of each search stage replaces (best_association, order)")
    if flow is None:
        ctx.ob(rule, c, None, loc(fg), err)
        return
    idx2 = [i for i, cl in enumerate(flow.calls) if const_value(kwarg(cl, "dropna"), False) is True]
    bad = [o for o in flow.outcomes if o.kind == "value" and o.path.calls and o.path.calls[-1][0] in idx2 and not o.path.calls[-1][1]]
    reached = any(o.path.calls and o.path.calls[-1][0] in idx2 for o in flow.outcomes)
    ctx.ob(rule, c, not bad and reached and len(flow.calls) == 2, loc(fg, bad[0].node if bad and bad[0].node is not None else None),
           "" if not bad else f"path [{'; '.join(bad[0].path.trace)}]: the missing-value stage found nothing but a combination is returned: a non-viable missing-value placement is kept")


def check_printer_raw(ctx, rule: str):
    """The table the viability test reads is the frame built from the raw shares / rates, not a
    rounded or otherwise post-processed copy."""
    repo = ctx.repo
    for cname in ("BinaryCarver", "ContinuousCarver"):
        fi = repo.find_function(f"{cname}._printer")
        builds = [n for n in walk_no_nested(fi.node) if isinstance(n, ast.Assign) and isinstance(n.value, (ast.Call, ast.Attribute, ast.Subscript)) and any(
            isinstance(d, ast.Dict) and {const_value(k) for k in d.keys} >= {"target_rate", "frequency"} for d in ast.walk(n.value))]
        ok = len(builds) == 1 and isinstance(builds[0].value, ast.Call) and call_name(builds[0].value) == "DataFrame" and isinstance(builds[0].value.func, ast.Name)
        tgt = unparse(builds[0].targets[0]) if builds else None
        later = [n for n in walk_no_nested(fi.node) if isinstance(n, (ast.Assign, ast.AugAssign)) and builds and n is not builds[0] and n.lineno > builds[0].lineno
                 and any(unparse(t).split("[")[0].split(".")[0] == tgt for t in (n.targets if isinstance(n, ast.Assign) else [n.target]))]
        rets = [r for r in walk_no_nested(fi.node) if isinstance(r, ast.Return)]
        ok = ok and not later and all(unparse(r.value) == tgt for r in rets)
        ctx.ob(rule, construct(fi, "the statistics frame is returned as built (no rounding / post-processing before the viability test reads it)"), ok, loc(fi, builds[0] if builds else None),
               "" if ok else "frequencies / rates are transformed before the thresholds are applied: a group slightly below min_freq_mod can pass")
