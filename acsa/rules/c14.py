"""C14 -- selectors return the best-ranked, mutually uncorrelated features."""
from __future__ import annotations

from ..selftest import B, M
from .common import F_BF, F_BM, F_QLF, F_QLM, F_QTF, F_QTM, F_SEL
from . import selectors as S

EXPLANATION = (
    "Decides: R-rank-desc (both rankings of _select_features sort on the evaluated measure names with "
    "ascending=False; the cut is index[:n_best] of the FILTERED table; the result lists distinct "
    "features in the initial ranking order); R-filter-greedy (both filters visit ranks.index in rank "
    "order, compare only with better-ranked features that are still kept, drop iff corr > thresh_corr "
    "-- strict --, thresh_filter runs first, filters are chained); R-abs-corr (a signed statistic -- "
    ".corr, pearsonr, spearmanr, correlation distance -- goes through abs before it is compared or "
    "ranked, in every exported measure and every filter); R-measure-formula (the gate measures take shares over all rows of the feature -- no value_counts(normalize=True) without dropna=False --; monomial normal form of "
    "cramerv_measure and tschuprowt_measure = the textbook definitions; chi2 from "
    "chi2_contingency(crosstab)); R-measure-registry (every exported association measure returns "
    "(active, {its __name__: value}), the key the ranking looks up); R-select-pure (effect analysis: "
    "select, every exported measure and every filter mutate none of X, y, ranks; features are "
    "shuffled on a copy); R-definite-assignment (no UnboundLocalError path in the selector modules); "
    "R-union-refiltered (a join of per-measure selections is filtered again before it is returned); "
    "R-colsample-cover (with colsample < 1 the samples cover every feature: k-1 equal chunks and an open-ended last one); "
    "R-list-default-by-none (the default measures / filters replace None only: an explicitly empty list is kept); R-filter-greedy also "
    "requires the kept measurements to be joined to the ranking with how='right' in quantitative_filter, through helpers."
)
NOT_DECIDED = "numerical equality of the measures with an independent recomputation; scipy/pandas statistics themselves"
FLOORS = {"R-rank-desc": 5, "R-filter-greedy": 13, "R-abs-corr": 2, "R-measure-formula": 5, "R-measure-registry": 12, "R-select-pure": 20, "R-definite-assignment": 30, "R-union-refiltered": 1, "R-colsample-cover": 2, "R-list-default-by-none": 8}


def abs_scope(repo):
    fns = S.exported(repo, S.MEASURES_INIT, "_measure")
    fns += [f for f in S.selector_functions(repo) if "/filters/" in f.module.relpath]
    return fns


def check(ctx):
    S.check_rank_desc(ctx, "R-rank-desc")
    S.check_filter_greedy(ctx, "R-filter-greedy")
    S.check_abs_corr(ctx, "R-abs-corr", abs_scope(ctx.repo))
    S.check_measure_formula(ctx, "R-measure-formula")
    S.check_measure_registry(ctx, "R-measure-registry")
    S.check_select_pure(ctx, "R-select-pure")
    S.check_definite_assignment(ctx, "R-definite-assignment")
    S.check_union_refiltered(ctx, "R-union-refiltered")
    S.check_colsample_cover(ctx, "R-colsample-cover")
    S.check_filter_wrappers(ctx, "R-measure-registry")
    S.check_share_denominator(ctx, "R-measure-formula")
    # an explicitly empty list of filters / measures is a configuration ("no inter-feature filter"), not
    # "not given": the defaults replace None only
    from .truthiness import check_optional_by_none

    inits = [ctx.repo.find_function(f"AutoCarver/selectors/{m}_selector.py::{c}.__init__") for m, c in (("classification", "ClassificationSelector"), ("regression", "RegressionSelector"))]
    check_optional_by_none(ctx, "R-list-default-by-none", inits, kinds=("list[Callable]", "List[Callable]"))


_D7 = "    # Chi2 statistic\n    measurement = {}\n    if chi2_statistic is None:\n        _, measurement = chi2_measure(x, y, **kwargs)\n        chi2_statistic = measurement.get(\"chi2_statistic\")\n\n    # number of observations\n    n_obs = (notna(x) & notna(y)).sum()\n\n    # number of values taken by the features\n    n_mod_x, n_mod_y = x.nunique(), y.nunique()\n    min_n_mod"
MUTANTS = [
    M("D7-reverted: measurement unbound when chi2 is supplied", [(F_QLM, _D7, _D7.replace("    measurement = {}\n", ""))], "R-definite-assignment", "cramerv_measure", quick=True),
    M("ranking ascending", [(F_SEL, "        initial_associations = initial_associations.sort_values(measure_names, ascending=False)", "        initial_associations = initial_associations.sort_values(measure_names, ascending=True)")], "R-rank-desc", "decreasing", quick=True),
    M("per-measure ranking uses pandas' default order", [(F_SEL, "            associations = initial_associations.sort_values(measure_name, ascending=False)", "            associations = initial_associations.sort_values(measure_name)")], "R-rank-desc", "decreasing"),
    M("n_best cut before filtering", [(F_SEL, "                and (feature in filtered_association.index[:n_best])", "                and (feature in associations.index[:n_best])")], "R-rank-desc", "FILTERED"),
    M("filters always see the first measure's ranking", [(F_SEL, "                X, associations, filters=self.filters[dtype], **self.kwargs", "                X, initial_associations, filters=self.filters[dtype], **self.kwargs")], "R-rank-desc", "filters receive"),
    M("quantitative filter non-strict", [(F_QTF, "        if worst_corr > thresh_corr:", "        if worst_corr >= thresh_corr:")], "R-filter-greedy", "quantitative: dropped"),
    M("quantitative filter compares with worse features too", [(F_QTF, "    X_corr = X_corr.where(triu(ones(X_corr.shape), k=1).astype(bool))", "    X_corr = X_corr.where(~triu(ones(X_corr.shape), k=0).astype(bool) | triu(ones(X_corr.shape), k=1).astype(bool))")], "R-filter-greedy", "better-ranked"),
    M("dropped features keep excluding others", [(F_QTF, "            X_corr = X_corr.drop(feature, axis=0).drop(feature, axis=1)", "            X_corr = X_corr.drop(feature, axis=1)")], "R-filter-greedy", "better-ranked"),
    M("signed correlation in the filter", [(F_QTF, "    X_corr = X[prefered_order].corr(corr_measure).abs()", "    X_corr = X[prefered_order].corr(corr_measure)")], "R-abs-corr", "quantitative_filter", quick=True),
    M("qualitative filter non-strict", [(F_QLF, "        if association.get(f\"{measure}_filter\", 0) > thresh_corr:", "        if association.get(f\"{measure}_filter\", 0) >= thresh_corr:")], "R-filter-greedy", "qualitative: dropped"),
    M("qualitative filter includes the feature itself", [(F_QLF, "    better_features = list(ranks.loc[:feature].index)[:-1]", "    better_features = list(ranks.loc[:feature].index)")], "R-filter-greedy", "qualitative: compared"),
    M("thresh_filter runs last", [(F_SEL, "            dtype: [thresh_filter] + requested_filters[:]", "            dtype: requested_filters[:] + [thresh_filter]")], "R-filter-greedy", "thresh_filter"),
    M("quantitative filter left-joins the kept measurements (dropped features come back)", [(F_QTF, "        associations = ranks.join(associations, how=\"right\")", "        associations = ranks.join(associations)")], "R-filter-greedy", "only kept"),
    M("an empty list of filters is replaced by the default filter", [("AutoCarver/selectors/classification_selector.py", "        if quantitative_filters is None:", "        if not quantitative_filters:")], "R-list-default-by-none", "quantitative_filters"),
    M("spearman filter computes pearson", [(F_QTF, "    return quantitative_filter(X, ranks, \"spearman\", thresh_corr, **params)", "    return quantitative_filter(X, ranks, \"pearson\", thresh_corr, **params)")], "R-filter-greedy", "spearman_filter"),
    M("colsample split drops the remainder", [(F_SEL, "                    # adding last sample with all remaining features\n                    feature_samples += [features[chunks * (int(1 / self.colsample) - 1) :]]\n", ""), (F_SEL, "                        for i in range(int(1 / self.colsample) - 1)", "                        for i in range(int(1 / self.colsample))")], "R-colsample-cover"),
    M("tschuprowt counts rows where only x is known", [(F_QLM, "    n_obs = (notna(x) & notna(y)).sum()\n\n    # number of values taken by the features\n    n_mod_x, n_mod_y = x.nunique(), y.nunique()\n\n    # Tschuprow's T", "    n_obs = notna(x).sum()\n\n    # number of values taken by the features\n    n_mod_x, n_mod_y = x.nunique(), y.nunique()\n\n    # Tschuprow's T")], "R-measure-formula", "tschuprowt_measure"),
    M("cramerv normalised by max instead of min", [(F_QLM, "    min_n_mod = min(n_mod_x, n_mod_y)", "    min_n_mod = max(n_mod_x, n_mod_y)")], "R-measure-formula", "cramerv_measure"),
    M("tschuprowt without the square root of the dof product", [(F_QLM, "    dof_mods = sqrt((n_mod_x - 1) * (n_mod_y - 1))", "    dof_mods = (n_mod_x - 1) * (n_mod_y - 1)")], "R-measure-formula", "tschuprowt_measure"),
    M("measure stored under another key", [(F_QTM, "        measurement = {\"kruskal_measure\": kw[0]}", "        measurement = {\"kruskal\": kw[0]}")], "R-measure-registry", "kruskal_measure"),
    M("reverse_xy forgets the name", [(F_BM, "    reversed_measure.__name__ = measure.__name__\n", "")], "R-measure-registry", "reverse_xy"),
    M("nans_measure fills X in place", [(F_BM, "    nans = x.isnull()  # ckecking for nans\n    pct_nan", "    nans = x.isnull()  # ckecking for nans\n    x.fillna(0, inplace=True)\n    pct_nan")], "R-select-pure", "nans_measure"),
    M("select shuffles the configured list", [(F_SEL, "            features = self.input_dtypes[dtype][:]", "            features = self.input_dtypes[dtype]")], "R-select-pure", "copied before shuffling"),
    M("filter drops columns of X", [(F_QTF, "    # accessing the prefered order\n    prefered_order = ranks.index\n\n    # computing correlation between features", "    # accessing the prefered order\n    prefered_order = ranks.index\n    X.drop(columns=[c for c in X.columns if c not in prefered_order], inplace=True)\n\n    # computing correlation between features")], "R-select-pure", "quantitative_filter"),
]
BENIGN = [
    B("measurement initialised in an else branch", [(F_QLM, _D7, _D7.replace("    measurement = {}\n    if chi2_statistic is None:\n        _, measurement = chi2_measure(x, y, **kwargs)\n        chi2_statistic = measurement.get(\"chi2_statistic\")\n", "    if chi2_statistic is None:\n        _, measurement = chi2_measure(x, y, **kwargs)\n        chi2_statistic = measurement.get(\"chi2_statistic\")\n    else:\n        measurement = {}\n"))]),
    B("filter threshold operands swapped", [(F_QTF, "        if worst_corr > thresh_corr:", "        if thresh_corr < worst_corr:")]),
    B("abs through numpy", [(F_QTF, "    X_corr = X[prefered_order].corr(corr_measure).abs()", "    X_corr = abs(X[prefered_order].corr(corr_measure))")]),
]
