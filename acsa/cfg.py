"""Statement-level control-flow graph of one function, with dominators / post-dominators.

Nodes are small integers.  Every *simple* statement gets one node; compound statements get a
node for their header (``if``/``while`` test, ``for`` iterator, ``with`` items) and their bodies are
expanded.  ``ENTRY`` (0), ``EXIT`` (1, normal return) and ``RAISE`` (2, exceptional exit) are
synthetic.  ``assert`` gets an edge to RAISE besides its fall-through edge; a call may raise
too, but implicit exceptions are *not* modelled (stated in the trusted base).
"""
from __future__ import annotations

import ast
from typing import Dict, Iterable, List, Optional, Set

ENTRY, EXIT, RAISE = 0, 1, 2


class CFG:
    def __init__(self, fn: ast.AST):
        self.fn = fn
        self.succ: Dict[int, Set[int]] = {ENTRY: set(), EXIT: set(), RAISE: set()}
        self.pred: Dict[int, Set[int]] = {ENTRY: set(), EXIT: set(), RAISE: set()}
        self.stmt: Dict[int, ast.AST] = {}
        self.node_by_stmt: Dict[int, int] = {}
        self._next = 3
        self._loop_stack: List[tuple] = []  # (continue_target, break_collector)
        self._try_stack: List[List[int]] = []  # handler entry nodes
        body = fn.body if hasattr(fn, "body") else [fn]
        ends = self._seq(body, [ENTRY])
        for e in ends:
            self._edge(e, EXIT)
        self._parents: Dict[int, ast.AST] = {}
        for node in ast.walk(fn):
            for ch in ast.iter_child_nodes(node):
                self._parents[id(ch)] = node
        self._dom: Optional[Dict[int, Set[int]]] = None
        self._pdom: Optional[Dict[int, Set[int]]] = None

    # ---- construction --------------------------------------------------------------------
    def _new(self, st: ast.AST) -> int:
        n = self._next
        self._next += 1
        self.succ[n] = set()
        self.pred[n] = set()
        self.stmt[n] = st
        self.node_by_stmt[id(st)] = n
        # any statement inside a try body may transfer control to the handlers
        for handlers in self._try_stack:
            for h in handlers:
                self._edge(n, h)
        return n

    def _edge(self, a: int, b: int) -> None:
        self.succ[a].add(b)
        self.pred[b].add(a)

    def _seq(self, stmts: Iterable[ast.stmt], preds: List[int]) -> List[int]:
        cur = list(preds)
        for st in stmts:
            cur = self._stmt(st, cur)
        return cur

    def _stmt(self, st: ast.stmt, preds: List[int]) -> List[int]:
        if isinstance(st, ast.If):
            t = self._new(st)
            for p in preds:
                self._edge(p, t)
            a = self._seq(st.body, [t])
            b = self._seq(st.orelse, [t]) if st.orelse else [t]
            return a + b
        if isinstance(st, (ast.For, ast.AsyncFor, ast.While)):
            t = self._new(st)
            for p in preds:
                self._edge(p, t)
            breaks: List[int] = []
            self._loop_stack.append((t, breaks))
            body_end = self._seq(st.body, [t])
            self._loop_stack.pop()
            for e in body_end:
                self._edge(e, t)
            after = self._seq(st.orelse, [t]) if st.orelse else [t]
            return after + breaks
        if isinstance(st, (ast.With, ast.AsyncWith)):
            t = self._new(st)
            for p in preds:
                self._edge(p, t)
            return self._seq(st.body, [t])
        if isinstance(st, ast.Try):
            handler_entries: List[int] = []
            # pre-create handler header nodes so that body statements can point at them
            saved = self._try_stack
            self._try_stack = []  # handler headers themselves are not inside this try
            for h in st.handlers:
                hn = self._new(h)
                handler_entries.append(hn)
            self._try_stack = saved
            self._try_stack.append(handler_entries)
            body_end = self._seq(st.body, preds)
            self._try_stack.pop()
            for p in preds:  # exception before the first statement completes
                for hn in handler_entries:
                    self._edge(p, hn)
            else_end = self._seq(st.orelse, body_end) if st.orelse else body_end
            ends = list(else_end)
            for h, hn in zip(st.handlers, handler_entries):
                ends += self._seq(h.body, [hn])
            if st.finalbody:
                ends = self._seq(st.finalbody, ends)
            return ends
        if isinstance(st, ast.Return):
            n = self._new(st)
            for p in preds:
                self._edge(p, n)
            self._edge(n, EXIT)
            return []
        if isinstance(st, ast.Raise):
            n = self._new(st)
            for p in preds:
                self._edge(p, n)
            self._edge(n, RAISE)
            return []
        if isinstance(st, ast.Break):
            n = self._new(st)
            for p in preds:
                self._edge(p, n)
            if self._loop_stack:
                self._loop_stack[-1][1].append(n)
            return []
        if isinstance(st, ast.Continue):
            n = self._new(st)
            for p in preds:
                self._edge(p, n)
            if self._loop_stack:
                self._edge(n, self._loop_stack[-1][0])
            return []
        if isinstance(st, (ast.FunctionDef, ast.AsyncFunctionDef, ast.ClassDef)):
            n = self._new(st)
            for p in preds:
                self._edge(p, n)
            return [n]
        n = self._new(st)
        for p in preds:
            self._edge(p, n)
        if isinstance(st, ast.Assert):
            self._edge(n, RAISE)
        return [n]

    # ---- queries -------------------------------------------------------------------------
    def nodes(self) -> List[int]:
        return sorted(self.succ)

    def node_of(self, node: ast.AST) -> Optional[int]:
        """CFG node of the statement that *evaluates* ``node`` (header node for compound
        statement tests/iterators; None if inside a nested function/lambda body)."""
        cur = node
        while cur is not None:
            if id(cur) in self.node_by_stmt:
                n = self.node_by_stmt[id(cur)]
                st = self.stmt[n]
                # an expression inside the *body* of a compound statement never reaches here,
                # because the body statement itself is registered and is met first.
                return n
            if isinstance(cur, (ast.FunctionDef, ast.AsyncFunctionDef, ast.Lambda)) and cur is not self.fn:
                # nested function: evaluated when called; attribute to the def statement
                pass
            cur = self._parents.get(id(cur))
        return None

    def _dominators(self, succ, pred, root) -> Dict[int, Set[int]]:
        nodes = set(succ)
        # restrict to nodes reachable from root
        reach = set()
        todo = [root]
        while todo:
            x = todo.pop()
            if x in reach:
                continue
            reach.add(x)
            todo.extend(succ[x])
        dom = {n: set(reach) for n in reach}
        dom[root] = {root}
        changed = True
        while changed:
            changed = False
            for n in reach:
                if n == root:
                    continue
                ps = [p for p in pred[n] if p in reach]
                new = set(reach)
                for p in ps:
                    new &= dom[p]
                new = new | {n}
                if new != dom[n]:
                    dom[n] = new
                    changed = True
        for n in nodes - reach:
            dom[n] = set()
        return dom

    def dominators(self) -> Dict[int, Set[int]]:
        if self._dom is None:
            self._dom = self._dominators(self.succ, self.pred, ENTRY)
        return self._dom

    def postdominators(self) -> Dict[int, Set[int]]:
        """Post-dominators with respect to the *normal* exit (RAISE edges ignored)."""
        if self._pdom is None:
            succ = {n: {s for s in ss if s != RAISE} for n, ss in self.succ.items() if n != RAISE}
            pred = {n: {p for p in ps if p != RAISE} for n, ps in self.pred.items() if n != RAISE}
            self._pdom = self._dominators(pred, succ, EXIT)
        return self._pdom

    def dominates(self, a: int, b: int) -> bool:
        """Every path ENTRY -> b passes through a."""
        return a in self.dominators().get(b, set())

    def postdominates(self, a: int, b: int) -> bool:
        """Every path b -> EXIT (normal) passes through a."""
        return a in self.postdominators().get(b, set())

    def reachable(self, a: int, b: int, avoiding: Set[int] = frozenset(), strict: bool = True) -> bool:
        """Is there a path a -> ... -> b (of length >= 1 if strict) avoiding the given nodes?"""
        seen = set()
        todo = list(self.succ[a]) if strict else [a]
        while todo:
            x = todo.pop()
            if x in seen or x in avoiding:
                continue
            if x == b:
                return True
            seen.add(x)
            todo.extend(self.succ[x])
        return False

    def is_reachable_from_entry(self, n: int) -> bool:
        return bool(self.dominators().get(n))

    def before(self, a: ast.AST, b: ast.AST) -> bool:
        """``a`` is evaluated before ``b`` on every path reaching ``b`` (statement dominance, or
        source order inside the same statement)."""
        na, nb = self.node_of(a), self.node_of(b)
        if na is None or nb is None:
            return False
        if na == nb:
            return (a.lineno, a.col_offset) < (b.lineno, b.col_offset)
        return self.dominates(na, nb)

    def enclosing_loops(self, node: ast.AST) -> List[ast.AST]:
        out = []
        cur = self._parents.get(id(node))
        while cur is not None and cur is not self.fn:
            if isinstance(cur, (ast.For, ast.While)):
                out.append(cur)
            cur = self._parents.get(id(cur))
        return out

    def parent(self, node: ast.AST) -> Optional[ast.AST]:
        return self._parents.get(id(node))

    def path_conditions(self, node: ast.AST) -> List[tuple]:
        """Enclosing ``if``/``while``/ternary/comprehension-filter conditions of ``node`` inside the
        function: list of (test_expr, polarity) from outermost to innermost (structural, i.e.
        control dependence through nesting; early exits are handled by callers via dominance)."""
        out = []
        cur = node
        par = self._parents.get(id(cur))
        while par is not None:
            if isinstance(par, ast.If):
                if any(cur is s for s in par.body):
                    out.append((par.test, True))
                elif any(cur is s for s in par.orelse):
                    out.append((par.test, False))
            elif isinstance(par, ast.While):
                if any(cur is s for s in par.body):
                    out.append((par.test, True))
            elif isinstance(par, ast.IfExp):
                if cur is par.body:
                    out.append((par.test, True))
                elif cur is par.orelse:
                    out.append((par.test, False))
            elif isinstance(par, ast.comprehension):
                pass
            elif isinstance(par, (ast.ListComp, ast.SetComp, ast.GeneratorExp, ast.DictComp)):
                elt_nodes = [par.key, par.value] if isinstance(par, ast.DictComp) else [par.elt]
                if any(cur is e for e in elt_nodes):
                    for gen in par.generators:
                        for cond in gen.ifs:
                            out.append((cond, True))
            elif isinstance(par, ast.BoolOp) and isinstance(par.op, ast.And):
                idx = [i for i, v in enumerate(par.values) if v is cur]
                if idx:
                    for v in par.values[: idx[0]]:
                        out.append((v, True))
            elif isinstance(par, ast.BoolOp) and isinstance(par.op, ast.Or):
                idx = [i for i, v in enumerate(par.values) if v is cur]
                if idx:
                    for v in par.values[: idx[0]]:
                        out.append((v, False))
            # guard clauses: an earlier sibling `if T: ... return / raise / continue / break` (no else)
            # means `not T` for everything after it in the same block
            if isinstance(cur, ast.stmt):
                for fld in ("body", "orelse", "finalbody"):
                    lst = getattr(par, fld, None)
                    if isinstance(lst, list) and any(cur is s for s in lst):
                        idx = [i for i, s in enumerate(lst) if s is cur][0]
                        for sib in reversed(lst[:idx]):
                            if isinstance(sib, ast.If):
                                b_jump = bool(sib.body) and isinstance(sib.body[-1], (ast.Return, ast.Raise, ast.Continue, ast.Break))
                                o_jump = bool(sib.orelse) and isinstance(sib.orelse[-1], (ast.Return, ast.Raise, ast.Continue, ast.Break))
                                if b_jump and not sib.orelse:
                                    out.append((sib.test, False))
                                elif o_jump and not b_jump:
                                    out.append((sib.test, True))
                        break
            if par is self.fn:
                break
            cur = par
            par = self._parents.get(id(cur))
        out.reverse()
        return out
