"""Regenerates /verif/MANIFEST.json from the rule modules that exist (python3 -m acsa.manifest)."""
from __future__ import annotations

import json
import os

from . import rules as rules_pkg
from .report import VERIF

BASELINE = (
    "cd /repo && /venv/bin/python -m pytest -ra -q -p no:cacheprovider --timeout=900 "
    "--continue-on-collection-errors"
)


def main():
    with open(os.path.join(VERIF, "properties.jsonl"), encoding="utf-8") as fh:
        props = [json.loads(l) for l in fh if l.strip()]
    claimed = set(rules_pkg.all_props())
    checks = []
    for p in props:
        pid = p["id"]
        if pid not in claimed:
            continue
        mod = rules_pkg.get(pid)
        checks.append(
            {
                "property_id": pid,
                "quick_cmd": f"python3 -m acsa check {pid} --tier quick",
                "thorough_cmd": f"python3 -m acsa check {pid} --tier thorough",
                "evidence_file": f"/verif/evidence/{pid}.json",
                "replay_cmd_template": "python3 -m acsa replay {path}",
                "engine": "acsa",
                "level_claimed": {
                    "category": "other",
                    "text": "Static analysis of /repo's current sources (no execution): " + mod.EXPLANATION
                    + " These are necessary structural conditions of the property, decided on every path "
                    "of the code; NOT decided (needs execution): " + mod.NOT_DECIDED + ".",
                    "design_ref": f"DESIGN.md section 4, {pid}",
                },
                "level_note": "Trusted: CPython ast; acsa's call resolution, CFG/dominators and effect engine; the "
                "library effect model (pandas/numpy calls do not mutate their arguments unless inplace=True); "
                "closed world (no monkey-patching); feature names are non-empty strings. Thorough tier adds the "
                "mutant / benign-variant corpus (checker self-test, in memory).",
                "technique": getattr(mod, "TECHNIQUE", "static analysis: AST rules over resolved call graph, CFG dominance, effect/origin analysis"),
            }
        )
    na = [
        {"property_id": p["id"], "reason": "check not implemented yet (build in progress, see DESIGN.md section 4)"}
        for p in props
        if p["id"] not in claimed
    ]
    manifest = {
        "version": 1,
        "setup_cmd": "python3 -m acsa selfcheck",
        "hooks": {
            "guard": "AUTOCARVER_VERIF",
            "enable": "none needed: the checks parse /repo's sources and never import or run them; no hook was added",
            "baseline_off_cmd": BASELINE,
            "source_commits": [],
            "add_only": True,
        },
        "engines": [
            {
                "name": "acsa",
                "path": "/verif/acsa",
                "serves_properties": sorted(claimed),
                "kind_free_text": "repository-specific static analyser (stdlib ast): symbol/MRO resolution, call graph, "
                "statement CFG with dominators, inter-procedural effect/origin analysis, boolean-provenance and "
                "comparison normalisers, writer/reader tables; mutant + benign-variant self-test on an in-memory overlay",
            }
        ],
        "checks": checks,
        "not_applicable": na,
        "notes": "All checks are `python3 -m acsa check <id>`; exit 0 holds / 1 VIOLATION / 2 analysis error (never a verdict). "
        "Known findings: /verif/KNOWN_FINDINGS.txt.",
    }
    with open(os.path.join(VERIF, "MANIFEST.json"), "w", encoding="utf-8") as fh:
        json.dump(manifest, fh, indent=1)
    print(f"MANIFEST.json: {len(checks)} checks, {len(na)} not applicable")


if __name__ == "__main__":
    main()
