"""Inter-procedural effect / origin analysis ("origins" in DESIGN.md section 2).

Abstract interpretation over the syntax tree (flow-sensitive inside a function, summaries across
functions, context-sensitive on the receiver class and on the receiver's ``copy`` flag):

* every value carries a set of **paths** ``(root, attr)``; roots are ``self``, ``p:<param>``,
  ``glob:<name>``, ``new:<site>`` (object built by a package constructor in this function) and
  nothing at all for values known to be fresh;
* a tiny heap maps ``(object root, attribute)`` to the paths stored there (so that
  ``self.input_dtypes = input_dtypes`` in ``__init__`` makes a later ``pop`` on the new object's
  attribute a mutation of the caller's dict);
* **events**: ``write`` (``self.attr = ...`` rebinding) and ``mut`` (in-place mutation of whatever
  a path denotes), each with a *guarded* flag = "the refit guard had executed on every path
  reaching this point";
* function **summaries** = (events on self/params/globals, returned value, heap of self on exit,
  guarded-on-exit), computed on demand, memoised per (function, receiver class, copy flag).

The external-library model is name based and is the trusted part: a call that is not in the
mutator table and has no ``inplace=True`` does not mutate its receiver/arguments.
"""
from __future__ import annotations

import ast
from dataclasses import dataclass, field, replace
from typing import Dict, FrozenSet, List, Optional, Tuple

from .core import (
    AnalysisError,
    ClassInfo,
    External,
    FunctionInfo,
    ModuleInfo,
    Repo,
    const_value,
    stmts_of,
    unparse,
)

Path = Tuple[str, Optional[str]]

# ---- library / container model (DESIGN.md appendix A) -------------------------------------------
MUTATOR_METHODS = {
    "update", "pop", "remove", "append", "extend", "insert", "clear", "group", "group_list",
    "replace_group_leader", "sort", "reverse", "setdefault", "popitem", "add", "discard",
    "__setitem__", "__delitem__",
}
MUTATOR_FUNCS_ARG0 = {"shuffle"}  # random.shuffle(x)
ALIAS_METHODS = {
    "items", "values", "keys", "get", "loc", "iloc", "at", "iat", "index", "columns", "content",
    "T", "squeeze", "__getitem__", "view", "ravel", "to_numpy", "__iter__",
}
ALIAS_FUNCS = {"enumerate", "zip", "reversed", "iter", "next", "map", "filter", "asarray"}
ALIAS_ATTRS = {"values", "index", "columns", "content", "loc", "iloc", "T", "at", "iat", "style"}
# everything else called on a tracked value returns a fresh value and mutates nothing.


@dataclass(frozen=True)
class Val:
    paths: FrozenSet[Path] = frozenset()  # objects this value may *be*
    elts: Optional[Tuple["Val", ...]] = None
    cls: Optional[ClassInfo] = None
    copyflag: Optional[bool] = None
    func: Optional[tuple] = None  # ("fn", FunctionInfo, recvVal|None, boundpos, boundkw) | ("lambda", node)
    is_none: bool = False
    epaths: FrozenSet[Path] = frozenset()  # objects a fresh container may *hold* (elements)

    @property
    def allpaths(self) -> FrozenSet[Path]:
        return self.paths | self.epaths

    def elem(self) -> "Val":
        """Value of an element / item / iteration variable taken from this value."""
        return Val(self.paths | self.epaths, epaths=self.epaths)

    def join(self, other: "Val") -> "Val":
        if self is other:
            return self
        elts = None
        if self.elts is not None and other.elts is not None and len(self.elts) == len(other.elts):
            elts = tuple(a.join(b) for a, b in zip(self.elts, other.elts))
        return Val(
            self.paths | other.paths,
            elts,
            self.cls if self.cls == other.cls else (self.cls if other.is_none else (other.cls if self.is_none else None)),
            self.copyflag if self.copyflag == other.copyflag else None,
            self.func if self.func == other.func else (self.func or other.func),
            self.is_none and other.is_none,
            self.epaths | other.epaths,
        )

    def flat(self) -> "Val":
        return Val(self.paths, None, self.cls, self.copyflag, self.func, False, self.epaths)


FRESH = Val()
NONE = Val(is_none=True)


@dataclass(frozen=True)
class Event:
    kind: str  # "write" | "mut"
    path: Path
    guarded: bool
    fn: str  # qualified name of the function that contains the mutating construct
    expr: str  # normalised text of the mutating construct
    where: str  # relpath:line of the construct (diagnostic)
    chain: Tuple[str, ...] = ()  # call chain (outermost first)

    def key(self):
        return (self.kind, self.path, self.guarded, self.fn, self.expr)


@dataclass
class Summary:
    events: List[Event] = field(default_factory=list)
    ret: Val = FRESH
    heap_out: Dict[Path, FrozenSet[Path]] = field(default_factory=dict)
    ends_guarded: bool = False
    unmodelled: set = field(default_factory=set)
    calls: int = 0
    resolved: int = 0


class State:
    def __init__(self):
        self.env: Dict[str, Val] = {}
        self.heap: Dict[Path, FrozenSet[Path]] = {}
        self.guarded = False
        self.dead = False

    def copy(self) -> "State":
        s = State()
        s.env = dict(self.env)
        s.heap = dict(self.heap)
        s.guarded = self.guarded
        s.dead = self.dead
        return s

    def join(self, other: "State") -> "State":
        if self.dead:
            return other.copy()
        if other.dead:
            return self.copy()
        s = State()
        for k in set(self.env) | set(other.env):
            a, b = self.env.get(k), other.env.get(k)
            s.env[k] = a.join(b) if (a is not None and b is not None) else (a or b)
        for k in set(self.heap) | set(other.heap):
            a, b = self.heap.get(k), other.heap.get(k)
            if a is None or b is None:
                # attribute assigned on one branch only: it may still hold its entry value
                s.heap[k] = (a if a is not None else b) | frozenset([k])
            else:
                s.heap[k] = a | b
        s.guarded = self.guarded and other.guarded
        return s

    def same(self, other: "State") -> bool:
        return (
            self.env == other.env
            and self.heap == other.heap
            and self.guarded == other.guarded
            and self.dead == other.dead
        )


class Effects:
    def __init__(self, repo: Repo):
        self.repo = repo
        self._memo: Dict[tuple, Summary] = {}
        self._active: Dict[tuple, Summary] = {}
        self.unmodelled: set = set()
        self.total_calls = 0
        self.resolved_calls = 0
        self.unresolved_names: Dict[str, int] = {}
        self.stats: Dict[str, int] = {"package": 0, "external-modelled": 0, "callable-value": 0, "unknown": 0}
        self.edges: Dict[str, set] = {}  # caller FunctionInfo.key -> callee keys (resolved package calls)
        self.fn_by_key: Dict[str, FunctionInfo] = {}

    # ------------------------------------------------------------------------------------
    def summary(self, fi: FunctionInfo, recv: Optional[ClassInfo] = None, copy: Optional[bool] = None) -> Summary:
        key = (fi.key, recv.name if recv else None, copy)
        if key in self._memo:
            return self._memo[key]
        if key in self._active:
            self._active[key].calls = -1  # mark: recursion met
            return self._active[key]
        cur = Summary()
        for _ in range(4):
            self._active[key] = cur
            an = _FnAnalysis(self, fi, recv, copy)
            new = an.run()
            recursion = cur.calls == -1
            stable = (
                {e.key() for e in new.events} == {e.key() for e in cur.events}
                and new.ret == cur.ret
                and new.heap_out == cur.heap_out
                and new.ends_guarded == cur.ends_guarded
            )
            cur = new
            if not recursion or stable:
                break
        self._active.pop(key, None)
        self._memo[key] = cur
        return cur

    def method_summary(self, cls: ClassInfo, name: str, copy: Optional[bool] = None) -> Tuple[FunctionInfo, Summary]:
        fi = self.repo.lookup_method(cls, name)
        if fi is None:
            raise AnalysisError(f"{cls.name}.{name} not found through the MRO")
        return fi, self.summary(fi, cls, copy)

    def reachable(self, fi: FunctionInfo, recv: Optional[ClassInfo] = None, copy: Optional[bool] = None) -> List[FunctionInfo]:
        """Package functions reachable from ``fi`` through resolved calls (``fi`` included)."""
        self.summary(fi, recv, copy)
        self.fn_by_key[fi.key] = fi
        seen, todo = [], [fi.key]
        while todo:
            k = todo.pop()
            if k in seen:
                continue
            seen.append(k)
            todo.extend(sorted(self.edges.get(k, ())))
        return [self.fn_by_key[k] for k in seen]

    def immutable_attrs(self, cls: ClassInfo) -> set:
        key = ("imm", cls.name)
        if key not in self._memo:
            out = set()
            for c in self.repo.mro(cls):
                init = c.methods.get("__init__")
                if init is None:
                    continue
                imm = _immutable_params(init)
                for node in ast.walk(init.node):
                    if (
                        isinstance(node, ast.Assign)
                        and len(node.targets) == 1
                        and isinstance(node.targets[0], ast.Attribute)
                        and isinstance(node.targets[0].value, ast.Name)
                        and node.targets[0].value.id == "self"
                        and isinstance(node.value, ast.Name)
                        and node.value.id in imm
                    ):
                        out.add(node.targets[0].attr)
            self._memo[key] = out
        return self._memo[key]

    def init_default_copy(self, cls: ClassInfo) -> Optional[bool]:
        init = self.repo.lookup_method(cls, "__init__")
        if init is None:
            return None
        d = init.param_defaults().get("copy")
        v = const_value(d) if d is not None else None
        return v if isinstance(v, bool) else None


_IMMUTABLE_ANN = {"str", "int", "float", "bool", "bytes"}


def _immutable_params(fi: FunctionInfo) -> set:
    a = fi.node.args
    out = set()
    for arg in a.posonlyargs + a.args + a.kwonlyargs:
        ann = arg.annotation
        if isinstance(ann, ast.Name) and ann.id in _IMMUTABLE_ANN:
            out.add(arg.arg)
        elif isinstance(ann, ast.Constant) and ann.value in _IMMUTABLE_ANN:
            out.add(arg.arg)
    return out


class _FnAnalysis:
    def __init__(self, eng: Effects, fi: FunctionInfo, recv: Optional[ClassInfo], copy: Optional[bool]):
        self.eng = eng
        self.repo = eng.repo
        self.fi = fi
        self.mod: ModuleInfo = fi.module
        self.recv = recv if recv is not None else fi.cls
        self.copy = copy
        self.events: Dict[tuple, Event] = {}
        self.returns: List[Val] = []
        self.exit_states: List[State] = []
        self.unmodelled: set = set()
        self.ncalls = 0
        self.nresolved = 0
        self.immutable_params = _immutable_params(fi)

    # ---- driver ------------------------------------------------------------------------
    def run(self) -> Summary:
        st = State()
        node = self.fi.node
        a = node.args
        params = [x.arg for x in a.posonlyargs + a.args + a.kwonlyargs]
        if a.vararg:
            params.append(a.vararg.arg)
        if a.kwarg:
            params.append(a.kwarg.arg)
        is_method = self.fi.cls is not None and not any(
            isinstance(d, ast.Name) and d.id == "staticmethod" for d in node.decorator_list
        )
        for i, p in enumerate(params):
            if is_method and i == 0:
                st.env[p] = Val(frozenset([("self", None)]), cls=self.recv, copyflag=self.copy)
            else:
                st.env[p] = Val(frozenset([(f"p:{p}", None)]))
        self.self_name = params[0] if (is_method and params) else None
        st = self.block(stmts_of(node), st)
        if not st.dead:
            self.exit_states.append(st)
            self.returns.append(NONE)
        out = Summary()
        out.events = list(self.events.values())
        ret = None
        for r in self.returns:
            ret = r if ret is None else ret.join(r)
        out.ret = ret if ret is not None else NONE
        final = None
        for s in self.exit_states:
            final = s if final is None else final.join(s)
        if final is not None:
            out.heap_out = {k: v for k, v in final.heap.items() if k[0] == "self"}
            out.ends_guarded = final.guarded
        out.unmodelled = self.unmodelled
        out.calls = self.ncalls
        out.resolved = self.nresolved
        self.eng.unmodelled |= self.unmodelled
        return out

    # ---- events ------------------------------------------------------------------------
    def where(self, node: ast.AST) -> str:
        return f"{self.mod.relpath}:{getattr(node, 'lineno', 0)}"

    def closure(self, st: State, paths) -> FrozenSet[Path]:
        out = set()
        todo = list(paths)
        while todo:
            p = todo.pop()
            if p in out:
                continue
            out.add(p)
            for q in st.heap.get(p, ()):  # what is stored in that attribute may be aliased
                if q not in out:
                    todo.append(q)
        return frozenset(out)

    def immutable(self, p: Path) -> bool:
        """Values whose declared type is immutable (str/int/float/bool annotations on the parameter
        or on the ``__init__`` parameter an attribute is copied from) cannot be mutated in place."""
        root, attr = p
        if root.startswith("p:") and attr is None:
            return root[2:] in self.immutable_params
        if root == "self" and attr is not None and self.recv is not None:
            return attr in self.eng.immutable_attrs(self.recv)
        return False

    def emit(self, st: State, kind: str, paths, node: ast.AST, expr: str = None, chain=(), fn: str = None, where: str = None, guarded: bool = None):
        g = st.guarded if guarded is None else guarded
        for p in sorted(self.closure(st, paths) if kind == "mut" else paths, key=str):
            root = p[0]
            if not (root == "self" or root.startswith("p:") or root.startswith("glob:")):
                continue
            if kind == "mut" and self.immutable(p):
                continue
            ev = Event(
                kind,
                p,
                g,
                fn or self.fi.qualname,
                (expr if expr is not None else unparse(node))[:160],
                where or self.where(node),
                tuple(chain)[:8],
            )
            # keep the weakest guard status per construct (unguarded wins)
            k = (kind, p, ev.fn, ev.expr)
            old = self.events.get(k)
            if old is None or (old.guarded and not g):
                self.events[k] = ev

    # ---- statements ----------------------------------------------------------------------
    def block(self, stmts, st: State) -> State:
        for s in stmts:
            if st.dead:
                break
            st = self.stmt(s, st)
        return st

    def const_test(self, test: ast.expr) -> Optional[bool]:
        """Fold ``self.copy`` under a known copy context."""
        neg = False
        t = test
        while isinstance(t, ast.UnaryOp) and isinstance(t.op, ast.Not):
            neg = not neg
            t = t.operand
        if (
            self.copy is not None
            and isinstance(t, ast.Attribute)
            and t.attr == "copy"
            and isinstance(t.value, ast.Name)
            and t.value.id == self.self_name
        ):
            return self.copy != neg
        return None

    def refine_none(self, test: ast.expr, s_true: State, s_false: State) -> None:
        """``if N is None`` / ``if N is not None``: in the branch where the object denoted by N is
        None, every alias of that (single) object is None too, i.e. denotes nothing mutable."""
        if not (isinstance(test, ast.Compare) and len(test.ops) == 1 and isinstance(test.left, ast.Name)):
            return
        if const_value(test.comparators[0], default=0) is not None:
            return
        if isinstance(test.ops[0], ast.Is):
            none_state = s_true
        elif isinstance(test.ops[0], ast.IsNot):
            none_state = s_false
        else:
            return
        v = none_state.env.get(test.left.id)
        if v is None or len(v.paths) != 1:
            return
        gone = v.paths
        for k, val in list(none_state.env.items()):
            if val.paths & gone:
                none_state.env[k] = replace(val, paths=val.paths - gone, elts=None)

    def is_guard_test(self, test: ast.expr) -> bool:
        """``assert not self.is_fitted`` (any spelling that reads self.is_fitted under one negation
        or compares it with False)."""
        txt = unparse(test).replace(" ", "")
        s = self.self_name or "self"
        return txt in (f"not{s}.is_fitted", f"{s}.is_fittedisFalse", f"{s}.is_fitted==False", f"{s}.is_fittedisnotTrue", f"not({s}.is_fitted)")

    def stmt(self, s: ast.stmt, st: State) -> State:
        if isinstance(s, ast.Expr):
            self.ev(s.value, st)
            return st
        if isinstance(s, ast.Assign):
            v = self.ev(s.value, st)
            for t in s.targets:
                self.assign(t, v, st, s)
            return st
        if isinstance(s, ast.AnnAssign):
            if s.value is not None:
                v = self.ev(s.value, st)
                self.assign(s.target, v, st, s)
            return st
        if isinstance(s, ast.AugAssign):
            v = self.ev(s.value, st)
            cur = self.ev(s.target, st)
            if isinstance(s.target, ast.Name):
                # list += ... is an in-place extension of whatever the name denotes
                self.emit(st, "mut", cur.paths, s, expr=f"{unparse(s.target)} {type(s.op).__name__}= ...")
                st.env[s.target.id] = replace(cur, epaths=cur.epaths | v.allpaths)
            else:
                base = self.base_val(s.target, st)
                self.emit(st, "mut", base.paths, s, expr=f"{unparse(s.target)} {type(s.op).__name__}= ...")
            return st
        if isinstance(s, ast.If):
            folded = self.const_test(s.test)
            self.ev(s.test, st)
            if folded is True:
                return self.block(s.body, st)
            if folded is False:
                return self.block(s.orelse, st)
            sa, sb = st.copy(), st.copy()
            self.refine_none(s.test, sa, sb)
            a = self.block(s.body, sa)
            b = self.block(s.orelse, sb)
            return a.join(b) if not (a.dead and b.dead) else a
        if isinstance(s, (ast.For, ast.AsyncFor)):
            it = self.ev(s.iter, st)
            elem = it.elem()
            cur = st
            for _ in range(5):
                body_in = cur.copy()
                self.assign(s.target, elem, body_in, s)
                body_out = self.block(s.body, body_in)
                body_out.dead = False  # break/continue/return inside: loop may still exit normally
                nxt = cur.join(body_out)
                if nxt.same(cur):
                    break
                cur = nxt
            return self.block(s.orelse, cur) if s.orelse else cur
        if isinstance(s, ast.While):
            cur = st
            for _ in range(5):
                self.ev(s.test, cur)
                body_out = self.block(s.body, cur.copy())
                body_out.dead = False
                nxt = cur.join(body_out)
                if nxt.same(cur):
                    break
                cur = nxt
            return self.block(s.orelse, cur) if s.orelse else cur
        if isinstance(s, (ast.With, ast.AsyncWith)):
            for item in s.items:
                v = self.ev(item.context_expr, st)
                if item.optional_vars is not None:
                    self.assign(item.optional_vars, FRESH, st, s)
            return self.block(s.body, st)
        if isinstance(s, ast.Try):
            body = self.block(s.body, st.copy())
            out = self.block(s.orelse, body) if s.orelse else body
            for h in s.handlers:
                hs = self.block(h.body, st.join(body) if not body.dead else st.copy())
                out = out.join(hs) if not (out.dead and hs.dead) else out
            if s.finalbody:
                out = self.block(s.finalbody, out)
            return out
        if isinstance(s, ast.Return):
            v = self.ev(s.value, st) if s.value is not None else NONE
            self.returns.append(v)
            self.exit_states.append(st.copy())
            st.dead = True
            return st
        if isinstance(s, ast.Raise):
            if s.exc is not None:
                self.ev(s.exc, st)
            st.dead = True
            return st
        if isinstance(s, ast.Assert):
            self.ev(s.test, st)
            if self.is_guard_test(s.test):
                st.guarded = True
            return st
        if isinstance(s, (ast.FunctionDef, ast.AsyncFunctionDef)):
            st.env[s.name] = Val(func=("nested", s))
            return st
        if isinstance(s, ast.Delete):
            for t in s.targets:
                if isinstance(t, ast.Subscript):
                    base = self.base_val(t, st)
                    self.emit(st, "mut", base.paths, s)
            return st
        return st  # Pass, Break, Continue, Import, Global, ...

    def base_val(self, target: ast.expr, st: State) -> Val:
        """The container that a store through ``target`` (subscript / .loc / attribute chain)
        modifies."""
        t = target
        while True:
            if isinstance(t, ast.Subscript):
                t = t.value
            elif isinstance(t, ast.Attribute) and t.attr in ALIAS_ATTRS:
                t = t.value
            else:
                break
        return self.ev(t, st)

    def assign(self, target: ast.expr, v: Val, st: State, node: ast.AST) -> None:
        if isinstance(target, ast.Name):
            st.env[target.id] = v
        elif isinstance(target, (ast.Tuple, ast.List)):
            n = len(target.elts)
            if v.elts is not None and len(v.elts) == n and not any(isinstance(e, ast.Starred) for e in target.elts):
                for t, ev in zip(target.elts, v.elts):
                    self.assign(t, ev, st, node)
            else:
                flat = v.elem()
                for t in target.elts:
                    self.assign(t.value if isinstance(t, ast.Starred) else t, flat, st, node)
        elif isinstance(target, ast.Attribute):
            obj = self.ev(target.value, st)
            if obj.cls is not None and target.attr not in ALIAS_ATTRS:
                roots = sorted({p[0] for p in obj.paths if p[1] is None})
                for r in roots:
                    key = (r, target.attr)
                    if len(roots) == 1:
                        st.heap[key] = frozenset(v.paths)
                    else:
                        st.heap[key] = st.heap.get(key, frozenset([key])) | v.paths
                    self.emit(st, "write", [key], node, expr=f"{unparse(target)} = ...")
                # remember literal copy flags written in __init__ (self.copy = copy)
            else:
                base = self.base_val(target, st)
                self.emit(st, "mut", base.paths, node, expr=f"{unparse(target)} = ...")
        elif isinstance(target, ast.Subscript):
            base = self.base_val(target, st)
            self.emit(st, "mut", base.paths, node, expr=f"{unparse(target)} = ...")
        elif isinstance(target, ast.Starred):
            self.assign(target.value, v, st, node)

    # ---- expressions ---------------------------------------------------------------------
    def ev(self, e: Optional[ast.expr], st: State) -> Val:
        if e is None:
            return NONE
        if isinstance(e, ast.Constant):
            return NONE if e.value is None else FRESH
        if isinstance(e, ast.Name):
            if e.id in st.env:
                return st.env[e.id]
            sym = self.repo.resolve_name(self.mod, e.id)
            if isinstance(sym, FunctionInfo):
                return Val(func=("fn", sym, None, (), ()))
            if isinstance(sym, ClassInfo):
                return Val(func=("cls", sym))
            if isinstance(sym, (External, ModuleInfo)):
                return FRESH
            if e.id in self.mod.globals_assigned:
                return Val(frozenset([(f"glob:{e.id}", None)]))
            return FRESH
        if isinstance(e, ast.Attribute):
            base = self.ev(e.value, st)
            if base.func and base.func[0] == "cls":
                m = self.repo.lookup_method(base.func[1], e.attr)
                if m is not None:
                    return Val(func=("fn", m, None, (), ()))
            if base.cls is not None:
                m = self.lookup(base.cls, e.attr, e)
                if m is not None:
                    return Val(func=("fn", m, base, (), ()))
                if e.attr in ALIAS_ATTRS:
                    return Val(base.paths)
                out = set()
                for r, a in base.paths:
                    if a is None:
                        out.add((r, e.attr))
                        out |= set(st.heap.get((r, e.attr), ()))
                    else:
                        out.add((r, a))
                copyflag = None
                return Val(frozenset(out), copyflag=copyflag)
            if e.attr in ALIAS_ATTRS or base.paths:
                # attribute of an untyped tracked value: collapses onto the value itself
                return Val(base.paths, func=("method", e.attr, base), epaths=base.epaths)
            return Val(func=("method", e.attr, base))
        if isinstance(e, ast.Subscript):
            base = self.ev(e.value, st)
            self.ev(e.slice, st)
            if isinstance(e.slice, ast.Slice) and e.slice.lower is None and e.slice.upper is None and e.slice.step is None:
                return FRESH  # x[:] is a (shallow) copy
            if base.elts is not None:
                idx = const_value(e.slice)
                if isinstance(idx, int) and -len(base.elts) <= idx < len(base.elts):
                    return base.elts[idx]
            return base.elem()
        if isinstance(e, ast.Slice):
            for x in (e.lower, e.upper, e.step):
                if x is not None:
                    self.ev(x, st)
            return FRESH
        if isinstance(e, ast.Call):
            return self.call(e, st)
        if isinstance(e, ast.Tuple):
            vs = tuple(self.ev(x, st) for x in e.elts)
            paths = frozenset().union(*[v.allpaths for v in vs]) if vs else frozenset()
            return Val(elts=vs, epaths=paths)
        if isinstance(e, (ast.List, ast.Set)):
            vs = [self.ev(x, st) for x in e.elts]
            return Val(epaths=frozenset().union(*[v.allpaths for v in vs]) if vs else frozenset())
        if isinstance(e, ast.Dict):
            vs = [self.ev(x, st) for x in list(e.keys) + list(e.values) if x is not None]
            return Val(epaths=frozenset().union(*[v.allpaths for v in vs]) if vs else frozenset())
        if isinstance(e, (ast.ListComp, ast.SetComp, ast.GeneratorExp, ast.DictComp)):
            inner = st.copy()
            inner.guarded = st.guarded
            for gen in e.generators:
                it = self.ev(gen.iter, inner)
                self.assign(gen.target, it.elem(), inner, e)
                for c in gen.ifs:
                    self.ev(c, inner)
            if isinstance(e, ast.DictComp):
                k = self.ev(e.key, inner)
                v = self.ev(e.value, inner)
                return Val(epaths=k.allpaths | v.allpaths)
            return Val(epaths=self.ev(e.elt, inner).allpaths)
        if isinstance(e, ast.IfExp):
            self.ev(e.test, st)
            folded = self.const_test(e.test)
            if folded is True:
                return self.ev(e.body, st)
            if folded is False:
                return self.ev(e.orelse, st)
            return self.ev(e.body, st).join(self.ev(e.orelse, st))
        if isinstance(e, ast.BoolOp):
            out = None
            for x in e.values:
                v = self.ev(x, st)
                out = v if out is None else out.join(v)
            return out.flat()
        if isinstance(e, ast.BinOp):
            a, b = self.ev(e.left, st), self.ev(e.right, st)
            if isinstance(e.op, ast.Add):
                return Val(epaths=a.allpaths | b.allpaths)  # list concatenation shares elements
            return FRESH
        if isinstance(e, ast.UnaryOp):
            self.ev(e.operand, st)
            return FRESH
        if isinstance(e, ast.Compare):
            self.ev(e.left, st)
            for c in e.comparators:
                self.ev(c, st)
            return FRESH
        if isinstance(e, ast.JoinedStr):
            for x in e.values:
                if isinstance(x, ast.FormattedValue):
                    self.ev(x.value, st)
            return FRESH
        if isinstance(e, ast.FormattedValue):
            self.ev(e.value, st)
            return FRESH
        if isinstance(e, ast.Lambda):
            return Val(func=("lambda", e))
        if isinstance(e, ast.Starred):
            return self.ev(e.value, st).flat()
        if isinstance(e, ast.NamedExpr):
            v = self.ev(e.value, st)
            self.assign(e.target, v, st, e)
            return v
        if isinstance(e, (ast.Await, ast.Yield, ast.YieldFrom)):
            v = self.ev(e.value, st) if e.value is not None else NONE
            if isinstance(e, ast.Yield):
                self.returns.append(Val(epaths=v.allpaths))
            return v
        return FRESH

    # ---- calls ---------------------------------------------------------------------------
    def lookup(self, cls: ClassInfo, name: str, node: ast.AST) -> Optional[FunctionInfo]:
        if name.startswith("__") and not name.endswith("__") and self.fi.cls is not None:
            return self.repo.lookup_private(self.fi.cls, name)
        return self.repo.lookup_method(cls, name)

    def call(self, c: ast.Call, st: State) -> Val:
        self.ncalls += 1
        self.eng.total_calls += 1
        f = c.func
        # --- super().m(...)
        if (
            isinstance(f, ast.Attribute)
            and isinstance(f.value, ast.Call)
            and isinstance(f.value.func, ast.Name)
            and f.value.func.id == "super"
        ):
            args, kwargs = self.eval_args(c, st)
            selfv = st.env.get(self.self_name, FRESH)
            target = None
            if self.fi.cls is not None and self.recv is not None:
                target = self.repo.lookup_method(self.recv, f.attr, after=self.fi.cls)
            if target is None:
                self.mark_resolved(external=True)
                return FRESH  # external base (list.__init__, BaseEstimator, ...): pure
            self.mark_resolved()
            return self.apply(target, selfv, args, kwargs, st, c)
        args, kwargs = self.eval_args(c, st)
        fv = self.ev(f, st)
        # --- package function / bound method / constructor
        if fv.func is not None:
            kind = fv.func[0]
            if kind == "fn":
                _, fi, recvv, bpos, bkw = fv.func
                self.mark_resolved()
                if recvv is None and fi.cls is not None and not self.is_static(fi):
                    # unbound call  Class.m(self, ...)
                    if args:
                        recvv, args = args[0], args[1:]
                    else:
                        recvv = FRESH
                kw = dict(bkw)
                kw.update(kwargs)
                return self.apply(fi, recvv, list(bpos) + list(args), kw, st, c)
            if kind == "cls":
                self.mark_resolved()
                return self.construct(fv.func[1], args, kwargs, st, c)
            if kind == "lambda":
                self.mark_resolved()
                return self.apply_lambda(fv.func[1], args, st)
            if kind == "nested":
                self.mark_resolved()
                return FRESH
            if kind == "method":
                _, name, recvv = fv.func
                return self.external_method(name, recvv, args, kwargs, st, c)
        # --- plain external function
        if isinstance(f, ast.Name):
            return self.external_function(f.id, args, kwargs, st, c)
        if isinstance(f, ast.Attribute):
            recvv = self.ev(f.value, st)
            return self.external_method(f.attr, recvv, args, kwargs, st, c)
        self.mark_unresolved(unparse(f))
        return FRESH

    def is_static(self, fi: FunctionInfo) -> bool:
        return any(isinstance(d, ast.Name) and d.id == "staticmethod" for d in fi.node.decorator_list)

    def mark_resolved(self, external: bool = False):
        self.nresolved += 1
        self.eng.resolved_calls += 1
        self.eng.stats["external-modelled" if external else "package"] += 1

    def mark_unresolved(self, name: str):
        self.eng.unresolved_names[name] = self.eng.unresolved_names.get(name, 0) + 1
        self.eng.stats["unknown"] += 1

    def eval_args(self, c: ast.Call, st: State):
        args: List[Val] = []
        for a in c.args:
            v = self.ev(a, st)
            if isinstance(a, ast.Starred):
                if v.elts is not None:
                    args.extend(v.elts)
                else:
                    args.append(v.elem())
            else:
                args.append(v)
        kwargs: Dict[str, Val] = {}
        for kw in c.keywords:
            v = self.ev(kw.value, st)
            if kw.arg is None:
                kwargs.setdefault("**", FRESH)
                kwargs["**"] = kwargs["**"].join(v.elem())
            else:
                kwargs[kw.arg] = v
        return args, kwargs

    # ---- applying a package function -------------------------------------------------------
    def apply(self, fi: FunctionInfo, recvv: Optional[Val], args: List[Val], kwargs: Dict[str, Val], st: State, c: ast.AST) -> Val:
        node = fi.node
        a = node.args
        pos = [x.arg for x in a.posonlyargs + a.args]
        is_method = fi.cls is not None and not self.is_static(fi)
        binding: Dict[str, Val] = {}
        recv_cls = None
        copyflag = None
        if is_method:
            selfname = pos[0] if pos else "self"
            pos = pos[1:]
            recvv = recvv if recvv is not None else FRESH
            recv_cls = recvv.cls or fi.cls
            copyflag = recvv.copyflag
        extra = []
        for i, v in enumerate(args):
            if i < len(pos):
                binding[pos[i]] = v
            else:
                extra.append(v)
        star = kwargs.get("**")
        for k, v in kwargs.items():
            if k == "**":
                continue
            if k in pos or k in [x.arg for x in a.kwonlyargs]:
                binding[k] = v
            elif a.kwarg:
                binding[a.kwarg.arg] = binding.get(a.kwarg.arg, FRESH).join(Val(epaths=v.allpaths))
        if a.vararg:
            vv = FRESH
            for v in extra:
                vv = vv.join(Val(epaths=v.allpaths))
            binding[a.vararg.arg] = vv
        if star is not None:
            # **mapping may bind any parameter that is still unbound
            for p in pos + [x.arg for x in a.kwonlyargs]:
                if p not in binding:
                    binding[p] = star.elem()
            if a.kwarg:
                binding[a.kwarg.arg] = binding.get(a.kwarg.arg, FRESH).join(Val(epaths=star.allpaths))
        self.eng.edges.setdefault(self.fi.key, set()).add(fi.key)
        self.eng.fn_by_key[fi.key] = fi
        self.eng.fn_by_key[self.fi.key] = self.fi
        summ = self.eng.summary(fi, recv_cls if is_method else None, copyflag if is_method else None)

        def subst(p: Path) -> FrozenSet[Path]:
            root, attr = p
            if root == "self":
                src = recvv.paths if recvv is not None else frozenset()
            elif root.startswith("p:"):
                v = binding.get(root[2:])
                src = v.allpaths if v is not None else frozenset()
            elif root.startswith("glob:"):
                return frozenset([p])
            else:
                return frozenset()
            out = set()
            for r, a2 in src:
                if attr is None:
                    out.add((r, a2))
                elif a2 is None:
                    out.add((r, attr))
                    out |= set(st.heap.get((r, attr), ()))
                else:
                    out.add((r, a2))
            return frozenset(out)

        same_object = is_method and recvv is not None and any(p == ("self", None) for p in recvv.paths)
        callsite = f"{self.where(c)} {self.fi.qualname} -> {fi.qualname}"
        for ev in summ.events:
            targets = subst(ev.path)
            if not targets:
                continue
            g = st.guarded or (ev.guarded and same_object)
            self.emit(st, ev.kind if ev.path[0] == "self" and same_object else ("mut" if ev.kind == "mut" else "write"), targets, c, expr=ev.expr, chain=(callsite,) + ev.chain, fn=ev.fn, where=ev.where, guarded=g)
        # heap effects of the callee on its receiver
        if is_method and recvv is not None:
            roots = sorted({r for r, a2 in recvv.paths if a2 is None})
            for (_, attr), stored in summ.heap_out.items():
                new = set()
                for q in stored:
                    new |= set(subst(q))
                for r in roots:
                    key = (r, attr)
                    if len(roots) == 1:
                        st.heap[key] = frozenset(new)
                    else:
                        st.heap[key] = st.heap.get(key, frozenset([key])) | frozenset(new)
        if same_object and summ.ends_guarded:
            st.guarded = True
        return self.subst_val(summ.ret, subst, recvv)

    def subst_val(self, v: Val, subst, recvv: Optional[Val]) -> Val:
        paths = set()
        for p in v.paths:
            paths |= set(subst(p))
        epaths = set()
        for p in v.epaths:
            epaths |= set(subst(p))
        elts = None
        if v.elts is not None:
            elts = tuple(self.subst_val(x, subst, recvv) for x in v.elts)
        cls, copyflag = v.cls, v.copyflag
        if any(p == ("self", None) for p in v.paths) and recvv is not None:
            cls, copyflag = recvv.cls, recvv.copyflag
        return Val(frozenset(paths), elts, cls, copyflag, None, v.is_none, frozenset(epaths))

    def construct(self, cls: ClassInfo, args, kwargs, st: State, c: ast.Call) -> Val:
        root = f"new:{self.fi.qualname}:{c.lineno}:{c.col_offset}"
        copyflag = None
        kwnode = next((k.value for k in c.keywords if k.arg == "copy"), None)
        if kwnode is not None:
            cv = const_value(kwnode)
            if isinstance(cv, bool):
                copyflag = cv
            elif self.const_test(kwnode) is not None:
                copyflag = self.const_test(kwnode)
        else:
            copyflag = self.eng.init_default_copy(cls)
        obj = Val(frozenset([(root, None)]), cls=cls, copyflag=copyflag)
        init = self.repo.lookup_method(cls, "__init__")
        if init is not None:
            self.apply(init, obj, args, kwargs, st, c)
        return obj

    def apply_lambda(self, lam: ast.Lambda, args: List[Val], st: State) -> Val:
        inner = st.copy()
        names = [x.arg for x in lam.args.args]
        for n, v in zip(names, args):
            inner.env[n] = v
        for n in names[len(args):]:
            inner.env[n] = FRESH
        return self.ev(lam.body, inner)

    def apply_callable(self, fv: Val, args: List[Val], kwargs: Dict[str, Val], st: State, c: ast.AST) -> Val:
        if fv.func is None:
            return FRESH
        kind = fv.func[0]
        if kind == "fn":
            _, fi, recvv, bpos, bkw = fv.func
            kw = dict(bkw)
            kw.update(kwargs)
            return self.apply(fi, recvv, list(bpos) + list(args), kw, st, c)
        if kind == "lambda":
            return self.apply_lambda(fv.func[1], args, st)
        if kind == "method":
            _, name, recvv = fv.func
            return self.external_method(name, recvv, args, kwargs, st, c)
        return FRESH

    # ---- external model --------------------------------------------------------------------
    def external_function(self, name: str, args, kwargs, st: State, c: ast.Call) -> Val:
        sym = self.repo.resolve_name(self.mod, name)
        self.mark_resolved(external=True)
        if name == "partial" and args:
            fv = args[0]
            if fv.func and fv.func[0] == "fn":
                _, fi, recvv, bpos, bkw = fv.func
                kw = dict(bkw)
                kw.update({k: v for k, v in kwargs.items() if k != "**"})
                return Val(func=("fn", fi, recvv, tuple(bpos) + tuple(args[1:]), tuple(kw.items())))
            return FRESH
        if name in ("map", "filter") and args:
            elems = [a.elem() for a in args[1:]]
            r = self.apply_callable(args[0], elems, {}, st, c)
            if name == "filter":
                return Val(epaths=frozenset().union(*[a.allpaths for a in args[1:]]))
            return Val(epaths=r.allpaths)
        if name in MUTATOR_FUNCS_ARG0 and args:
            self.emit(st, "mut", args[0].paths, c)
            return FRESH
        if name in ALIAS_FUNCS:
            ps = frozenset().union(*[a.allpaths for a in args]) if args else frozenset()
            return Val(epaths=ps)
        if name == "getattr" or name == "setattr":
            self.unmodelled.add(name)
        if kwargs.get("inplace") is not None and args:
            kwn = next((k.value for k in c.keywords if k.arg == "inplace"), None)
            if const_value(kwn) is True:
                self.emit(st, "mut", args[0].paths, c)
        return FRESH

    def external_method(self, name: str, recvv: Val, args, kwargs, st: State, c: ast.Call) -> Val:
        self.mark_resolved(external=True)
        f = c.func if isinstance(c, ast.Call) else None
        # numpy ufunc.at(arr, idx, vals): in-place on arr
        if name == "at" and isinstance(f, ast.Attribute) and not recvv.paths and args and f.value is not None:
            sym = self.repo.resolve_expr(self.mod, f.value)
            if isinstance(sym, External):
                self.emit(st, "mut", args[0].paths, c)
                return FRESH
        # typed receiver whose method is not in the package: sklearn's fit_transform
        if recvv.cls is not None and name == "fit_transform":
            fit = self.repo.lookup_method(recvv.cls, "fit")
            tr = self.repo.lookup_method(recvv.cls, "transform")
            if fit is not None and tr is not None:
                self.apply(fit, recvv, args, kwargs, st, c)
                return self.apply(tr, recvv, args[:1], {}, st, c)
        # higher-order: frame.apply(f, **kw), pool.apply_async(f, (args)), pool.imap_unordered(f, it)
        if name in ("apply", "map", "applymap", "agg", "aggregate", "transform") and args and args[0].func is not None:
            elem = recvv.elem()
            kw = {k: v for k, v in kwargs.items() if k not in ("axis", "result_type", "raw", "args", "**")}
            r = self.apply_callable(args[0], [elem], kw, st, c)
            return FRESH
        if name == "apply_async" and args and args[0].func is not None:
            tup = args[1] if len(args) > 1 else FRESH
            a2 = list(tup.elts) if tup.elts is not None else [tup.elem()]
            r = self.apply_callable(args[0], a2, {}, st, c)
            return Val(r.paths, elts=r.elts, func=("asyncresult",), epaths=r.epaths)
        if name in ("imap_unordered", "imap", "starmap") and args and args[0].func is not None:
            it = args[1] if len(args) > 1 else FRESH
            r = self.apply_callable(args[0], [it.elem()], {}, st, c)
            return Val(epaths=r.allpaths)
        if name == "get" and recvv.func == ("asyncresult",):
            return Val(recvv.paths, elts=recvv.elts, epaths=recvv.epaths)
        # in-place library calls
        inplace = next((k.value for k in c.keywords if k.arg == "inplace"), None) if isinstance(c, ast.Call) else None
        if inplace is not None and const_value(inplace) is not False:
            self.emit(st, "mut", recvv.paths, c)
            return NONE
        if name in MUTATOR_METHODS:
            # dict.update / list.append ... : the receiver is modified and now holds the arguments
            self.emit(st, "mut", recvv.paths, c)
            # a local container now also holds the arguments
            f2 = c.func if isinstance(c, ast.Call) else None
            if isinstance(f2, ast.Attribute) and isinstance(f2.value, ast.Name) and f2.value.id in st.env:
                stored = args[1:] if name == "setdefault" else args  # d.setdefault(key, default): the key is hashed, only the default is stored as a value
                held = frozenset().union(*[a.allpaths for a in stored]) if stored else frozenset()
                cur = st.env[f2.value.id]
                st.env[f2.value.id] = replace(cur, epaths=cur.epaths | held)
            if name in ("pop", "popitem", "setdefault"):
                return recvv.elem()
            return NONE
        if name in ALIAS_METHODS:
            return recvv.elem()
        if name in ("copy", "view") and isinstance(c, ast.Call):
            deep = next((k.value for k in c.keywords if k.arg == "deep"), c.args[0] if (name == "copy" and c.args) else None)
            if deep is not None and const_value(deep, default=True) is False:
                return recvv.elem()  # a shallow copy shares the data buffers with the original
        if recvv.paths:
            self.unmodelled.add(name) if name not in _KNOWN_FRESH else None
        return FRESH


_KNOWN_FRESH = {
    "copy", "fillna", "replace", "rename", "reset_index", "assign", "reindex", "drop", "dropna",
    "astype", "map", "apply", "groupby", "sum", "mean", "value_counts", "sort_values",
    "set_index", "join", "divide", "where", "abs", "corr", "agg", "isin", "isna", "isnull",
    "notna", "between", "shift", "unique", "nunique", "duplicated", "mode", "to_dict", "min",
    "max", "std", "median", "quantile", "any", "all", "contains", "get_group", "sort_by",
    "strip", "startswith", "format", "is_integer", "count", "index", "background_gradient",
    "set_table_attributes", "set_caption", "hide", "_repr_html_", "fit", "transform", "select",
    "isnull", "tolist", "head", "tail", "sample", "nlargest", "nsmallest", "first", "last",
    "size", "len", "lower", "upper", "split", "join", "get_repr", "applymap", "std", "var",
    "cumsum", "rank", "diff", "clip", "round", "idxmax", "idxmin", "argmin", "argmax", "items",
}
