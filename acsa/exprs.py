"""Expression-level analyses: single-definition inlining, conjunct flattening, comparison
normalisation, propositional skeletons with truth-table equivalence, monomial normal forms."""
from __future__ import annotations

import ast
import copy
import itertools
from fractions import Fraction
from typing import Callable, Dict, List, Optional, Set, Tuple

from .core import unparse, walk_no_nested

# ---------------------------------------------------------------------------------------------
# single-definition inlining
# ---------------------------------------------------------------------------------------------


def single_defs(fn: ast.FunctionDef) -> Dict[str, ast.expr]:
    """Local names bound exactly once in ``fn`` by a plain ``name = expr`` (not parameters, loop
    or comprehension targets, augmented assignments, with/except targets, tuple targets)."""
    counts: Dict[str, int] = {}
    values: Dict[str, ast.expr] = {}
    a = fn.args
    params = {x.arg for x in a.posonlyargs + a.args + a.kwonlyargs}
    if a.vararg:
        params.add(a.vararg.arg)
    if a.kwarg:
        params.add(a.kwarg.arg)

    def bind(name: str, value: Optional[ast.expr]):
        counts[name] = counts.get(name, 0) + 1
        if value is not None:
            values[name] = value
        else:
            counts[name] += 1  # not a plain definition: never inline

    def targets(t, value):
        if isinstance(t, ast.Name):
            bind(t.id, value)
        elif isinstance(t, (ast.Tuple, ast.List)):
            # a, b = (e1, e2): each name is defined by its own element
            if isinstance(value, (ast.Tuple, ast.List)) and len(value.elts) == len(t.elts) and not any(isinstance(e, ast.Starred) for e in list(t.elts) + list(value.elts)):
                for e, v in zip(t.elts, value.elts):
                    targets(e, v)
            else:
                for e in t.elts:
                    targets(e, None)
        elif isinstance(t, ast.Starred):
            targets(t.value, None)

    for n in walk_no_nested(fn):
        if isinstance(n, ast.Assign):
            for t in n.targets:
                targets(t, n.value if len(n.targets) == 1 else None)
        elif isinstance(n, ast.AnnAssign) and n.value is not None:
            targets(n.target, n.value)
        elif isinstance(n, ast.AugAssign):
            targets(n.target, None)
        elif isinstance(n, (ast.For, ast.AsyncFor)):
            targets(n.target, None)
        elif isinstance(n, ast.comprehension):
            targets(n.target, None)
        elif isinstance(n, (ast.With, ast.AsyncWith)):
            for it in n.items:
                if it.optional_vars is not None:
                    targets(it.optional_vars, None)
        elif isinstance(n, ast.ExceptHandler) and n.name:
            bind(n.name, None)
        elif isinstance(n, ast.NamedExpr):
            targets(n.target, None)
    return {k: v for k, v in values.items() if counts.get(k) == 1 and k not in params}


class _Inliner(ast.NodeTransformer):
    def __init__(self, defs: Dict[str, ast.expr], depth: int, skip: Set[str]):
        self.defs = defs
        self.depth = depth
        self.skip = skip

    def visit_Name(self, node: ast.Name):
        if isinstance(node.ctx, ast.Load) and node.id in self.defs and node.id not in self.skip and self.depth > 0:
            sub = copy.deepcopy(self.defs[node.id])
            return _Inliner(self.defs, self.depth - 1, self.skip | {node.id}).visit(sub)
        return node


def inline(fn: ast.FunctionDef, expr: ast.expr, depth: int = 6, defs: Dict[str, ast.expr] = None) -> ast.expr:
    """``expr`` with every single-definition local replaced by its defining expression."""
    defs = single_defs(fn) if defs is None else defs
    return _Inliner(defs, depth, set()).visit(copy.deepcopy(expr))


# ---------------------------------------------------------------------------------------------
# conjuncts / comparisons
# ---------------------------------------------------------------------------------------------


def conjuncts(e: ast.expr) -> List[ast.expr]:
    """Flatten ``a and b``, ``a & b`` (boolean use) into a list of conjuncts."""
    if isinstance(e, ast.BoolOp) and isinstance(e.op, ast.And):
        out = []
        for v in e.values:
            out += conjuncts(v)
        return out
    if isinstance(e, ast.BinOp) and isinstance(e.op, ast.BitAnd):
        return conjuncts(e.left) + conjuncts(e.right)
    return [e]


def disjuncts(e: ast.expr) -> List[ast.expr]:
    if isinstance(e, ast.BoolOp) and isinstance(e.op, ast.Or):
        out = []
        for v in e.values:
            out += disjuncts(v)
        return out
    if isinstance(e, ast.BinOp) and isinstance(e.op, ast.BitOr):
        return disjuncts(e.left) + disjuncts(e.right)
    return [e]


_FLIP = {ast.Lt: ast.Gt, ast.Gt: ast.Lt, ast.LtE: ast.GtE, ast.GtE: ast.LtE, ast.Eq: ast.Eq, ast.NotEq: ast.NotEq}
_NEG = {ast.Lt: ast.GtE, ast.Gt: ast.LtE, ast.LtE: ast.Gt, ast.GtE: ast.Lt, ast.Eq: ast.NotEq, ast.NotEq: ast.Eq,
        ast.In: ast.NotIn, ast.NotIn: ast.In, ast.Is: ast.IsNot, ast.IsNot: ast.Is}
_SYM = {ast.Lt: "<", ast.Gt: ">", ast.LtE: "<=", ast.GtE: ">=", ast.Eq: "==", ast.NotEq: "!=",
        ast.In: "in", ast.NotIn: "not in", ast.Is: "is", ast.IsNot: "is not"}


def cmp_canon(e: ast.expr) -> Optional[Tuple[str, str, str]]:
    """Canonical triple (left, op, right) of a simple comparison with op in {<, <=, ==, !=, in,
    not in, is, is not}: ``a > b`` becomes ``b < a``; ``not (a < b)`` becomes ``b <= a``;
    ``==``/``!=`` operands are sorted.  None for anything else."""
    neg = False
    while isinstance(e, ast.UnaryOp) and isinstance(e.op, (ast.Not, ast.Invert)):
        neg = not neg
        e = e.operand
    if not (isinstance(e, ast.Compare) and len(e.ops) == 1):
        return None
    op = type(e.ops[0])
    left, right = e.left, e.comparators[0]
    if neg:
        if op not in _NEG:
            return None
        op = _NEG[op]
    if op in (ast.Gt, ast.GtE):
        op = _FLIP[op]
        left, right = right, left
    ls, rs = unparse(left), unparse(right)
    if op in (ast.Eq, ast.NotEq) and ls > rs:
        ls, rs = rs, ls
    if op not in _SYM:
        return None
    return (ls, _SYM[op], rs)


def comparisons_in(node: ast.AST) -> List[ast.Compare]:
    out = [n for n in ast.walk(node) if isinstance(n, ast.Compare)]
    out.sort(key=lambda n: (n.lineno, n.col_offset))
    return out


def mentions(e: ast.AST, *needles: str) -> bool:
    """All needles occur in ``e`` as Name ids, attribute names or string constants."""
    have = set()
    for n in ast.walk(e):
        if isinstance(n, ast.Name):
            have.add(n.id)
        elif isinstance(n, ast.Attribute):
            have.add(n.attr)
        elif isinstance(n, ast.Constant) and isinstance(n.value, str):
            have.add(n.value)
        elif isinstance(n, ast.arg):
            have.add(n.arg)
    return all(x in have for x in needles)


# ---------------------------------------------------------------------------------------------
# propositional skeleton + truth-table equivalence
# ---------------------------------------------------------------------------------------------


class Prop:
    """Propositional formula over named atoms: ("atom", name) | ("not", p) | ("and", [..]) |
    ("or", [..]) | ("const", bool)."""


def p_atom(name):
    return ("atom", name)


def p_not(p):
    return ("not", p)


def p_and(*ps):
    return ("and", list(ps))


def p_or(*ps):
    return ("or", list(ps))


def p_const(b):
    return ("const", bool(b))


def p_atoms(p) -> Set[str]:
    k = p[0]
    if k == "atom":
        return {p[1]}
    if k == "not":
        return p_atoms(p[1])
    if k in ("and", "or"):
        out = set()
        for q in p[1]:
            out |= p_atoms(q)
        return out
    return set()


def p_eval(p, env: Dict[str, bool]) -> bool:
    k = p[0]
    if k == "atom":
        return env[p[1]]
    if k == "not":
        return not p_eval(p[1], env)
    if k == "and":
        return all(p_eval(q, env) for q in p[1])
    if k == "or":
        return any(p_eval(q, env) for q in p[1])
    return p[1]


def p_equiv(a, b, care: Callable[[Dict[str, bool]], bool] = None) -> Optional[Dict[str, bool]]:
    """None if equivalent on every assignment (satisfying ``care``); else a distinguishing
    assignment."""
    atoms = sorted(p_atoms(a) | p_atoms(b))
    for bits in itertools.product([False, True], repeat=len(atoms)):
        env = dict(zip(atoms, bits))
        if care is not None and not care(env):
            continue
        if p_eval(a, env) != p_eval(b, env):
            return env
    return None


def to_prop(e: ast.expr, classify: Callable[[ast.expr], Optional[object]]) -> Optional[tuple]:
    """Boolean skeleton of ``e``: and/or/not are structural, everything else must be classified by
    ``classify`` (returns an atom name, or a ready-made Prop tuple, or None => unclassifiable)."""
    if isinstance(e, ast.BoolOp):
        parts = [to_prop(v, classify) for v in e.values]
        if any(p is None for p in parts):
            return None
        return ("and" if isinstance(e.op, ast.And) else "or", parts)
    if isinstance(e, ast.UnaryOp) and isinstance(e.op, ast.Not):
        c = classify(e)
        if c is not None:
            return c if isinstance(c, tuple) else p_atom(c)
        inner = to_prop(e.operand, classify)
        return None if inner is None else p_not(inner)
    if isinstance(e, ast.BinOp) and isinstance(e.op, (ast.BitAnd, ast.BitOr)):
        a, b = to_prop(e.left, classify), to_prop(e.right, classify)
        if a is None or b is None:
            return None
        return ("and" if isinstance(e.op, ast.BitAnd) else "or", [a, b])
    if isinstance(e, ast.Constant) and isinstance(e.value, bool):
        return p_const(e.value)
    c = classify(e)
    if c is None:
        return None
    return c if isinstance(c, tuple) else p_atom(c)


def p_show(p) -> str:
    k = p[0]
    if k == "atom":
        return p[1]
    if k == "not":
        return f"not {p_show(p[1])}"
    if k in ("and", "or"):
        return "(" + f" {k} ".join(p_show(q) for q in p[1]) + ")"
    return str(p[1])


# ---------------------------------------------------------------------------------------------
# monomial normal form (closed-form measures): product of atoms with rational exponents
# ---------------------------------------------------------------------------------------------

Monomial = Dict[str, Fraction]


def monomial(e: ast.expr, leaf: Callable[[ast.expr], Optional[str]]) -> Optional[Monomial]:
    """Normalises products / quotients / sqrt / ** of atoms into {atom: exponent}.  ``leaf`` names
    an atomic sub-expression (or returns None to recurse / fail)."""
    name = leaf(e)
    if name is not None:
        return {name: Fraction(1)}
    if isinstance(e, ast.Constant) and isinstance(e.value, (int, float)) and e.value == 1:
        return {}
    if isinstance(e, ast.BinOp):
        if isinstance(e.op, (ast.Mult, ast.Div)):
            a, b = monomial(e.left, leaf), monomial(e.right, leaf)
            if a is None or b is None:
                return None
            out = dict(a)
            sign = 1 if isinstance(e.op, ast.Mult) else -1
            for k, v in b.items():
                out[k] = out.get(k, Fraction(0)) + sign * v
            return {k: v for k, v in out.items() if v != 0}
        if isinstance(e.op, ast.Pow) and isinstance(e.right, ast.Constant) and isinstance(e.right.value, (int, float)):
            a = monomial(e.left, leaf)
            if a is None:
                return None
            ex = Fraction(e.right.value).limit_denominator(64)
            return {k: v * ex for k, v in a.items()}
    if isinstance(e, ast.Call) and len(e.args) == 1 and not e.keywords:
        fname = e.func.id if isinstance(e.func, ast.Name) else (e.func.attr if isinstance(e.func, ast.Attribute) else "")
        if fname == "sqrt":
            a = monomial(e.args[0], leaf)
            if a is None:
                return None
            return {k: v / 2 for k, v in a.items()}
    return None


# ---------------------------------------------------------------------------------------------
# orientation-independent text of an expression
# ---------------------------------------------------------------------------------------------


class _CanonCmp(ast.NodeTransformer):
    def visit_Compare(self, n: ast.Compare):
        self.generic_visit(n)
        if len(n.ops) != 1:
            return n
        op = type(n.ops[0])
        left, right = n.left, n.comparators[0]
        if op in (ast.Gt, ast.GtE):
            return ast.copy_location(ast.Compare(left=right, ops=[_FLIP[op]()], comparators=[left]), n)
        if op in (ast.Eq, ast.NotEq) and unparse(left) > unparse(right):
            return ast.copy_location(ast.Compare(left=right, ops=[op()], comparators=[left]), n)
        return n


def canon_unparse(node: ast.AST) -> str:
    """``ast.unparse`` after normalising the orientation of every simple comparison (``a > b`` ->
    ``b < a``; operands of ==/!= sorted), without whitespace: two expressions that differ only by
    swapped comparison operands get the same text."""
    if node is None:
        return ""
    tree = _CanonCmp().visit(copy.deepcopy(node))
    ast.fix_missing_locations(tree)
    return unparse(tree).replace(" ", "")
