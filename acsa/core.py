"""Loader, symbol tables, MRO and name resolution for the AutoCarver package.

Everything is syntactic: the package is parsed with ``ast`` (never imported).  An *overlay*
``{relpath: source}`` replaces files in memory (used by the self-tests: mutants and benign
variants are analysed exactly like the real tree, without touching the disk).
"""
from __future__ import annotations

import ast
import os
from dataclasses import dataclass, field
from typing import Dict, Iterator, List, Optional, Tuple, Union

PKG = "AutoCarver"


class AnalysisError(Exception):
    """The analysis cannot decide (vanished anchor, unknown form): exit code 2, never a verdict."""


# --------------------------------------------------------------------------------------------
# data model
# --------------------------------------------------------------------------------------------


@dataclass
class FunctionInfo:
    name: str
    module: "ModuleInfo"
    node: ast.FunctionDef
    cls: Optional["ClassInfo"] = None

    @property
    def qualname(self) -> str:
        if self.cls is not None:
            return f"{self.cls.name}.{self.name}"
        return self.name

    @property
    def key(self) -> str:
        return f"{self.module.relpath}::{self.qualname}"

    @property
    def params(self) -> List[str]:
        a = self.node.args
        names = [x.arg for x in a.posonlyargs + a.args]
        names += [x.arg for x in a.kwonlyargs]
        return names

    def param_defaults(self) -> Dict[str, ast.expr]:
        a = self.node.args
        pos = a.posonlyargs + a.args
        out: Dict[str, ast.expr] = {}
        for arg, dflt in zip(pos[len(pos) - len(a.defaults):], a.defaults):
            out[arg.arg] = dflt
        for arg, dflt in zip(a.kwonlyargs, a.kw_defaults):
            if dflt is not None:
                out[arg.arg] = dflt
        return out

    def __hash__(self) -> int:
        return hash(self.key)

    def __eq__(self, other) -> bool:
        return isinstance(other, FunctionInfo) and self.key == other.key


@dataclass
class ClassInfo:
    name: str
    module: "ModuleInfo"
    node: ast.ClassDef
    methods: Dict[str, FunctionInfo] = field(default_factory=dict)
    aliases: Dict[str, str] = field(default_factory=dict)  # class-level ``a = b`` of methods
    base_exprs: List[ast.expr] = field(default_factory=list)

    def __hash__(self) -> int:
        return hash((self.module.relpath, self.name))

    def __eq__(self, other) -> bool:
        return (
            isinstance(other, ClassInfo)
            and self.name == other.name
            and self.module.relpath == other.module.relpath
        )


@dataclass
class External:
    """A name that resolves outside the package (numpy.isnan, pandas.DataFrame, ...)."""

    dotted: str

    @property
    def last(self) -> str:
        return self.dotted.rsplit(".", 1)[-1]


@dataclass
class ModuleInfo:
    dotted: str
    relpath: str
    source: str
    tree: ast.Module
    is_pkg: bool
    imports: Dict[str, Tuple[str, Optional[str]]] = field(default_factory=dict)
    classes: Dict[str, ClassInfo] = field(default_factory=dict)
    functions: Dict[str, FunctionInfo] = field(default_factory=dict)
    globals_assigned: Dict[str, ast.expr] = field(default_factory=dict)


Symbol = Union[ClassInfo, FunctionInfo, External, ModuleInfo, None]


# --------------------------------------------------------------------------------------------
# repo
# --------------------------------------------------------------------------------------------


class Repo:
    def __init__(self, root: str = None, overlay: Dict[str, str] = None, alpha: bool = True):
        self.root = root or os.environ.get("ACSA_REPO", "/repo")
        self.overlay = dict(overlay or {})
        self.modules: Dict[str, ModuleInfo] = {}
        self.by_relpath: Dict[str, ModuleInfo] = {}
        self._parents: Dict[int, Dict[int, ast.AST]] = {}
        self.alpha_renamed = 0
        self.equiv_stats: Dict[str, list] = {}
        if alpha:
            from .alpha import load_reference
            from .equiv import load_reference_sources

            self.alpha_ref = load_reference()
            self.ref_sources = load_reference_sources() if os.environ.get("ACSA_NO_EQUIV") != "1" else {}
        else:
            self.alpha_ref = {}
            self.ref_sources = {}
        self._load()
        self._mro_cache: Dict[ClassInfo, List[ClassInfo]] = {}

    # ---- loading -------------------------------------------------------------------------
    def _load(self) -> None:
        pkg_dir = os.path.join(self.root, PKG)
        if not os.path.isdir(pkg_dir):
            raise AnalysisError(f"package directory {pkg_dir} not found")
        relpaths = []
        for dirpath, dirnames, filenames in os.walk(pkg_dir):
            dirnames[:] = sorted(d for d in dirnames if d != "__pycache__")
            for fn in sorted(filenames):
                if fn.endswith(".py"):
                    relpaths.append(os.path.relpath(os.path.join(dirpath, fn), self.root))
        for rel in self.overlay:
            if rel not in relpaths:
                relpaths.append(rel)
        parsed = []
        for rel in sorted(relpaths):
            if rel in self.overlay:
                src = self.overlay[rel]
            else:
                with open(os.path.join(self.root, rel), encoding="utf-8") as fh:
                    src = fh.read()
            try:
                tree = ast.parse(src, filename=rel)
            except SyntaxError as exc:
                raise AnalysisError(f"{rel} does not parse: {exc}") from exc
            parsed.append((rel, src, tree))
        if self.ref_sources and any(self.ref_sources.get(rel) != src for rel, src, _ in parsed):
            # functions re-expressed in a provably equivalent way are analysed as their reference
            # version (acsa/equiv.py); never a source of violations
            from .equiv import substitute_all

            try:
                substitute_all({rel: t for rel, _, t in parsed}, {rel: s_ for rel, s_, _ in parsed}, self.ref_sources, self.equiv_stats)
            except Exception as exc:  # the normaliser must never break an analysis
                self.equiv_stats.setdefault("errors", []).append(repr(exc))
        for rel, src, tree in parsed:
            if self.alpha_ref:
                from .alpha import normalise_module

                self.alpha_renamed += normalise_module(rel, tree, self.alpha_ref)
            is_pkg = rel.endswith("__init__.py")
            dotted = rel[:-3].replace(os.sep, ".")
            if is_pkg:
                dotted = dotted[: -len(".__init__")]
            mod = ModuleInfo(dotted, rel, src, tree, is_pkg)
            self.modules[dotted] = mod
            self.by_relpath[rel] = mod
        for mod in self.modules.values():
            self._index(mod)

    def _index(self, mod: ModuleInfo) -> None:
        def handle(stmts):
            for st in stmts:
                if isinstance(st, ast.ImportFrom):
                    base = self._import_base(mod, st)
                    for alias in st.names:
                        mod.imports[alias.asname or alias.name] = (base, alias.name)
                elif isinstance(st, ast.Import):
                    for alias in st.names:
                        if alias.asname:
                            mod.imports[alias.asname] = (alias.name, None)
                        else:
                            top = alias.name.split(".")[0]
                            mod.imports[top] = (top, None)
                elif isinstance(st, ast.ClassDef):
                    ci = ClassInfo(st.name, mod, st, base_exprs=list(st.bases))
                    for sub in st.body:
                        if isinstance(sub, (ast.FunctionDef, ast.AsyncFunctionDef)):
                            ci.methods[sub.name] = FunctionInfo(sub.name, mod, sub, ci)
                        elif (
                            isinstance(sub, ast.Assign)
                            and len(sub.targets) == 1
                            and isinstance(sub.targets[0], ast.Name)
                            and isinstance(sub.value, ast.Name)
                        ):
                            ci.aliases[sub.targets[0].id] = sub.value.id
                    mod.classes[st.name] = ci
                elif isinstance(st, (ast.FunctionDef, ast.AsyncFunctionDef)):
                    mod.functions[st.name] = FunctionInfo(st.name, mod, st)
                elif isinstance(st, ast.Assign):
                    for tgt in st.targets:
                        if isinstance(tgt, ast.Name):
                            mod.globals_assigned[tgt.id] = st.value
                elif isinstance(st, ast.Try):
                    handle(st.body)
                    for h in st.handlers:
                        handle(h.body)
                    handle(st.orelse)
                    handle(st.finalbody)
                elif isinstance(st, ast.If):
                    handle(st.body)
                    handle(st.orelse)

        handle(mod.tree.body)

    def _import_base(self, mod: ModuleInfo, st: ast.ImportFrom) -> str:
        if st.level == 0:
            return st.module or ""
        parts = mod.dotted.split(".")
        if not mod.is_pkg:
            parts = parts[:-1]
        if st.level > 1:
            parts = parts[: len(parts) - (st.level - 1)]
        if st.module:
            parts = parts + st.module.split(".")
        return ".".join(parts)

    # ---- resolution ----------------------------------------------------------------------
    def resolve_in_module(self, dotted: str, name: str, _depth: int = 0) -> Symbol:
        """What does ``name`` mean at top level of module ``dotted``?"""
        if _depth > 12:
            return None
        mod = self.modules.get(dotted)
        if mod is None:
            return External(f"{dotted}.{name}")
        if name in mod.classes:
            return mod.classes[name]
        if name in mod.functions:
            return mod.functions[name]
        if name in mod.imports:
            base, orig = mod.imports[name]
            if orig is None:
                return self.modules.get(base) or External(base)
            sub = f"{base}.{orig}"
            if sub in self.modules:
                return self.modules[sub]
            if base in self.modules:
                return self.resolve_in_module(base, orig, _depth + 1)
            return External(f"{base}.{orig}")
        return None

    def resolve_name(self, mod: ModuleInfo, name: str) -> Symbol:
        return self.resolve_in_module(mod.dotted, name)

    def resolve_expr(self, mod: ModuleInfo, expr: ast.expr) -> Symbol:
        """Resolve ``Name`` or dotted ``a.b.c`` to a symbol (classes, functions, externals)."""
        if isinstance(expr, ast.Name):
            return self.resolve_name(mod, expr.id)
        if isinstance(expr, ast.Attribute):
            base = self.resolve_expr(mod, expr.value)
            if isinstance(base, ModuleInfo):
                return self.resolve_in_module(base.dotted, expr.attr)
            if isinstance(base, External):
                return External(f"{base.dotted}.{expr.attr}")
            if isinstance(base, ClassInfo):
                return self.lookup_method(base, expr.attr)
        return None

    # ---- classes -------------------------------------------------------------------------
    def all_classes(self) -> List[ClassInfo]:
        return [c for m in self.modules.values() for c in m.classes.values()]

    def all_functions(self) -> Iterator[FunctionInfo]:
        for m in self.modules.values():
            yield from m.functions.values()
            for c in m.classes.values():
                yield from c.methods.values()

    def find_class(self, name: str) -> ClassInfo:
        found = [c for c in self.all_classes() if c.name == name]
        if len(found) != 1:
            raise AnalysisError(f"class {name}: expected exactly one definition, found {len(found)}")
        return found[0]

    def has_class(self, name: str) -> bool:
        return any(c.name == name for c in self.all_classes())

    def bases(self, ci: ClassInfo) -> List[Union[ClassInfo, External]]:
        out = []
        for b in ci.base_exprs:
            sym = self.resolve_expr(ci.module, b)
            if isinstance(sym, (ClassInfo, External)):
                out.append(sym)
            else:
                out.append(External(ast.unparse(b)))
        return out

    def mro(self, ci: ClassInfo) -> List[ClassInfo]:
        """C3 linearisation restricted to package classes (external bases are opaque)."""
        if ci in self._mro_cache:
            return self._mro_cache[ci]

        def merge(seqs):
            res = []
            seqs = [list(s) for s in seqs if s]
            while seqs:
                for s in seqs:
                    cand = s[0]
                    if not any(cand in t[1:] for t in seqs):
                        break
                else:
                    raise AnalysisError(f"inconsistent MRO for {ci.name}")
                res.append(cand)
                seqs = [[x for x in s if x != cand] for s in seqs]
                seqs = [s for s in seqs if s]
            return res

        pbases = [b for b in self.bases(ci) if isinstance(b, ClassInfo)]
        lin = [ci] + merge([self.mro(b) for b in pbases] + [pbases])
        self._mro_cache[ci] = lin
        return lin

    def external_bases(self, ci: ClassInfo) -> List[str]:
        out = []
        for c in self.mro(ci):
            for b in self.bases(c):
                if isinstance(b, External):
                    out.append(b.dotted)
        return out

    def is_subclass(self, ci: ClassInfo, base_name: str) -> bool:
        return any(c.name == base_name for c in self.mro(ci))

    def subclasses(self, base_name: str) -> List[ClassInfo]:
        return [c for c in self.all_classes() if self.is_subclass(c, base_name)]

    @staticmethod
    def _mangle(cls_name: str, attr: str) -> str:
        return attr

    def lookup_method(
        self, ci: ClassInfo, name: str, after: ClassInfo = None
    ) -> Optional[FunctionInfo]:
        """Method resolution through the MRO (``after``: start after that class, for super())."""
        mro = self.mro(ci)
        if after is not None:
            if after not in mro:
                return None
            mro = mro[mro.index(after) + 1:]
        for c in mro:
            if name in c.methods:
                return c.methods[name]
            if name in c.aliases and c.aliases[name] in c.methods:
                return c.methods[c.aliases[name]]
        return None

    def lookup_private(self, defining: ClassInfo, name: str) -> Optional[FunctionInfo]:
        """``self.__x`` inside class ``defining`` is name-mangled: it only sees ``defining``'s own
        ``__x`` (method or class-level alias)."""
        if name in defining.methods:
            return defining.methods[name]
        if name in defining.aliases and defining.aliases[name] in defining.methods:
            return defining.methods[defining.aliases[name]]
        return None

    def find_function(self, spec: str) -> FunctionInfo:
        """``Class.method`` or ``function`` or ``relpath::name`` (exactly one must exist)."""
        if "::" in spec:
            rel, q = spec.split("::", 1)
            mod = self.by_relpath.get(rel)
            if mod is None:
                raise AnalysisError(f"anchor module {rel} not found")
            mods = [mod]
        else:
            q = spec
            mods = list(self.modules.values())
        found = []
        for mod in mods:
            if "." in q:
                cn, mn = q.split(".", 1)
                if cn in mod.classes and mn in mod.classes[cn].methods:
                    found.append(mod.classes[cn].methods[mn])
            elif q in mod.functions:
                found.append(mod.functions[q])
        if len(found) != 1:
            raise AnalysisError(f"anchor {spec}: expected exactly one definition, found {len(found)}")
        return found[0]

    def has_function(self, spec: str) -> bool:
        try:
            self.find_function(spec)
            return True
        except AnalysisError:
            return False

    # ---- misc ----------------------------------------------------------------------------
    def parents(self, fn_node: ast.AST) -> Dict[int, ast.AST]:
        key = id(fn_node)
        if key not in self._parents:
            par: Dict[int, ast.AST] = {}
            for node in ast.walk(fn_node):
                for ch in ast.iter_child_nodes(node):
                    par[id(ch)] = node
            self._parents[key] = par
        return self._parents[key]

    def loc(self, fi_or_mod, node: ast.AST = None) -> str:
        mod = fi_or_mod.module if isinstance(fi_or_mod, (FunctionInfo, ClassInfo)) else fi_or_mod
        if node is None and isinstance(fi_or_mod, (FunctionInfo, ClassInfo)):
            node = fi_or_mod.node
        line = getattr(node, "lineno", 0)
        return f"{mod.relpath}:{line}"


# --------------------------------------------------------------------------------------------
# small AST helpers shared by the rules
# --------------------------------------------------------------------------------------------


def unparse(node: ast.AST) -> str:
    return ast.unparse(node) if node is not None else ""


def is_self_attr(node: ast.AST, attr: str = None) -> bool:
    return (
        isinstance(node, ast.Attribute)
        and isinstance(node.value, ast.Name)
        and node.value.id == "self"
        and (attr is None or node.attr == attr)
    )


def call_name(call: ast.Call) -> str:
    """Last identifier of the callee expression (``a.b.c(...)`` -> ``c``)."""
    f = call.func
    if isinstance(f, ast.Name):
        return f.id
    if isinstance(f, ast.Attribute):
        return f.attr
    return ""


def kwarg(call: ast.Call, name: str) -> Optional[ast.expr]:
    for kw in call.keywords:
        if kw.arg == name:
            return kw.value
    return None


def const_value(node: ast.AST, default=None):
    if isinstance(node, ast.Constant):
        return node.value
    if isinstance(node, ast.UnaryOp) and isinstance(node.op, ast.USub):
        v = const_value(node.operand)
        if isinstance(v, (int, float)):
            return -v
    return default


def walk_no_nested(node: ast.AST) -> Iterator[ast.AST]:
    """ast.walk that does not descend into nested function/class definitions or lambdas."""
    todo = list(ast.iter_child_nodes(node))
    while todo:
        n = todo.pop()
        yield n
        if isinstance(n, (ast.FunctionDef, ast.AsyncFunctionDef, ast.ClassDef, ast.Lambda)):
            continue
        todo.extend(ast.iter_child_nodes(n))


def calls_in(node: ast.AST, name: str = None) -> List[ast.Call]:
    out = [
        n
        for n in ast.walk(node)
        if isinstance(n, ast.Call) and (name is None or call_name(n) == name)
    ]
    out.sort(key=lambda n: (n.lineno, n.col_offset))
    return out


def stmts_of(fn: ast.FunctionDef) -> List[ast.stmt]:
    """Body without the docstring."""
    body = list(fn.body)
    if (
        body
        and isinstance(body[0], ast.Expr)
        and isinstance(body[0].value, ast.Constant)
        and isinstance(body[0].value.value, str)
    ):
        body = body[1:]
    return body


def names_in(node: ast.AST) -> set:
    return {n.id for n in ast.walk(node) if isinstance(n, ast.Name)}
