"""Behaviour-preserving variant generator: alpha-renaming of one local variable at a time, and a
formatting-only variant (the module re-emitted by ``ast.unparse``).  Every rule must stay silent on
all of them; used by the thorough tier (a seeded sample per property) and as a development tool:

    python3 -m acsa.selftest.renamefuzz [--prop C05] [--max N]
"""
from __future__ import annotations

import ast
import json
import os
import random
import sys
from typing import Dict, List, Tuple

from ..core import Repo, walk_no_nested

KEYWORDS_SKIP = {"self", "cls", "_", "__"}


def _locals_of(fn: ast.FunctionDef) -> List[str]:
    a = fn.args
    params = {x.arg for x in a.posonlyargs + a.args + a.kwonlyargs}
    if a.vararg:
        params.add(a.vararg.arg)
    if a.kwarg:
        params.add(a.kwarg.arg)
    declared = set()
    for n in ast.walk(fn):
        if isinstance(n, (ast.Global, ast.Nonlocal)):
            declared |= set(n.names)
    out = []
    for n in ast.walk(fn):
        if isinstance(n, ast.Name) and isinstance(n.ctx, ast.Store):
            if n.id not in params and n.id not in declared and n.id not in KEYWORDS_SKIP and n.id not in out:
                out.append(n.id)
    # nested function definitions shadowing the name make renaming unsafe: skip those names
    nested_params = set()
    for n in ast.walk(fn):
        if isinstance(n, (ast.FunctionDef, ast.Lambda)) and n is not fn:
            aa = n.args
            nested_params |= {x.arg for x in aa.posonlyargs + aa.args + aa.kwonlyargs}
    return [x for x in out if x not in nested_params]


class _Ren(ast.NodeTransformer):
    def __init__(self, old: str, new: str):
        self.old, self.new = old, new

    def visit_Name(self, n: ast.Name):
        if n.id == self.old:
            return ast.copy_location(ast.Name(id=self.new, ctx=n.ctx), n)
        return n


def variants(repo: Repo, relpaths: List[str]) -> List[Tuple[str, str, str]]:
    """(name, relpath, new source) for the formatting-only variant and every single-local rename."""
    out = []
    for rel in relpaths:
        mod = repo.by_relpath.get(rel)
        if mod is None:
            continue
        out.append((f"format-only {rel}", rel, ast.unparse(ast.parse(mod.source))))
        tree = ast.parse(mod.source)
        fns = [n for n in ast.walk(tree) if isinstance(n, (ast.FunctionDef, ast.AsyncFunctionDef))]
        for fi, fn in enumerate(fns):
            for name in _locals_of(fn):
                all_names = {n.id for n in ast.walk(fn) if isinstance(n, ast.Name)} | {a.arg for a in ast.walk(fn) if isinstance(a, ast.arg)}
                new = f"{name}_rn"
                if new in all_names:
                    continue
                tree2 = ast.parse(mod.source)
                fn2 = [n for n in ast.walk(tree2) if isinstance(n, (ast.FunctionDef, ast.AsyncFunctionDef))][fi]
                _Ren(name, new).visit(fn2)
                # keyword arguments named like the local are not Name nodes: untouched (correct)
                out.append((f"rename {rel}::{fn.name}::{name}", rel, ast.unparse(tree2)))
    return out


_FLIP = {ast.Lt: ast.Gt, ast.Gt: ast.Lt, ast.LtE: ast.GtE, ast.GtE: ast.LtE, ast.Eq: ast.Eq, ast.NotEq: ast.NotEq}


def structural_variants(repo: Repo, relpaths: List[str]) -> List[Tuple[str, str, str]]:
    """More behaviour-preserving rewrites, one site per variant: operands of a comparison swapped
    (``a < b`` -> ``b > a``), and ``if c: A else: B`` turned into ``if not c: B else: A``."""
    out = []
    for rel in relpaths:
        mod = repo.by_relpath.get(rel)
        if mod is None:
            continue
        base = ast.parse(mod.source)
        cmps = [n for n in ast.walk(base) if isinstance(n, ast.Compare) and len(n.ops) == 1 and type(n.ops[0]) in _FLIP]
        for i in range(len(cmps)):
            tree = ast.parse(mod.source)
            c = [n for n in ast.walk(tree) if isinstance(n, ast.Compare) and len(n.ops) == 1 and type(n.ops[0]) in _FLIP][i]
            c.left, c.comparators = c.comparators[0], [c.left]
            c.ops = [_FLIP[type(c.ops[0])]()]
            out.append((f"flip-compare {rel}:{c.lineno}:{c.col_offset}", rel, ast.unparse(tree)))
        ifs = [n for n in ast.walk(base) if isinstance(n, ast.If) and n.orelse and not (len(n.orelse) == 1 and isinstance(n.orelse[0], ast.If))]
        for i in range(len(ifs)):
            tree = ast.parse(mod.source)
            n = [x for x in ast.walk(tree) if isinstance(x, ast.If) and x.orelse and not (len(x.orelse) == 1 and isinstance(x.orelse[0], ast.If))][i]
            n.test = ast.UnaryOp(op=ast.Not(), operand=n.test)
            n.body, n.orelse = n.orelse, n.body
            ast.fix_missing_locations(tree)
            out.append((f"invert-if {rel}:{n.lineno}", rel, ast.unparse(tree)))
    return out


def _job(args):
    prop, name, rel, src, root = args
    from ..__main__ import run_rules
    from ..report import load_known

    try:
        compile(src, rel, "exec")
    except SyntaxError as exc:
        return (prop, name, "corpus-error", str(exc))
    res = run_rules(prop, Repo(root, overlay={rel: src}))
    known = {(k.rule, k.construct) for k in load_known() if k.prop == prop}
    viol = [o for o in res.violations if (o.rule, o.construct) not in known]
    if viol:
        return (prop, name, "false-alarm", f"{viol[0].rule} @ {viol[0].construct.split('::', 1)[-1][:120]}")
    if res.error:
        return (prop, name, "undecided", res.error.splitlines()[0][:200])
    return (prop, name, "silent", "")


def files_of(prop: str) -> List[str]:
    with open(os.path.join(os.path.dirname(os.path.dirname(os.path.dirname(os.path.abspath(__file__)))), "properties.jsonl"), encoding="utf-8") as fh:
        for line in fh:
            p = json.loads(line)
            if p["id"] == prop:
                return list(p["anchors"]["files"])
    return []


def run(props: List[str], max_per_prop: int = 0, seed: int = 0, procs: int = 16, structural: bool = True):
    repo = Repo()
    jobs = []
    for prop in props:
        vs = variants(repo, files_of(prop))
        if structural:
            vs = vs + structural_variants(repo, files_of(prop))
        if max_per_prop and len(vs) > max_per_prop:
            rnd = random.Random(f"{seed}-{prop}")
            fmt = [v for v in vs if v[0].startswith("format-only")]
            rest = [v for v in vs if not v[0].startswith("format-only")]
            rnd.shuffle(rest)
            vs = fmt + rest[: max(0, max_per_prop - len(fmt))]
        jobs += [(prop, n, rel, src, repo.root) for n, rel, src in vs]
    if procs > 1 and len(jobs) > 4:
        import multiprocessing as mp

        with mp.get_context("fork").Pool(procs) as pool:
            results = pool.map(_job, jobs, chunksize=4)
    else:
        results = [_job(j) for j in jobs]
    return results


def main(argv=None):
    import argparse

    from .. import rules as rules_pkg

    ap = argparse.ArgumentParser()
    ap.add_argument("--prop", action="append")
    ap.add_argument("--max", type=int, default=0)
    ns = ap.parse_args(argv)
    props = ns.prop or rules_pkg.all_props()
    results = run(props, ns.max)
    bad = [r for r in results if r[2] != "silent"]
    by = {}
    for r in results:
        by.setdefault(r[0], [0, 0])
        by[r[0]][0] += 1
        by[r[0]][1] += r[2] == "silent"
    for p in sorted(by):
        print(f"{p}: {by[p][1]}/{by[p][0]} silent")
    for r in bad:
        print(f"  {r[2]:12s} {r[0]} {r[1]} :: {r[3]}")
    return 1 if bad else 0


if __name__ == "__main__":
    sys.exit(main())
