"""Layer fixtures: tiny programs with known answers for the CFG, the effect engine and the
expression analyses (run by ``python3 -m acsa selfcheck``)."""
from __future__ import annotations

import ast
from typing import List


def _cfg() -> List[str]:
    from ..cfg import CFG

    probs = []
    src = '''
def f(a):
    g()
    if a:
        x = 1
        return x
    for i in a:
        if i:
            break
        h()
    k()
'''
    fn = ast.parse(src).body[0]
    cfg = CFG(fn)
    calls = {n.func.id: n for n in ast.walk(fn) if isinstance(n, ast.Call)}
    if not cfg.before(calls["g"], calls["k"]):
        probs.append("cfg: g() must dominate k()")
    if cfg.before(calls["h"], calls["k"]):
        probs.append("cfg: h() must not dominate k() (break / empty loop)")
    if not cfg.postdominates(cfg.node_of(calls["k"]), cfg.node_of(calls["h"])):
        probs.append("cfg: k() must post-dominate h()")
    if cfg.postdominates(cfg.node_of(calls["k"]), cfg.node_of(calls["g"])):
        probs.append("cfg: k() must not post-dominate g() (early return)")
    return probs


_MINI = {
    "AutoCarver/__init__.py": "",
    "AutoCarver/m.py": '''
class Base:
    def __init__(self, features, copy=False, orders=None):
        self.features = list(features)
        self.copy = copy
        self.orders = orders
        self.is_fitted = False

    def _check(self):
        assert not self.is_fitted

    def _prepare(self, X):
        x_copy = X
        if self.copy:
            x_copy = X.copy()
        return x_copy

    def fit(self, X):
        self._check()
        self.cache = {}
        return self

    def transform(self, X):
        x = self._prepare(X)
        x["a"] = 1
        return x


class Child(Base):
    def fit(self, X):
        self.features.append("late")
        super().fit(X)
        return self

    def transform(self, X):
        self.orders.update({"k": 1})
        return super().transform(X)


def helper(d, k):
    d.pop(k)


def build(shared):
    o = Base(["f"], copy=True, orders=shared)
    helper(o.orders, "x")
    return o
''',
}


def _effects() -> List[str]:
    import os
    import tempfile

    from ..core import Repo
    from ..effects import Effects

    probs = []
    with tempfile.TemporaryDirectory() as d:
        os.makedirs(os.path.join(d, "AutoCarver"))
        for rel, src in _MINI.items():
            with open(os.path.join(d, rel), "w") as fh:
                fh.write(src)
        repo = Repo(d, alpha=False)
        eng = Effects(repo)
        base, child = repo.find_class("Base"), repo.find_class("Child")
        _, s = eng.method_summary(base, "transform", True)
        if any(e.path[0] == "p:X" for e in s.events):
            probs.append("effects: Base.transform[copy=True] must not mutate X")
        _, s = eng.method_summary(base, "transform", False)
        if not any(e.path == ("p:X", None) and e.kind == "mut" for e in s.events):
            probs.append("effects: Base.transform[copy=False] must mutate X")
        _, s = eng.method_summary(base, "fit", None)
        if not s.ends_guarded or any(e.path[0] == "self" and not e.guarded for e in s.events):
            probs.append("effects: Base.fit writes self.cache after the guard")
        _, s = eng.method_summary(child, "fit", None)
        if not any(e.path == ("self", "features") and not e.guarded for e in s.events):
            probs.append("effects: Child.fit mutates self.features before the guard")
        _, s = eng.method_summary(child, "transform", True)
        if not any(e.path == ("self", "orders") for e in s.events):
            probs.append("effects: Child.transform mutates self.orders")
        s = eng.summary(repo.find_function("build"))
        if not any(e.path == ("p:shared", None) and e.kind == "mut" for e in s.events):
            probs.append("effects: build() mutates its argument through the attribute of the object it built")
    return probs


def _exprs() -> List[str]:
    from ..exprs import canon_unparse, cmp_canon, p_and, p_atom, p_equiv, p_not, p_or

    probs = []
    e = lambda t: ast.parse(t, mode="eval").body  # noqa: E731
    if cmp_canon(e("a > b")) != cmp_canon(e("b < a")) or cmp_canon(e("not a < b")) != cmp_canon(e("b <= a")):
        probs.append("exprs: comparison normaliser")
    if canon_unparse(e("f(x >= 1)")) != canon_unparse(e("f(1 <= x)")):
        probs.append("exprs: canon_unparse")
    a, b = p_atom("A"), p_atom("B")
    if p_equiv(p_not(p_and(a, b)), p_or(p_not(a), p_not(b))) is not None or p_equiv(p_and(a, b), p_or(a, b)) is None:
        probs.append("exprs: truth tables")
    return probs


def _flow() -> List[str]:
    from ..flow import possibly_unbound

    probs = []
    ok = ast.parse("def f(a):\n    if any(a):\n        x = 1\n    y = 2\n    if any(a):\n        return x\n    return y\n").body[0]
    bad = ast.parse("def f(a):\n    if a is None:\n        x = 1\n    return x\n").body[0]
    if possibly_unbound(ok):
        probs.append("flow: same-test correlation")
    if not possibly_unbound(bad):
        probs.append("flow: unbound local not reported")
    return probs


def _resolution() -> List[str]:
    """Appendix B of DESIGN.md: the engine's method resolution on the reference tree."""
    from ..core import AnalysisError, Repo
    from . import is_pristine

    try:
        repo = Repo()
    except AnalysisError:
        return []
    if not is_pristine(repo):
        return []  # the table describes the reference tree only
    want = {
        ("Discretizer", "transform"): "BaseDiscretizer", ("Discretizer", "_remove_feature"): "Discretizer",
        ("QualitativeDiscretizer", "_prepare_data"): "QualitativeDiscretizer", ("ContinuousDiscretizer", "_prepare_data"): "ContinuousDiscretizer", ("OrdinalDiscretizer", "_check_new_values"): "BaseDiscretizer",
        ("BinaryCarver", "_remove_feature"): "BaseCarver", ("BinaryCarver", "to_json"): "BaseCarver", ("MulticlassCarver", "fit"): "MulticlassCarver",
        ("ContinuousCarver", "_grouper"): "ContinuousCarver", ("ChainedDiscretizer", "_remove_feature"): "BaseDiscretizer",
        ("StringDiscretizer", "summary"): "BaseDiscretizer", ("BinaryCarver", "__prepare_data"): "BaseDiscretizer",
    }
    probs = []
    for (cls, meth), owner in want.items():
        fi = repo.lookup_method(repo.find_class(cls), meth)
        got = fi.cls.name if fi is not None else None
        if got != owner:
            probs.append(f"resolution: {cls}.{meth} resolves to {got}, expected {owner}")
    if repo.lookup_method(repo.find_class("BaseCarver"), "_grouper") is not None:
        probs.append("resolution: BaseCarver must not define _grouper")
    return probs


def run_all() -> List[str]:
    probs = []
    for f in (_cfg, _effects, _exprs, _flow, _resolution):
        try:
            probs += f()
        except Exception as exc:  # pragma: no cover
            probs.append(f"{f.__name__}: crashed {exc!r}")
    return probs
