"""Layer fixtures: tiny programs with known answers for the CFG, the effect engine and the
expression analyses (run by ``python3 -m acsa selfcheck``)."""
from __future__ import annotations

import ast
from typing import List


def _cfg() -> List[str]:
    from ..cfg import CFG

    probs = []
    src = '''
def f(a):
    g()
    if a:
        x = 1
        return x
    for i in a:
        if i:
            break
        h()
    k()
'''
    fn = ast.parse(src).body[0]
    cfg = CFG(fn)
    calls = {n.func.id: n for n in ast.walk(fn) if isinstance(n, ast.Call)}
    if not cfg.before(calls["g"], calls["k"]):
        probs.append("cfg: g() must dominate k()")
    if cfg.before(calls["h"], calls["k"]):
        probs.append("cfg: h() must not dominate k() (break / empty loop)")
    if not cfg.postdominates(cfg.node_of(calls["k"]), cfg.node_of(calls["h"])):
        probs.append("cfg: k() must post-dominate h()")
    if cfg.postdominates(cfg.node_of(calls["k"]), cfg.node_of(calls["g"])):
        probs.append("cfg: k() must not post-dominate g() (early return)")
    return probs


def run_all() -> List[str]:
    probs = []
    for f in (_cfg,):
        try:
            probs += f()
        except Exception as exc:  # pragma: no cover
            probs.append(f"{f.__name__}: crashed {exc!r}")
    return probs
