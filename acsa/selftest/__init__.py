"""Self-test of the checker: mutants (must be reported, naming the broken instance) and benign
variants (must stay silent), applied *in memory* through the loader's overlay; analysed, never run.

A variant is a list of text edits ``(relpath, old, new)``; ``old`` must occur exactly once in the
current source, otherwise the variant is *not applicable* to this tree (skipped, counted).  Every
applicable variant is ``compile()``d to prove that it still builds.  Failures only make the check
fail (exit 2, analysis error -- never a VIOLATION) when /repo's package sources are byte-identical
to the reference tree the corpus was validated on (``reference_digest.txt``); on any other tree the
result is informational, so that an unrelated edit of the repository can never raise an alarm
through the self-test.
"""
from __future__ import annotations

import hashlib
import os
import random
from dataclasses import dataclass, field
from typing import List, Optional, Tuple

from ..core import AnalysisError, Repo

HERE = os.path.dirname(os.path.abspath(__file__))
REF = os.path.join(HERE, "reference_digest.txt")


@dataclass
class Variant:
    name: str
    edits: List[Tuple[str, str, str]]
    rule: Optional[str] = None  # mutants: a violation of this rule must be reported
    within: Optional[str] = None  # ... whose construct contains this text
    quick: bool = False  # also used as a positive control in the quick tier
    note: str = ""


def M(name, edits, rule, within=None, quick=False, note=""):
    return Variant(name, edits, rule, within, quick, note)


def B(name, edits, note=""):
    return Variant(name, edits, None, None, False, note)


def patch_edits(patch_text: str):
    """Unified diff -> list of (relpath, old block, new block), one per hunk (located by content, so
    line offsets do not matter).  None if the patch creates / deletes files."""
    edits = []
    rel = None
    old: List[str] = []
    new: List[str] = []

    hint = [0]

    def flush():
        if rel is not None and (old or new) and old != new:
            edits.append((rel, "".join(old), "".join(new), hint[0]))

    for line in patch_text.splitlines(keepends=True):
        if line.startswith("diff --git") or line.startswith("index "):
            continue
        if line.startswith("--- "):
            flush()
            old, new = [], []
            if "/dev/null" in line:
                return None
            continue
        if line.startswith("+++ "):
            if "/dev/null" in line:
                return None
            rel = line[4:].strip()
            rel = rel[2:] if rel.startswith("b/") else rel
            continue
        if line.startswith("@@"):
            flush()
            old, new = [], []
            try:
                hint[0] = int(line.split()[1].lstrip("-").split(",")[0])
            except (IndexError, ValueError):
                hint[0] = 0
            continue
        if rel is None:
            continue
        if line.startswith("\\"):
            continue
        tag, body = line[:1], line[1:]
        if tag == " ":
            old.append(body)
            new.append(body)
        elif tag == "-":
            old.append(body)
        elif tag == "+":
            new.append(body)
        elif line.strip() == "":
            old.append("\n")
            new.append("\n")
    flush()
    return edits


def seeded_variants(prop: str) -> List[Variant]:
    """The independently seeded changes kept under /verif/seeded for this property (realistic
    breakages written by sub-agents that saw nothing of /verif): each must make this property's own
    check report a violation."""
    import glob
    import json

    root = os.path.join(os.path.dirname(os.path.dirname(HERE)), "seeded")
    out = []
    for d in sorted(glob.glob(os.path.join(root, "*"))):
        mp = os.path.join(d, "meta.json")
        pp = os.path.join(d, "patch.diff")
        if not (os.path.exists(mp) and os.path.exists(pp)):
            continue
        with open(mp, encoding="utf-8") as fh:
            meta = json.load(fh)
        if meta.get("property") != prop or str(meta.get("status", "")).startswith("superseded"):
            continue
        with open(pp, encoding="utf-8") as fh:
            edits = patch_edits(fh.read())
        if not edits:
            continue
        out.append(Variant(f"seeded: {os.path.basename(d)}", edits, "*", None, False))
    return out


def refactoring_variants(prop: str) -> List[Variant]:
    """Behaviour-preserving changes written by independent sub-agents (kept under /verif/benign; each
    passed the pinned suite and an equivalence script on its own): every check must stay silent on
    them.  A change is replayed for the property it was written for and for every property that shares
    a touched file.  The changes on which some rule still raises a false alarm are listed, with the
    rule, in benign/RESIDUAL_FALSE_ALARMS.txt and are not replayed for that property."""
    import glob
    import json

    root = os.path.join(os.path.dirname(os.path.dirname(HERE)), "benign")
    residual = set()
    try:
        with open(os.path.join(root, "RESIDUAL_FALSE_ALARMS.txt"), encoding="utf-8") as fh:
            for line in fh:
                line = line.split("#", 1)[0].split()
                if len(line) >= 2:
                    residual.add((line[0], line[1]))
    except OSError:
        pass
    anchors = set()
    try:
        with open(os.path.join(os.path.dirname(os.path.dirname(HERE)), "properties.jsonl"), encoding="utf-8") as fh:
            for line in fh:
                p = json.loads(line)
                if p["id"] == prop:
                    anchors = set(p["anchors"]["files"])
    except OSError:
        pass
    out = []
    for d in sorted(glob.glob(os.path.join(root, "C??-*"))):
        name = os.path.basename(d)
        pp = os.path.join(d, "patch.diff")
        if not os.path.exists(pp) or (name, prop) in residual:
            continue
        with open(pp, encoding="utf-8") as fh:
            edits = patch_edits(fh.read())
        if not edits:
            continue
        if not (name.startswith(prop + "-") or {e[0] for e in edits} & anchors):
            continue
        out.append(Variant(f"refactoring: {name}", edits, None, None, False))
    return out


def tree_digest(repo: Repo) -> str:
    h = hashlib.sha256()
    for rel in sorted(repo.by_relpath):
        h.update(rel.encode())
        h.update(b"\0")
        h.update(repo.by_relpath[rel].source.encode())
        h.update(b"\0")
    return h.hexdigest()


def is_pristine(repo: Repo) -> bool:
    try:
        with open(REF, encoding="utf-8") as fh:
            return fh.read().strip() == tree_digest(repo)
    except OSError:
        return False


def build_overlay(repo: Repo, v: Variant):
    overlay = {}
    for edit in v.edits:
        rel, old, new = edit[:3]
        mod = repo.by_relpath.get(rel)
        if mod is None:
            return None
        src = overlay.get(rel, mod.source)
        if src.count(old) > 1 and len(edit) > 3 and edit[3]:
            # a hunk of a unified diff whose text occurs several times: the occurrence closest to
            # the line the diff names
            starts, pos = [], src.find(old)
            while pos != -1:
                starts.append(pos)
                pos = src.find(old, pos + 1)
            best = min(starts, key=lambda st: abs(src.count("\n", 0, st) + 1 - edit[3]))
            overlay[rel] = src[:best] + new + src[best + len(old):]
            continue
        if src.count(old) != 1:
            return None
        overlay[rel] = src.replace(old, new)
    for rel, src in overlay.items():
        compile(src, rel, "exec")  # a variant that does not build is a corpus bug -> raises
    return overlay


def _run_one(args):
    prop, v, root, base_overlay = args
    from ..__main__ import run_rules

    repo = Repo(root)
    try:
        overlay = build_overlay(repo, v)
    except SyntaxError as exc:
        return (v.name, "corpus-error", f"variant does not compile: {exc}")
    if overlay is None:
        return (v.name, "skipped", "")
    res = run_rules(prop, Repo(root, overlay=overlay))
    # violations listed as known findings are not news: neither a detection nor a false alarm
    from ..report import load_known

    known = {(k.rule, k.construct) for k in load_known() if k.prop == prop}
    res.obligations = [o for o in res.obligations if not (o.ok is False and (o.rule, o.construct) in known)]
    if v.rule is not None:  # mutant
        if res.error and not res.violations:
            return (v.name, "missed", f"analysis error instead of a violation: {res.error[:200]}")
        hits = [o for o in res.violations if v.rule in ("*", o.rule) and (v.within is None or v.within in o.construct)]
        if hits:
            return (v.name, "detected", f"{hits[0].rule} @ {hits[0].construct}")
        other = "; ".join(f"{o.rule} @ {o.construct}" for o in res.violations[:3])
        return (v.name, "missed", f"expected {v.rule}{' within ' + v.within if v.within else ''}; got: {other or 'nothing'}")
    if res.error:
        return (v.name, "noisy", f"analysis error on a benign variant: {res.error[:200]}")
    if res.violations:
        o = res.violations[0]
        return (v.name, "noisy", f"false alarm {o.rule} @ {o.construct}")
    return (v.name, "silent", "")


def run_selftest(prop: str, tier: str, seed: int, repo: Repo) -> dict:
    from .. import rules as rules_pkg

    mod = rules_pkg.get(prop)
    mutants: List[Variant] = list(getattr(mod, "MUTANTS", []))
    benign: List[Variant] = list(getattr(mod, "BENIGN", []))
    if tier == "quick":
        mutants = [m for m in mutants if m.quick]
        benign = []
    else:
        mutants += seeded_variants(prop)
        benign += refactoring_variants(prop)
    rnd = random.Random(seed)
    rnd.shuffle(mutants)
    rnd.shuffle(benign)
    jobs = [(prop, v, repo.root, None) for v in mutants + benign]
    results = []
    if len(jobs) > 3 and tier == "thorough":
        import multiprocessing as mp

        with mp.get_context("fork").Pool(min(16, len(jobs))) as pool:
            results = pool.map(_run_one, jobs)
    else:
        results = [_run_one(j) for j in jobs]
    # thorough: a seeded sample of automatically generated behaviour-preserving variants
    # (formatting-only re-emission of each anchored module + alpha-renaming of single locals)
    auto = []
    if tier == "thorough":
        from . import renamefuzz

        n_auto = int(os.environ.get("ACSA_AUTO_VARIANTS", "24"))
        for r in renamefuzz.run([prop], max_per_prop=n_auto, seed=seed):
            auto.append((f"auto: {r[1]}", "silent" if r[2] == "silent" else "noisy", f"{r[2]}: {r[3]}" if r[2] != "silent" else ""))
        results = list(results) + auto
    names_m = {m.name for m in mutants}
    out = {
        "variants_analysed": sum(1 for r in results if r[1] not in ("skipped", "corpus-error")),
        "mutants_applicable": sum(1 for r in results if r[0] in names_m and r[1] in ("detected", "missed")),
        "mutants_detected": sum(1 for r in results if r[0] in names_m and r[1] == "detected"),
        "benign_applicable": sum(1 for r in results if r[0] not in names_m and r[1] in ("silent", "noisy")),
        "benign_silent": sum(1 for r in results if r[0] not in names_m and r[1] == "silent"),
        "skipped": sum(1 for r in results if r[1] == "skipped"),
        "seeded_changes_detected": sum(1 for r in results if r[0].startswith("seeded: ") and r[1] == "detected"),
        "seeded_changes_applicable": sum(1 for r in results if r[0].startswith("seeded: ") and r[1] in ("detected", "missed")),
        "refactorings_silent": sum(1 for r in results if r[0].startswith("refactoring: ") and r[1] == "silent"),
        "refactorings_applicable": sum(1 for r in results if r[0].startswith("refactoring: ") and r[1] in ("silent", "noisy")),
        "pristine_tree": is_pristine(repo),
        "problems": [f"{r[0]}: {r[1]}: {r[2]}" for r in results if r[1] in ("missed", "noisy", "corpus-error")],
        "detected": {r[0]: r[2] for r in results if r[1] == "detected"},
    }
    if out["pristine_tree"]:
        # on the reference tree every variant must apply
        out["problems"] += [f"{r[0]}: not applicable on the reference tree" for r in results if r[1] == "skipped"]
    return out
