#!/bin/bash
# verify_seed.sh <seed dir> : independent confirmation of a seeded defect in a scratch worktree
#   (1) demo passes on the clean tree  (2) demo fails with the patch  (3) the pinned suite passes with the patch
set -u
SEED="$1"; NAME=$(echo "$SEED" | tr '/' '_')
WT=/tmp/verify_wt/$NAME
mkdir -p /tmp/verify_wt; rm -rf "$WT"
git -C /repo worktree add -q --detach "$WT" HEAD || exit 2
cd "$WT"; export AUTOCARVER_ROOT="$WT"
PYTHONPATH=$WT timeout 300 /venv/bin/python "$SEED/demo.py" > "$SEED/verify_clean.log" 2>&1; RC_CLEAN=$?
git apply "$SEED/patch.diff" || { echo "patch does not apply"; git -C /repo worktree remove --force "$WT"; exit 2; }
PYTHONPATH=$WT timeout 300 /venv/bin/python "$SEED/demo.py" > "$SEED/verify_patched.log" 2>&1; RC_PATCHED=$?
PYTHONPATH=$WT timeout 3000 /venv/bin/python -m pytest -q -p no:cacheprovider -n ${NJ:-8} > "$SEED/verify_suite.log" 2>&1; RC_SUITE=$?
SUMMARY=$(tail -1 "$SEED/verify_suite.log")
cd /; git -C /repo worktree remove --force "$WT"
echo "{\"seed\": \"$SEED\", \"demo_clean_rc\": $RC_CLEAN, \"demo_patched_rc\": $RC_PATCHED, \"suite_rc\": $RC_SUITE, \"suite_summary\": \"$SUMMARY\"}" | tee "$SEED/verify.json"
