#!/usr/bin/env python3
"""For a patch: which functions changed, which are proved equivalent to the reference, and for the
others a unified diff of the two normal forms.   python3 tools/equiv_debug.py <patch.diff> [-v]"""
import ast
import difflib
import sys
import os

VERIF = os.path.dirname(os.path.dirname(os.path.abspath(__file__)))
sys.path.insert(0, VERIF)
from acsa import equiv  # noqa: E402
from acsa.core import Repo  # noqa: E402
from acsa.selftest import Variant, build_overlay, patch_edits  # noqa: E402


def main():
    patch = sys.argv[1]
    verbose = "-v" in sys.argv
    base = Repo(os.environ.get("ACSA_REPO", "/repo"))
    ov = build_overlay(base, Variant("x", patch_edits(open(patch).read())))
    if ov is None:
        print("patch does not apply")
        return
    refs = equiv.load_reference_sources()
    full = Repo(os.environ.get("ACSA_REPO", "/repo"), overlay=ov).equiv_stats  # also sets the purity tables
    print("full run: proved", len(full.get("proved_equivalent", [])), "of", len(full.get("changed", [])), full.get("errors", ""))
    for rel, src in ov.items():
        tree = ast.parse(src)
        stats = {}
        # show per function
        ref_tree = ast.parse(refs[rel])
        rf = equiv._function_table(ref_tree)
        nf = equiv._function_table(tree)
        new_helpers = [q for q in nf if q not in rf]
        print(rel, "new functions:", new_helpers)
        t2 = ast.parse(src)
        equiv.substitute_equivalents(rel, t2, refs, stats)
        print("  changed:", [x.split("::")[1] for x in stats.get("changed", [])])
        print("  proved :", [x.split("::")[1] for x in stats.get("proved_equivalent", [])])
        for x in stats.get("changed", []):
            if x in stats.get("proved_equivalent", []):
                continue
            q = x.split("::")[1]
            node, cont, cls = nf[q]
            al = equiv._class_aliases(tree)
            mh = {k: v[0] for k, v in nf.items() if "." not in k and k not in rf}
            ch = {k.split(".", 1)[1]: v[0] for k, v in nf.items() if "." in k and k not in rf}
            for rel2, src2 in ov.items():
                if rel2 != rel:
                    rf2 = equiv._function_table(ast.parse(refs[rel2])); nf2 = equiv._function_table(ast.parse(src2))
                    for k2, v2 in nf2.items():
                        if "." in k2 and k2 not in rf2:
                            ch.setdefault(k2.split(".", 1)[1], v2[0])
            table = equiv.HelperTable(mh, ch, al.get(cls, {}) if cls else {}, cls)
            equiv._set_family(cls)   # list-typed attributes of the class family (as substitute_equivalents does)
            a = ast.unparse(equiv.canon(rf[q][0])).splitlines()
            b = ast.unparse(equiv.canon(node, table)).splitlines()
            print(f"  --- {q}: normal forms differ")
            for l in list(difflib.unified_diff(a, b, "reference", "current", lineterm="", n=1 if not verbose else 4))[:80 if not verbose else 400]:
                print("     ", l)


main()
