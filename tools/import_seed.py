#!/usr/bin/env python3
"""Copies a confirmed seeded defect into /verif/seeded/<prop>-<k>/ with meta.json.

    python3 tools/import_seed.py /tmp/seeds/C03/1 C03 "needs ..."   (reads verify.json and the last seedeval JSON)
"""
import json
import os
import shutil
import subprocess
import sys

VERIF = os.path.dirname(os.path.dirname(os.path.abspath(__file__)))


def main():
    src, prop = sys.argv[1], sys.argv[2]
    k = os.path.basename(src.rstrip("/"))
    dst = os.path.join(VERIF, "seeded", f"{prop}-{k}")
    os.makedirs(dst, exist_ok=True)
    for f in ("patch.diff", "demo.py", "notes.md"):
        if os.path.exists(os.path.join(src, f)):
            shutil.copy(os.path.join(src, f), os.path.join(dst, f))
    verify = {}
    if os.path.exists(os.path.join(src, "verify.json")):
        verify = json.load(open(os.path.join(src, "verify.json")))
    sev = f"/tmp/seval_{prop}_{k}.json"
    fired = {}
    if os.path.exists(sev):
        d = json.load(open(sev))
        for p, v in d.get("fired", {}).items():
            fired[p] = {"exit": v["rc"], "reports": [x.replace("violation: ", "")[:260] for x in v["violations"]] or v["errors"]}
    notes = open(os.path.join(src, "notes.md")).read() if os.path.exists(os.path.join(src, "notes.md")) else ""
    head = subprocess.run(["git", "-C", "/repo", "rev-parse", "--short", "HEAD"], capture_output=True, text=True).stdout.strip()
    meta = {
        "property": prop,
        "origin": "independent sub-agent given only the property text and a scratch worktree of /repo (nothing from /verif)",
        "needs_to_manifest": sys.argv[3] if len(sys.argv) > 3 else "",
        "files_touched": sorted({l[6:].strip() for l in open(os.path.join(src, "patch.diff")) if l.startswith("+++ b/")}),
        "confirmed_by_me": {
            "how": "tools/verify_seed.sh in a scratch worktree of /repo (removed afterwards): demo on the clean tree, demo with the patch, pinned suite with the patch (pytest-xdist)",
            "demo_clean_exit": verify.get("demo_clean_rc"),
            "demo_patched_exit": verify.get("demo_patched_rc"),
            "suite_with_patch": verify.get("suite_summary"),
        },
        "checks_run": "tools/seedeval.py: git -C /repo apply patch.diff; python3 -m acsa check <every property> --tier quick; git -C /repo checkout -- .",
        "repo_commit_when_evaluated": head,
        "checks_that_fired": fired,
        "agent_notes": notes[:1500],
    }
    json.dump(meta, open(os.path.join(dst, "meta.json"), "w"), indent=1)
    print(dst, "fired:", sorted(fired))


if __name__ == "__main__":
    main()
