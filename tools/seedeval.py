#!/usr/bin/env python3
"""Applies a seeded patch to /repo, runs every quick check, reverts the patch, prints which checks fired.

    python3 tools/seedeval.py <dir with patch.diff> [--props C01,C02]
"""
import json
import os
import subprocess
import sys

VERIF = os.path.dirname(os.path.dirname(os.path.abspath(__file__)))


def main():
    d = sys.argv[1]
    props = None
    if "--props" in sys.argv:
        props = sys.argv[sys.argv.index("--props") + 1].split(",")
    patch = os.path.join(d, "patch.diff")
    st = subprocess.run(["git", "-C", "/repo", "status", "--porcelain"], capture_output=True, text=True).stdout.strip()
    if st:
        print("refusing: /repo is not clean:\n" + st)
        return 2
    r = subprocess.run(["git", "-C", "/repo", "apply", patch], capture_output=True, text=True)
    if r.returncode != 0:
        print("patch does not apply:", r.stderr)
        return 2
    out = {}
    try:
        sys.path.insert(0, VERIF)
        from acsa import rules as rules_pkg

        from concurrent.futures import ThreadPoolExecutor

        env = dict(os.environ, ACSA_NO_EVIDENCE="1")

        def one(p):
            rr = subprocess.run([sys.executable, "-m", "acsa", "check", p, "--tier", "quick"], cwd=VERIF, capture_output=True, text=True, env=env)
            viol = [l.strip() for l in rr.stdout.splitlines() if l.strip().startswith("violation:")]
            err = [l.strip() for l in rr.stdout.splitlines() if l.startswith("ANALYSIS-ERROR")]
            return p, {"rc": rr.returncode, "violations": viol, "errors": err}

        with ThreadPoolExecutor(10) as ex:
            for p, v in ex.map(one, props or rules_pkg.all_props()):
                out[p] = v
    finally:
        subprocess.run(["git", "-C", "/repo", "checkout", "--", "."], check=True)
    fired = {p: v for p, v in out.items() if v["rc"] != 0}
    print(json.dumps({"seed": d, "fired": fired}, indent=1))
    return 0


if __name__ == "__main__":
    sys.exit(main())
