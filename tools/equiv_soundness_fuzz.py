#!/usr/bin/env python3
"""Soundness fuzz of acsa/equiv.py: single-point mutations that (almost always) change behaviour --
comparison operator flipped, and/or swapped, `not` removed, a constant changed, a local replaced by
another local, an effectful statement deleted -- are applied to every function of the reference tree;
a mutant whose normal form equals the normal form of the original would be *proved equivalent*: each
such case is printed for inspection.   python3 tools/equiv_soundness_fuzz.py [max per function]"""
import ast, copy, os, sys, random
VERIF = os.path.dirname(os.path.dirname(os.path.abspath(__file__)))
sys.path.insert(0, VERIF)
from acsa import equiv
from acsa.core import Repo

Repo(os.environ.get("ACSA_REPO", "/repo"))  # sets nothing when the tree is the reference; set the purity tables explicitly
refs = equiv.load_reference_sources()
trees = {rel: ast.parse(src) for rel, src in refs.items()}
repo_a, pure_a = equiv.pure_function_names(list(trees.values()))
equiv._REPO_FUNCS, equiv._PURE_FUNCS = repo_a, pure_a
MAXN = int(sys.argv[1]) if len(sys.argv) > 1 else 40
rnd = random.Random(0)
FLIP = {ast.Lt: ast.LtE, ast.LtE: ast.Lt, ast.Gt: ast.GtE, ast.GtE: ast.Gt, ast.Eq: ast.NotEq, ast.NotEq: ast.Eq, ast.In: ast.NotIn, ast.NotIn: ast.In, ast.Is: ast.IsNot, ast.IsNot: ast.Is}


def ignored_ids(fn):
    """nodes whose content is deliberately ignored by the normal form"""
    out = set()
    for n in ast.walk(fn):
        if isinstance(n, ast.Assert) and n.msg is not None:
            for x in ast.walk(n.msg):
                if isinstance(x, ast.Constant):
                    out.add(id(x))
        if isinstance(n, ast.Expr) and isinstance(n.value, ast.Constant):
            out.add(id(n.value))
        if isinstance(n, ast.Expr) and isinstance(n.value, ast.Call) and isinstance(n.value.func, ast.Name) and n.value.func.id in ("warn", "print"):
            for x in ast.walk(n.value):
                if isinstance(x, ast.Constant):
                    out.add(id(x))
        if isinstance(n, ast.arg) and n.annotation is not None:
            for x in ast.walk(n.annotation):
                out.add(id(x))
        if isinstance(n, ast.AnnAssign):
            for x in ast.walk(n.annotation):
                out.add(id(x))
        if isinstance(n, ast.FunctionDef) and n.returns is not None:
            for x in ast.walk(n.returns):
                out.add(id(x))
    return out


def mutants(fn):
    nodes = list(ast.walk(fn))
    ign = ignored_ids(fn)
    idx = {id(n): i for i, n in enumerate(nodes)}
    locals_ = sorted({n.id for n in nodes if isinstance(n, ast.Name) and isinstance(n.ctx, ast.Store)})
    cands = []
    for i, n in enumerate(nodes):
        if id(n) in ign:
            continue
        if isinstance(n, ast.Compare) and len(n.ops) == 1 and type(n.ops[0]) in FLIP:
            cands.append(("cmp", i))
        if isinstance(n, ast.BoolOp):
            cands.append(("bool", i))
        if isinstance(n, ast.UnaryOp) and isinstance(n.op, ast.Not):
            cands.append(("not", i))
        if isinstance(n, ast.Constant) and isinstance(n.value, (int, float, bool)) and not isinstance(n.value, str):
            cands.append(("const", i))
        if isinstance(n, ast.Name) and isinstance(n.ctx, ast.Load) and n.id in locals_ and len(locals_) > 1:
            cands.append(("name", i))
        if isinstance(n, ast.Expr) and isinstance(n.value, ast.Call) and not (isinstance(n.value.func, ast.Name) and n.value.func.id in ("print", "warn")):
            cands.append(("del", i))
    # swap two adjacent statements one of which writes what the other reads (or writes)
    for i, n in enumerate(nodes):
        for fld in ("body", "orelse"):
            lst = getattr(n, fld, None)
            if isinstance(lst, list) and len(lst) > 1 and isinstance(lst[0], ast.stmt):
                for k in range(len(lst) - 1):
                    a, b = lst[k], lst[k + 1]
                    def eff(st):
                        comp_t = {id(x) for c in ast.walk(st) if isinstance(c, ast.comprehension) for x in ast.walk(c.target)}
                        bound = {x.id for c in ast.walk(st) if isinstance(c, ast.comprehension) for x in ast.walk(c.target) if isinstance(x, ast.Name)}
                        wn = {("n", x.id) for x in ast.walk(st) if isinstance(x, ast.Name) and isinstance(x.ctx, ast.Store) and id(x) not in comp_t}
                        wn |= {("a", x.attr) for x in ast.walk(st) if isinstance(x, ast.Attribute) and isinstance(x.ctx, ast.Store)}
                        rn = {("n", x.id) for x in ast.walk(st) if isinstance(x, ast.Name) and isinstance(x.ctx, ast.Load) and x.id not in bound}
                        rn |= {("a", x.attr) for x in ast.walk(st) if isinstance(x, ast.Attribute) and isinstance(x.ctx, ast.Load)}
                        return wn, rn
                    wa, ra = eff(a)
                    wb, rb = eff(b)
                    if (wa & rb or wa & wb) and not isinstance(a, (ast.FunctionDef, ast.ClassDef)) and not isinstance(b, (ast.FunctionDef, ast.ClassDef)):
                        cands.append(("swap", (i, fld, k)))
    # move a statement across a loop header when the loop changes what the statement reads (or the
    # statement is effectful): `t = f(a) ; for ..: a = g(t, a)`  <->  `for ..: t = f(a) ; a = g(t, a)`
    moves = []
    for i, n in enumerate(nodes):
        for fld in ("body", "orelse"):
            lst = getattr(n, fld, None)
            if isinstance(lst, list) and len(lst) > 1 and isinstance(lst[0], ast.stmt):
                for k in range(len(lst) - 1):
                    a, b = lst[k], lst[k + 1]
                    if isinstance(b, (ast.For, ast.While)) and isinstance(a, (ast.Assign, ast.Expr)):
                        loop_w = {x.id for x in ast.walk(b) if isinstance(x, ast.Name) and isinstance(x.ctx, ast.Store)}
                        a_r = {x.id for x in ast.walk(a) if isinstance(x, ast.Name) and isinstance(x.ctx, ast.Load)}
                        if loop_w & a_r or any(isinstance(x, ast.Call) for x in ast.walk(a)):
                            moves.append(("movein", (i, fld, k)))
                    if isinstance(a, (ast.For, ast.While)) or isinstance(b, (ast.For, ast.While)):
                        lp, kk = (b, k + 1) if isinstance(b, (ast.For, ast.While)) else (a, k)
                        first = lp.body[0]
                        if isinstance(first, ast.Assign) and len(lp.body) > 1:
                            loop_w = {x.id for s_ in lp.body[1:] for x in ast.walk(s_) if isinstance(x, ast.Name) and isinstance(x.ctx, ast.Store)} | {x.id for x in ast.walk(lp.target) if isinstance(x, ast.Name)} if isinstance(lp, ast.For) else set()
                            f_r = {x.id for x in ast.walk(first.value) if isinstance(x, ast.Name)}
                            if loop_w & f_r:
                                moves.append(("moveout", (i, fld, kk)))
    cands += moves
    rnd.shuffle(cands)
    for kind, i in cands[:MAXN]:
        if kind in ("movein", "moveout"):
            m = copy.deepcopy(fn)
            owner = list(ast.walk(m))[i[0]]
            lst = getattr(owner, i[1])
            if kind == "movein":
                st_, lp = lst[i[2]], lst[i[2] + 1]
                lp.body.insert(0, st_)
                del lst[i[2]]
            else:
                lp = lst[i[2]]
                st_ = lp.body.pop(0)
                lst.insert(i[2], st_)
            ast.fix_missing_locations(m)
            try:
                compile(ast.Module(body=[m], type_ignores=[]), "<m>", "exec")
            except Exception:
                continue
            yield f"{kind}@{getattr(st_, 'lineno', '?')}", m
            continue
        if kind == "swap":
            m = copy.deepcopy(fn)
            owner = list(ast.walk(m))[i[0]]
            lst = getattr(owner, i[1])
            lst[i[2]], lst[i[2] + 1] = lst[i[2] + 1], lst[i[2]]
            ast.fix_missing_locations(m)
            try:
                compile(ast.Module(body=[m], type_ignores=[]), "<m>", "exec")
            except Exception:
                continue
            yield f"swap@{getattr(lst[i[2]], 'lineno', '?')}", m
            continue
        m = copy.deepcopy(fn)
        mn = list(ast.walk(m))[i]
        desc = f"{kind}@{getattr(mn, 'lineno', '?')}"
        if kind == "cmp":
            mn.ops = [FLIP[type(mn.ops[0])]()]
        elif kind == "bool":
            mn.op = ast.Or() if isinstance(mn.op, ast.And) else ast.And()
        elif kind == "not":
            # replace `not X` by `X` in the parent
            for p in ast.walk(m):
                for f, v in ast.iter_fields(p):
                    if v is mn:
                        setattr(p, f, mn.operand)
                    elif isinstance(v, list):
                        for k, x in enumerate(v):
                            if x is mn:
                                v[k] = mn.operand
        elif kind == "const":
            mn.value = (not mn.value) if isinstance(mn.value, bool) else mn.value + 1
        elif kind == "name":
            others = [x for x in locals_ if x != mn.id]
            mn.id = rnd.choice(others)
            desc += f"->{mn.id}"
        elif kind == "del":
            for p in ast.walk(m):
                for f in ("body", "orelse", "finalbody"):
                    v = getattr(p, f, None)
                    if isinstance(v, list) and mn in v:
                        v.remove(mn)
                        if not v and f == "body":
                            v.append(ast.Pass())
        ast.fix_missing_locations(m)
        try:
            compile(ast.Module(body=[m], type_ignores=[]), "<m>", "exec")
        except Exception:
            continue
        yield desc, m


total = hits = 0
FA_REF = equiv.list_typed_attrs(list(trees.values()))   # list-typed attributes per class family (session 3)


def family_attrs_with(node, cont, m):
    """The evidence the real pipeline would use for this mutant: intersection over the reference tree and
    the tree in which `m` replaces `node` (a mutant that rebinds self.<attr> can only remove evidence)."""
    if not any(isinstance(x, ast.Attribute) and isinstance(x.ctx, (ast.Store, ast.Del)) for x in ast.walk(node)) and not any(
            isinstance(x, ast.Attribute) and isinstance(x.ctx, (ast.Store, ast.Del)) for x in ast.walk(m)):
        return FA_REF
    i = cont.index(node)
    cont[i] = m
    try:
        fb = equiv.list_typed_attrs(list(trees.values()))
    finally:
        cont[i] = node
    return {c: (FA_REF[c][0] & fb[c][0], FA_REF[c][1] & fb[c][1]) for c in FA_REF if c in fb}


for rel, tree in trees.items():
    for q, (node, cont, cls) in equiv._function_table(tree).items():
        try:
            equiv._FAMILY_ATTRS.clear(); equiv._FAMILY_ATTRS.update(FA_REF)
            equiv._set_family(cls)
            k0 = equiv.canon_key(node)
        except Exception as exc:
            print("canon failed", rel, q, exc)
            continue
        for desc, m in mutants(node):
            total += 1
            try:
                equiv._FAMILY_ATTRS.clear(); equiv._FAMILY_ATTRS.update(family_attrs_with(node, cont, m))
                equiv._set_family(cls)
                k0 = equiv.canon_key(node)
                k1 = equiv.canon_key(m)
            except Exception as exc:
                continue
            if k1 == k0 and ast.dump(m) != ast.dump(node):
                hits += 1
                print(f"EQUATED {rel}::{q} {desc}")
print(f"{total} mutants, {hits} equated with the original")
