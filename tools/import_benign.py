#!/usr/bin/env python3
"""Copies the behaviour-preserving changes of the sub-agents (/tmp/benign/<prop>/<k>) into
/verif/benign/<prop>-<k>/ (patch.diff, notes.md, equiv.py) and writes RESIDUAL_FALSE_ALARMS.txt from
the output of tools/benign_eval.py.   python3 tools/import_benign.py /tmp/benign <benign_eval output>"""
import glob, os, re, shutil, sys
VERIF = os.path.dirname(os.path.dirname(os.path.abspath(__file__)))
root, evalfile = sys.argv[1], sys.argv[2]
tag = sys.argv[3] if len(sys.argv) > 3 else ""   # e.g. "b" for the second round: C01-b1
dst_root = os.path.join(VERIF, "benign")
os.makedirs(dst_root, exist_ok=True)
n = 0
for src in sorted(glob.glob(os.path.join(root, "C??", "[0-9]"))):
    prop, k = src.split("/")[-2:]
    if not os.path.exists(os.path.join(src, "patch.diff")):
        continue
    dst = os.path.join(dst_root, f"{prop}-{tag}{k}")
    os.makedirs(dst, exist_ok=True)
    for f in ("patch.diff", "notes.md", "equiv.py"):
        if os.path.exists(os.path.join(src, f)):
            shutil.copy(os.path.join(src, f), os.path.join(dst, f))
    if not os.path.exists(os.path.join(dst, "equiv.py")):
        for cand in glob.glob(os.path.join(root, prop, "equiv*.py")):
            shutil.copy(cand, os.path.join(dst, os.path.basename(cand)))
    n += 1
lines = []
cur = None
for line in open(evalfile):
    m = re.match(r"^(C\d\d)/(\d)\b", line)
    if m:
        cur = f"{m.group(1)}-{tag}{m.group(2)}"
        continue
    m = re.match(r"^\s+(C\d\d) (ALARM|UNDECIDED) (.*)$", line)
    if m and cur:
        lines.append(f"{cur} {m.group(1)}   # {m.group(2)}: {m.group(3).strip()[:150]}")
path = os.path.join(dst_root, "RESIDUAL_FALSE_ALARMS.txt")
old = []
if os.path.exists(path):
    # keep the entries of the other round(s)
    for line in open(path):
        if line.startswith("#") or not line.strip():
            continue
        name = line.split()[0]
        is_tagged = bool(re.match(r"C\d\d-[a-z]\d", name))
        if (tag and not name.split("-")[1].startswith(tag)) or (not tag and is_tagged):
            old.append(line.rstrip("\n"))
with open(path, "w") as fh:
    fh.write("# <change> <property>   # what the check wrongly reports on this behaviour-preserving change\n")
    fh.write("# (written by tools/import_benign.py from tools/benign_eval.py; these pairs are not replayed by the self-test)\n")
    fh.write("\n".join(sorted(old + lines)) + "\n")
print(n, "changes imported;", len(lines), "residual (change, property) false alarms")
