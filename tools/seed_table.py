#!/usr/bin/env python3
"""Prints the markdown table of DESIGN.md section 11 from /verif/seeded/*/meta.json."""
import glob
import json
import os

VERIF = os.path.dirname(os.path.dirname(os.path.abspath(__file__)))
first = json.load(open(os.path.join(VERIF, "tools", "seed_first_run.json")))
first2 = json.load(open(os.path.join(VERIF, "tools", "seed_first_run_r2.json")))
first2.update(json.load(open(os.path.join(VERIF, "tools", "seed_first_run_r3.json"))))
first2.update(json.load(open(os.path.join(VERIF, "tools", "seed_first_run_r4.json"))))
first2.update(json.load(open(os.path.join(VERIF, "tools", "seed_first_run_r5.json"))))
first2.update(json.load(open(os.path.join(VERIF, "tools", "seed_first_run_r6.json"))))
rows = []
for d in sorted(glob.glob(os.path.join(VERIF, "seeded", "*"))):
    name = os.path.basename(d)
    mp = os.path.join(d, "meta.json")
    if not os.path.exists(mp):
        continue
    m = json.load(open(mp))
    fired = m.get("checks_that_fired", {})
    caught = ", ".join(f"{p} ({'; '.join(sorted({r.split(' @ ')[0] for r in v['reports']}))[:60]})" for p, v in sorted(fired.items()) if v["exit"] == 1) or m.get("status", "-")
    if name in first2:
        desc, fr = m.get("what", ""), first2[name]
    else:
        desc, fr = first.get(name, [m.get("needs_to_manifest", ""), ""])
    rows.append(f"| {name} | {desc} | {caught} | {fr} |")
import sys
if "--write" in sys.argv:
    dp = os.path.join(VERIF, "DESIGN.md")
    t = open(dp).read()
    a, b = t.index("<!-- SEED_TABLE_BEGIN -->"), t.index("<!-- SEED_TABLE_END -->")
    t = t[:a] + "<!-- SEED_TABLE_BEGIN -->\n" + "\n".join(rows) + "\n" + t[b:]
    open(dp, "w").write(t)
    print(len(rows), "rows written")
else:
    print("\n".join(rows))
