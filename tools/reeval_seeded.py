#!/usr/bin/env python3
"""Re-runs every quick check against every kept seeded change (apply to /repo, check, revert) and
refreshes `checks_that_fired` in its meta.json.  Usage: python3 tools/reeval_seeded.py [name ...]"""
import glob
import json
import os
import subprocess
import sys

VERIF = os.path.dirname(os.path.dirname(os.path.abspath(__file__)))


def main():
    names = sys.argv[1:]
    dirs = sorted(glob.glob(os.path.join(VERIF, "seeded", "*")))
    head = subprocess.run(["git", "-C", "/repo", "rev-parse", "--short", "HEAD"], capture_output=True, text=True).stdout.strip()
    missed = []
    for d in dirs:
        name = os.path.basename(d)
        if names and name not in names:
            continue
        mp = os.path.join(d, "meta.json")
        meta = json.load(open(mp))
        if str(meta.get("status", "")).startswith("superseded"):
            continue
        r = subprocess.run([sys.executable, os.path.join(VERIF, "tools", "seedeval.py"), d], capture_output=True, text=True, cwd=VERIF)
        try:
            out = json.loads(r.stdout)
        except Exception:
            print(name, "seedeval failed:", r.stdout[:200], r.stderr[:200])
            continue
        fired = {}
        for p, v in out.get("fired", {}).items():
            fired[p] = {"exit": v["rc"], "reports": [x.replace("violation: ", "")[:260] for x in v["violations"]] or v["errors"]}
        meta["checks_that_fired"] = fired
        meta["repo_commit_when_evaluated"] = head
        json.dump(meta, open(mp, "w"), indent=1)
        own = meta["property"]
        ok = fired.get(own, {}).get("exit") == 1
        print(name, "own-check" if ok else "OWN CHECK SILENT", sorted((p, v["exit"]) for p, v in fired.items()))
        if not ok:
            missed.append(name)
    print("seeds whose own property check stays silent:", missed)
    return 0


if __name__ == "__main__":
    sys.exit(main())
