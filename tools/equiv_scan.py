#!/usr/bin/env python3
"""Per patch under a directory: changed functions vs functions proved equivalent."""
import ast, glob, os, sys
VERIF = os.path.dirname(os.path.dirname(os.path.abspath(__file__)))
sys.path.insert(0, VERIF)
from acsa import equiv
from acsa.core import Repo
from acsa.selftest import Variant, build_overlay, patch_edits
root = sys.argv[1]
base = Repo("/repo")
refs = equiv.load_reference_sources()
tot = [0, 0]
for patch in sorted(glob.glob(os.path.join(root, "C??", "*", "patch.diff"))):
    name = "/".join(patch.split("/")[-3:-1])
    ed = patch_edits(open(patch).read())
    try:
        ov = build_overlay(base, Variant("x", ed)) if ed else None
    except SyntaxError:
        ov = None
    if ov is None:
        print(name, "does not apply"); continue
    stats = Repo("/repo", overlay=ov).equiv_stats
    if stats.get("errors"): print("   ERRORS", stats["errors"])
    ch = [x.split("::")[1] for x in stats.get("changed", [])]
    pr = [x.split("::")[1] for x in stats.get("proved_equivalent", [])]
    tot[0] += len(ch); tot[1] += len(pr)
    print(name, f"{len(pr)}/{len(ch)}", "NOT PROVED:" if len(pr) < len(ch) else "", [c for c in ch if c not in pr])
print("functions proved equivalent:", tot[1], "of", tot[0])
