#!/usr/bin/env python3
"""Runs every property's rules (in process, through the overlay, no self-test) on each
behaviour-preserving change under a directory (<dir>/<prop>/<k>/patch.diff) and prints which rules
raise an alarm.  Every line other than SILENT is a false alarm (or an undecided result) of mine.

    python3 tools/benign_eval.py /tmp/benign [C05/1 ...]
"""
import glob
import json
import multiprocessing as mp
import os
import sys

VERIF = os.path.dirname(os.path.dirname(os.path.abspath(__file__)))
sys.path.insert(0, VERIF)


def job(args):
    name, patch, prop = args
    from acsa.__main__ import run_rules
    from acsa.core import Repo
    from acsa.selftest import Variant, build_overlay, patch_edits
    from acsa.report import load_known

    edits = patch_edits(open(patch).read())
    if not edits:
        return (name, prop, "skip", "no edits")
    base = Repo(os.environ.get("ACSA_REPO", "/repo"))
    try:
        ov = build_overlay(base, Variant(name, edits))
    except SyntaxError as exc:
        return (name, prop, "skip", f"does not compile {exc}")
    if ov is None:
        return (name, prop, "skip", "patch does not apply")
    repo = Repo(os.environ.get("ACSA_REPO", "/repo"), overlay=ov)
    res = run_rules(prop, repo)
    known = {(k.rule, k.construct) for k in load_known() if k.prop == prop}
    viol = [o for o in res.violations if (o.rule, o.construct) not in known]
    eq = getattr(repo, "equiv_stats", None)
    if viol:
        return (name, prop, "ALARM", f"{viol[0].rule} @ {viol[0].construct.split('::', 1)[-1][:110]} (+{len(viol) - 1})", eq)
    if res.error:
        return (name, prop, "UNDECIDED", res.error.splitlines()[0][:160], eq)
    return (name, prop, "silent", "", eq)


def main():
    root = sys.argv[1]
    only = set(sys.argv[2:])
    from acsa import rules

    props = rules.all_props()
    jobs = []
    for patch in sorted(glob.glob(os.path.join(root, "C??", "[0-9]", "patch.diff"))):
        name = "/".join(patch.split("/")[-3:-1])
        if only and name not in only:
            continue
        for p in props:
            jobs.append((name, patch, p))
    with mp.get_context("fork").Pool(16) as pool:
        results = pool.map(job, jobs, chunksize=2)
    by = {}
    for r in results:
        by.setdefault(r[0], []).append(r)
    n_silent = 0
    for name in sorted(by):
        bad = [r for r in by[name] if r[2] not in ("silent",)]
        eq = next((r[4] for r in by[name] if len(r) > 4 and r[4]), None)
        if not bad:
            n_silent += 1
            print(name, "SILENT", eq or "")
        else:
            print(name, eq or "")
            for r in bad:
                print("     ", r[1], r[2], r[3])
    print(f"{n_silent}/{len(by)} changes silent")


if __name__ == "__main__":
    main()
